#!/usr/bin/env python
"""Differential check: /repo (reference) vs /tmp/wtW-C09 (refactored).

Runs the same seeded scenario generator in two subprocesses, one per
tree, and compares the transcripts (emitted bytes, state, return values,
exception type names and messages). Exits 0 when identical.
"""

import json
import os
import subprocess
import sys

TREES = {"ref": "/repo", "new": "/tmp/wtW-C09"}
PYTHON = "/venv/bin/python"

WORKER = r'''
import json, random, sys, math
import numpy as np
import gscrib
from gscrib import GCodeBuilder, GCodeCore
from gscrib.writers import BaseWriter
from gscrib.formatters import DefaultFormatter
from gscrib.enums import HaltMode

assert gscrib.__file__.startswith(sys.argv[1]), gscrib.__file__

class FakeWriter(BaseWriter):
    def __init__(self, fail_after=None):
        self.chunks = []
        self.fail_after = fail_after
    def connect(self):
        return self
    def disconnect(self, wait=True):
        pass
    def write(self, statement):
        if self.fail_after is not None and len(self.chunks) >= self.fail_after:
            raise RuntimeError("boom")
        self.chunks.append(statement)

class Weird(str):
    def __str__(self):
        return "weird-str"

rng = random.Random(90909)
STYLES = [";", "(", "[", "<", '"', "'", "/*", "#", "//", " ; ", "%", "{", "", "   ", ";;"]
TEXTS = [
    "", " ", "hello", "G1 X10", "a\nG1 X99", "a\r\nM3 S100", "a\rM2", "x ) G0 Z-5 (",
    "end */ G1 */", "] [", "> <", "\" M3 \"", "' '", "; M30", "{}", "{0}", "{x}", "}{",
    "café   G1 X1", "tab\tx\x0b\x0cq", "\x1c\x1d\x1e\x85", "%s %d", "   pad   ",
    "\n", "\r", ")", "*/", "\x00nul", "😀".encode("utf-16", "surrogatepass").decode("utf-16"),
    "\udc80lone", Weird("sub) \n class"),
]
KEYS = ["tool", "tool_diameter", "_x", "x1", "1x", "", "a b", "a-b", "café", "a\nb", "class", "{}", Weird("wk")]
TEMPS = [None, 0, 0.0, -0.0, 50, 50.5, 200.0, -10.0, 1e9, float("nan"), float("inf"), "hot", None, True, np.float64(60.0), np.int64(70)]
HALTS = ["off", "pause", "optional-pause", "end-without-reset", "end-with-reset", "pallet-exchange",
         "wait-for-bed", "wait-for-hotend", "wait-for-chamber", "bogus", HaltMode.OFF, HaltMode.WAIT_FOR_BED, 3, None]
HALTS += [m for m in HaltMode]

def text():
    if rng.random() < 0.3:
        return rng.choice(TEXTS) + rng.choice(TEXTS)
    if rng.random() < 0.2:
        return "".join(rng.choice("ab ()[]{}<>;\"'*/\n\r\tG1X0") for _ in range(rng.randint(0, 12)))
    return rng.choice(TEXTS)

def rec(v):
    if isinstance(v, float):
        return repr(v)
    if isinstance(v, (str, int, bool)) or v is None:
        return repr(v)
    return repr(v)

def snapshot(g, w):
    s = g.state
    out = {"bytes": [c.hex() for c in w.chunks], "pos": repr(g.position)}
    for name in ("is_coolant_active", "is_tool_active", "spin_mode", "coolant_mode", "halt_mode",
                 "target_hotend_temperature", "target_bed_temperature", "target_chamber_temperature",
                 "power_mode", "tool_power", "feed_rate", "distance_mode"):
        try:
            out[name] = repr(getattr(s, name))
        except Exception as e:
            out[name] = "EXC " + type(e).__name__
    return out

def call(log, label, fn, *a, **k):
    try:
        r = fn(*a, **k)
        log.append([label, "ok", rec(r)])
    except BaseException as e:
        log.append([label, "exc", type(e).__name__, str(e)[:200]])

def halt_kwargs():
    kw = {}
    for key in ("R", "S", "r", "s", "P", "T"):
        if rng.random() < 0.4:
            kw[key] = rng.choice(TEMPS)
    return kw

transcript = []

# --- formatter level -----------------------------------------------------
for i in range(150):
    log = []
    f = DefaultFormatter()
    style = rng.choice(STYLES + [1, None])
    call(log, "symbols %r" % (style,), f.set_comment_symbols, style)
    log.append(["tmpl", getattr(f, "_comment_template", "<unset>"), repr(getattr(f, "_comment_ending", "<unset>"))])
    for _ in range(4):
        t = rng.choice([text(), text(), text(), None, 5, b"x"])
        call(log, "comment", f.comment, t)
        call(log, "command", f.command, "G1", {"x": 1}, t if isinstance(t, str) or t is None else "z")
    transcript.append(log)

# --- builder level -------------------------------------------------------
for i in range(350):
    log = []
    style = rng.choice(STYLES[:11])
    fail = rng.choice([None, None, None, None, 0, 1, 2, 3])
    try:
        g = GCodeBuilder(comment_symbols=style, print_lines=False, line_endings=rng.choice(["os", "\\n", "\\r\\n"]))
    except BaseException as e:
        transcript.append([["ctor", type(e).__name__, str(e)[:200]]])
        continue
    w = FakeWriter(fail)
    g.add_writer(w)
    if rng.random() < 0.5:
        call(log, "bounds-bed", g.set_bounds, "bed-temperature", 0, 120)
        call(log, "bounds-hot", g.set_bounds, "hotend-temperature", 0, 300)
        call(log, "bounds-ch", g.set_bounds, "chamber-temperature", 10, 80)
    for step in range(rng.randint(2, 7)):
        op = rng.choice(["annotate", "comment", "emergency", "halt", "halt", "tool_off", "coolant_off",
                         "tool_on", "coolant_on", "move", "set_axis", "stop", "pause", "symbols", "wait"])
        if op == "annotate":
            call(log, op, g.annotate, rng.choice(KEYS + [None, 3]), rng.choice([text(), text(), None, 7]))
        elif op == "comment":
            args = [rng.choice([text(), 1, None, 2.5, [1]]) for _ in range(rng.randint(0, 3))]
            call(log, op, g.comment, rng.choice([text(), text(), None]), *args)
        elif op == "emergency":
            msg = rng.choice([text(), text(), text(), None, 9])
            rst = rng.choice([True, False, False, 0, 1, None, "yes"])
            if rng.random() < 0.5:
                call(log, op, g.emergency_halt, msg, rst)
            elif rng.random() < 0.5:
                call(log, op, g.emergency_halt, msg)
            else:
                call(log, op, g.emergency_halt, message=msg, reset=rst)
        elif op == "halt":
            call(log, op, g.halt, rng.choice(HALTS), **halt_kwargs())
        elif op == "tool_off":
            call(log, op, g.tool_off)
        elif op == "coolant_off":
            call(log, op, g.coolant_off)
        elif op == "tool_on":
            call(log, op, g.tool_on, rng.choice(["cw", "ccw", "off", "x"]), rng.choice([1000, 0, -1, 1.5]))
        elif op == "coolant_on":
            call(log, op, g.coolant_on, rng.choice(["flood", "mist", "off", "x"]))
        elif op == "move":
            call(log, op, g.move, x=rng.choice([1, 2.5, -0.0]), comment=rng.choice([text(), None]))
        elif op == "set_axis":
            call(log, op, g.set_axis, x=rng.choice([0, 3]), comment=rng.choice([text(), None]))
        elif op == "stop":
            call(log, op, g.stop, rng.choice([True, False]))
        elif op == "pause":
            call(log, op, g.pause, rng.choice([True, False]))
        elif op == "wait":
            call(log, op, g.wait)
        elif op == "symbols":
            call(log, op, g.format.set_comment_symbols, rng.choice(STYLES))
        log.append(snapshot(g, w))
    transcript.append(log)

# --- core level (annotate on GCodeCore) ----------------------------------
for i in range(100):
    log = []
    g = GCodeCore(comment_symbols=rng.choice(STYLES[:11]), print_lines=False)
    w = FakeWriter(rng.choice([None, None, 0, 1]))
    g.add_writer(w)
    for _ in range(4):
        call(log, "annotate", g.annotate, rng.choice(KEYS), text())
        call(log, "annotate-kw", lambda: g.annotate(key=rng.choice(KEYS), value=text()))
    call(log, "helper", GCodeCore.annotate, g, "k", "v")
    log.append([c.hex() for c in w.chunks])
    transcript.append(log)

json.dump(transcript, sys.stdout)
'''


def run(tree: str) -> str:
    env = dict(os.environ, PYTHONPATH=tree, PYTHONHASHSEED="0")
    proc = subprocess.run(
        [PYTHON, "-c", WORKER, tree], env=env, stdin=subprocess.DEVNULL,
        capture_output=True, text=True, timeout=600, cwd="/tmp",
    )
    if proc.returncode != 0:
        sys.stderr.write(proc.stderr[-4000:])
        raise SystemExit(f"worker for {tree} failed")
    return proc.stdout


def main() -> None:
    out = {name: json.loads(run(tree)) for name, tree in TREES.items()}
    ref, new = out["ref"], out["new"]
    assert len(ref) == len(new), (len(ref), len(new))

    for index, (a, b) in enumerate(zip(ref, new)):
        if a != b:
            for x, y in zip(a, b):
                if x != y:
                    print("scenario", index, "\n REF", x, "\n NEW", y)
                    break
            raise SystemExit("transcripts differ")

    records = sum(len(s) for s in ref)
    excs = sum(1 for s in ref for r in s if isinstance(r, list) and len(r) > 1 and r[1] == "exc")
    print(f"identical: {len(ref)} scenarios, {records} records, {excs} exceptions recorded")


if __name__ == "__main__":
    main()
