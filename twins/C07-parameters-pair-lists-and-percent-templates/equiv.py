#!/usr/bin/env python
"""Differential check: /repo (reference) vs /tmp/wtW-C07 (refactored).

Run without arguments: spawns one worker per tree (same script, --worker),
compares the JSON transcripts, exits 0 when identical.
"""

import json
import os
import subprocess
import sys

TREES = {"ref": "/repo", "new": "/tmp/wtW-C07"}


def worker():
    import random
    import math
    from decimal import Decimal
    from fractions import Fraction

    import numpy as np
    import gscrib
    from gscrib import GCodeBuilder
    from gscrib.formatters import DefaultFormatter
    from gscrib.writers.base_writer import BaseWriter

    assert os.path.dirname(os.path.dirname(gscrib.__file__)) == os.environ["TREE"], gscrib.__file__

    rng = random.Random(7007)
    out = []

    def rec(tag, fn):
        try:
            value = fn()
            out.append([tag, "ok", repr(value)])
        except BaseException as e:  # noqa
            out.append([tag, "exc", type(e).__name__])

    class Weird:
        def __repr__(self):
            return "<Weird>"

        def __str__(self):
            return "weird!"

    class BadStr:
        def __repr__(self):
            return "<BadStr>"

        def __str__(self):
            raise RuntimeError("nope")

    numbers = [
        0, -0.0, 0.0, 1, -1, 1.5, -2.25, 1e-7, -1e-7, 1e-5, 4.999995e-6, 1e21,
        123456.789012345, float("nan"), float("inf"), float("-inf"), True, False,
        np.float64(3.25), np.float32(0.1), np.int64(7), np.float64("nan"),
        Decimal("1.25"), Fraction(1, 3), 1 + 2j, 0j, 10 ** 30, -10 ** 30,
    ]
    others = [None, "", "abc", " p q ", "1.0", Weird(), BadStr(), [1, 2], (3,), {"a": 1}, b"by"]
    keys = ["x", "X", "y", "Y", "z", "Z", "f", "F", "s", "S", "e", "E", "p", "P",
            "a", "B", "i", "J", "comment", "", " ", "xy", "ß", "t", "T", "r"]
    odd_keys = [b"x", b"q", 5, None, ("x",)]
    symbols = [";", "(", "[", "{", "<", '"', "'", "/*", "//", "#", "((", "%", "{}", "{0}",
               " ; ", " ( ", "", "  ", "*/", ")", "%s", "{x}"]
    comments = [None, "", "  ", "hello", "a)b", "a]b}c>d", "l1\nl2", "l1\r\nl2", "x*/y", 'q"q',
                "it's", "{}", "{0}", "%s", " padded ", "é中", "a;b", ")"]

    def rand_number():
        r = rng.random()
        if r < 0.5:
            return rng.choice(numbers)
        if r < 0.75:
            return round(rng.uniform(-1000, 1000), rng.randint(0, 8))
        return rng.randint(-5000, 5000)

    def rand_value():
        return rand_number() if rng.random() < 0.8 else rng.choice(others)

    def rand_params():
        n = rng.choice([0, 1, 1, 2, 3, 4, 6])
        d = {}
        for _ in range(n):
            k = rng.choice(keys) if rng.random() < 0.95 else rng.choice(odd_keys)
            d[k] = rand_value()
        return d

    # ---- 1. formatter level ------------------------------------------------
    fmt = DefaultFormatter()

    def fmt_state(f):
        return [f._comment_template, f._comment_ending, f._decimal_places,
                f._line_endings, dict(f._labels)]

    for sym in symbols:
        rec(f"sym:{sym!r}", lambda: fmt.set_comment_symbols(sym))
        out.append(["fmtstate", fmt_state(fmt)])
        rec(f"tmpl:{sym!r}", lambda: fmt._to_comment_template(sym))
        out.append(["fmtstate", fmt_state(fmt)])
        for c in comments:
            if c is not None:
                rec(f"comment:{sym!r}:{c!r}", lambda: fmt.comment(c))
            rec(f"cmd:{sym!r}:{c!r}", lambda: fmt.command("G1", {"x": 1, "f": 2}, c))
            rec(f"cmd0:{sym!r}:{c!r}", lambda: fmt.command("", None, c))
    for bad in [None, 5, b";", ["("]]:
        rec(f"symbad:{bad!r}", lambda: fmt.set_comment_symbols(bad))
        rec(f"tmplbad:{bad!r}", lambda: fmt._to_comment_template(bad))
        out.append(["fmtstate", fmt_state(fmt)])

    for i in range(400):
        if i % 40 == 0:
            rec("dp", lambda: fmt.set_decimal_places(rng.choice([0, 1, 3, 5, 8, -1])))
            rec("sy", lambda: fmt.set_comment_symbols(rng.choice(symbols)))
            rec("lbl", lambda: fmt.set_axis_label(rng.choice(["x", "y", "z", "w"]),
                                                  rng.choice(["A", "b", " u ", "", "XX"])))
            out.append(["fmtstate", fmt_state(fmt)])
        p = rand_params()
        c = rng.choice(comments)
        cmd = rng.choice(["G0", "G1", "M3", "", " ", "T01 M6"])
        rec(f"params#{i}", lambda: fmt.parameters(p))
        rec(f"command#{i}", lambda: fmt.command(cmd, p, c))
        rec(f"command_nop#{i}", lambda: fmt.command(cmd, None, c))
        rec(f"command_empty#{i}", lambda: fmt.command(cmd, {}, c))
    for bad in [None, 5, "x1", [("x", 1)]]:
        rec(f"paramsbad:{bad!r}", lambda: fmt.parameters(bad))
        rec(f"cmdbad:{bad!r}", lambda: fmt.command("G1", bad))
        rec(f"cmdbad2:{bad!r}", lambda: fmt.command(bad, {"x": 1}))
        rec(f"cmdbad3:{bad!r}", lambda: fmt.command("G1", {"x": 1}, bad))
    from gscrib.params import ParamsDict
    rec("paramsdict", lambda: fmt.command("G1", ParamsDict(x=1, e=0.5, f=100), "c"))
    rec("paramsdict0", lambda: fmt.command("G1", ParamsDict(), "c"))

    # ---- 2. builder level --------------------------------------------------
    class Sink(BaseWriter):
        def __init__(self):
            self.lines = []

        def connect(self):
            return self

        def disconnect(self, wait=True):
            pass

        def write(self, statement):
            self.lines.append(repr(statement))

    def snap(g):
        s = g.state
        names = ["is_tool_active", "is_coolant_active", "tool_number", "tool_power",
                 "feed_rate", "spin_mode", "power_mode", "coolant_mode", "distance_mode",
                 "extrusion_mode", "feed_mode", "tool_swap_mode", "halt_mode",
                 "length_units", "time_units", "temperature_units", "plane", "direction",
                 "resolution", "target_hotend_temperature", "target_bed_temperature",
                 "target_chamber_temperature", "position"]
        d = {n: repr(getattr(s, n)) for n in names}
        d["params"] = {k: repr(s.get_parameter(k)) for k in "FSEXYZPIJT"}
        d["core_pos"] = repr(g.position)
        return d

    spin = ["cw", "ccw", "off", "bogus", None, 3]
    power = ["constant", "dynamic", "off", "bogus", None]
    levels = [0, -0.0, 1, 1000, 0.5, 12000.123456, -1, -0.001, float("nan"), float("inf"),
              float("-inf"), "100", None, True, np.float64(80.0), 1e-9, 10 ** 12]

    try:
        from gscrib.enums import SpinMode, PowerMode
        spin += [SpinMode.CW, SpinMode.CCW, SpinMode.OFF, PowerMode.CONSTANT]
        power += [PowerMode.CONSTANT, PowerMode.DYNAMIC, PowerMode.OFF, SpinMode.CW]
    except Exception as e:  # pragma: no cover
        out.append(["enum-import", type(e).__name__])

    configs = [
        {}, {"comment_symbols": "("}, {"decimal_places": 0}, {"decimal_places": 2, "comment_symbols": "/*"},
        {"line_endings": "\\r\\n", "x_axis": "A", "y_axis": "b", "z_axis": "C"},
        {"comment_symbols": "{"}, {"comment_symbols": "#", "decimal_places": 8},
    ]

    for ci, cfg in enumerate(configs):
        g = GCodeBuilder(cfg)
        sink = Sink()
        g.add_writer(sink)
        for step in range(90):
            r = rng.random()
            if r < 0.22:
                m, v = rng.choice(spin + power), rng.choice(levels + [rand_number()])
                op = f"tool_on({m!r},{v!r})"
                fn = lambda: g.tool_on(m, v)
            elif r < 0.44:
                m, v = rng.choice(power + spin), rng.choice(levels + [rand_number()])
                op = f"power_on({m!r},{v!r})"
                fn = lambda: g.power_on(m, v)
            elif r < 0.52:
                op, fn = "tool_off", g.tool_off
            elif r < 0.60:
                op, fn = "power_off", g.power_off
            elif r < 0.66:
                m = rng.choice(["mist", "flood", "off", "bogus"])
                op, fn = f"coolant_on({m!r})", (lambda: g.coolant_on(m))
            elif r < 0.70:
                op, fn = "coolant_off", g.coolant_off
            elif r < 0.75:
                m, n = rng.choice(["auto", "manual", "off", "x"]), rng.choice([1, 2, 17, 0, -3, 123, 1.5])
                op, fn = f"tool_change({m!r},{n!r})", (lambda: g.tool_change(m, n))
            elif r < 0.80:
                v = rng.choice(levels)
                op, fn = f"set_tool_power({v!r})", (lambda: g.set_tool_power(v))
            elif r < 0.84:
                v = rng.choice(levels)
                op, fn = f"set_feed_rate({v!r})", (lambda: g.set_feed_rate(v))
            elif r < 0.88:
                v = rng.choice(["inches", "millimeters", "bogus"])
                op, fn = f"set_length_units({v!r})", (lambda: g.set_length_units(v))
            elif r < 0.91:
                v = rng.choice(["relative", "absolute", "zz"])
                op, fn = f"set_distance_mode({v!r})", (lambda: g.set_distance_mode(v))
            elif r < 0.93:
                v = rng.choice(symbols)
                op, fn = f"set_comment_symbols({v!r})", (lambda: g.format.set_comment_symbols(v))
            elif r < 0.95:
                c = rng.choice(comments[1:])
                op, fn = f"comment({c!r})", (lambda: g.comment(c))
            else:
                kw = {k: v for k, v in rand_params().items() if isinstance(k, str) and k.isidentifier()}
                mv = rng.choice(["move", "rapid", "set_axis", "auto_home"])
                op, fn = f"{mv}({kw!r})", (lambda: getattr(g, mv)(**kw))
            n_before = len(sink.lines)
            rec(f"b{ci}.{step}:{op}", fn)
            out.append(["lines", sink.lines[n_before:]])
            out.append(["state", snap(g)])
        out.append(["all", sink.lines])

    # private helper contract used by both entry points
    g = GCodeBuilder()
    sink = Sink()
    g.add_writer(sink)
    rec("tool_on_kw", lambda: g.tool_on(mode="cw", speed=10))
    rec("power_on_after_spin", lambda: g.power_on(mode="constant", power=10))
    rec("tool_on_missing", lambda: g.tool_on("cw"))
    rec("power_on_missing", lambda: g.power_on("constant"))
    out.append(["final", sink.lines, snap(g)])

    json.dump(out, sys.stdout)


def main():
    results = {}
    for name, tree in TREES.items():
        env = dict(os.environ, PYTHONPATH=tree, TREE=tree, PYTHONHASHSEED="0")
        proc = subprocess.run(
            [sys.executable, os.path.abspath(__file__), "--worker"],
            env=env, stdin=subprocess.DEVNULL, capture_output=True, text=True, timeout=600,
            cwd="/tmp/twin4-C07",
        )
        if proc.returncode != 0:
            print(proc.stderr[-4000:])
            raise SystemExit(f"worker {name} failed")
        results[name] = json.loads(proc.stdout)

    ref, new = results["ref"], results["new"]
    assert len(ref) == len(new), (len(ref), len(new))
    for i, (a, b) in enumerate(zip(ref, new, strict=True)):
        assert a == b, f"transcripts differ at record {i}:\n ref={a}\n new={b}"
    n_exc = sum(1 for r in ref if len(r) == 3 and r[1] == "exc")
    n_ok = sum(1 for r in ref if len(r) == 3 and r[1] == "ok")
    print(f"identical transcripts: {len(ref)} records ({n_ok} ok calls, {n_exc} raising calls)")


if __name__ == "__main__":
    if "--worker" in sys.argv:
        worker()
    else:
        main()
