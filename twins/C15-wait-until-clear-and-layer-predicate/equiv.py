#!/usr/bin/env python3
"""Differential check for the C15 refactoring of gscrib.printrun.printcore.

Runs the same seeded scenarios against two source trees (the pristine one
in /repo and the refactored one in /tmp/wtU-C15), each in its own
subprocess, and asserts that the recorded transcripts are identical.

Refactored code under test: printcore._sendnext, printcore._sender and the
two private helpers they now share (_wait_until_clear, _starts_new_layer).

Three families of scenarios, all with in-process fake devices:

  unit     _sendnext() called directly (no threads) on randomised, also
           invalid, sender states; records exceptions, state, bytes written
           and every callback invocation
  sender   _sender() run in a thread over a pre-filled priority queue
  stream   complete jobs streamed with the real read / send / print threads
           against a fake firmware that checks line numbers and checksums,
           corrupts a seeded set of transmissions and asks for resends.
           "lockstep" sub-mode: the firmware answers "Resend + ok"; answers
           are handed to the read thread (and waited for) whenever the
           sending side next looks at the device (includes pause / resume).
           "async" sub-mode: one answer per line, delivered by the read
           thread after a random latency.

Usage:  python equiv.py            (parent: spawns both workers, compares)
        python equiv.py --worker   (internal)
"""

import json
import os
import subprocess
import sys

TREES = [("base", "/repo"), ("refactored", "/tmp/wtU-C15")]
SEED = 150215


# ---------------------------------------------------------------------------
# worker
# ---------------------------------------------------------------------------

def worker():
    import importlib
    import logging
    import random
    import re
    import threading
    import time
    from collections import deque

    logging.disable(logging.CRITICAL)

    import gscrib
    core_mod = importlib.import_module("gscrib.printrun.printcore")
    gcoder = importlib.import_module("gscrib.printrun.gcoder")
    device_mod = importlib.import_module("gscrib.printrun.device")
    printcore = core_mod.printcore

    transcript = []

    # -- helpers ------------------------------------------------------------

    def norm_error(msg):
        """Error texts may embed tracebacks (paths, line numbers): keep the
        first line and the final 'ExcType: message' line only."""
        msg = str(msg)
        lines = [ln for ln in msg.splitlines() if ln.strip()]
        if not lines:
            return ""
        if "Traceback" in msg:
            return lines[0] + " || " + lines[-1]
        return " | ".join(lines)

    def raw_of(gline):
        if gline is None:
            return None
        return getattr(gline, "raw", repr(gline))

    def snapshot(p):
        an = p.analyzer
        pri = list(p.priqueue.queue)
        return {
            "clear": repr(p.clear),
            "online": repr(p.online),
            "printing": repr(p.printing),
            "paused": repr(p.paused),
            "queueindex": repr(p.queueindex),
            "lineno": repr(p.lineno),
            "resendfrom": repr(p.resendfrom),
            "sentlines": sorted((repr(k), v) for k, v in p.sentlines.items()),
            "sent": list(p.sent),
            "writefailures": repr(p.writefailures),
            "priqueue": [repr(x) for x in pri],
            "mainqueue_len": (None if p.mainqueue is None
                              else len(p.mainqueue)),
            "printer_none": p.printer is None,
            "an": [repr(an.abs_x), repr(an.abs_y), repr(an.abs_z),
                   repr(an.abs_e), repr(an.current_f), repr(an.relative),
                   repr(an.relative_e), repr(an.current_tool)],
            "pause": [repr(getattr(p, n, "<unset>")) for n in
                      ("pauseX", "pauseY", "pauseZ", "pauseE", "pauseF",
                       "pauseRelative", "pauseRelativeE")],
            "send_line_numbers": repr(p._send_line_numbers),
        }

    class Boom(Exception):
        pass

    class Recorder:
        """Event handler + callbacks; everything goes into self.events
        (events raised by the reader thread go into self.rx)."""

        def __init__(self, p, cfg):
            self.p = p
            self.cfg = cfg
            self.events = []
            self.rx = []
            self.starts = []
            self.injected = 0
            self.printsend_count = 0

        # event handler interface
        def on_init(self): self.events.append(["h.init"])
        def on_connect(self): self.events.append(["h.connect"])
        def on_disconnect(self): self.events.append(["h.disconnect"])
        def on_online(self): self.rx.append(["h.online"])
        def on_recv(self, line): self.rx.append(["h.recv", line])
        def on_temp(self, line): self.rx.append(["h.temp", line])

        def on_error(self, error):
            # may come from any thread; the threads never overlap on errors
            # in the scenarios below except reader-side 'Error' lines
            if threading.current_thread().name == "read thread":
                self.rx.append(["h.error", norm_error(error)])
            else:
                self.events.append(["h.error", norm_error(error)])

        def on_send(self, command, gline):
            if threading.current_thread().name == "read thread":
                self.rx.append(["h.send", command, raw_of(gline)])
                return
            self.events.append(["h.send", command, raw_of(gline),
                                None if gline is None else gline.command])
            if self.cfg.get("raise_on_send"):
                raise Boom("on_send")

        def on_start(self, resume):
            # kept apart: on resume() the sender thread and the freshly
            # started print thread share the queued restore commands, so
            # the position of "start" among the "send" events is a race
            # (in both trees); the order of everything else is not
            self.starts.append(["h.start", repr(resume)])

        def on_end(self):
            self.events.append(["h.end"])

        def on_layerchange(self, layer):
            self.events.append(["h.layerchange", repr(layer)])
            if self.cfg.get("raise_on_layerchange"):
                raise Boom("on_layerchange")

        def on_preprintsend(self, gline, index, mainqueue):
            self.events.append(["h.preprintsend", raw_of(gline), repr(index),
                                len(mainqueue)])
            if self.cfg.get("raise_on_preprintsend"):
                raise Boom("on_preprintsend")

        def on_printsend(self, gline):
            self.events.append(["h.printsend", raw_of(gline)])
            if self.cfg.get("raise_on_printsend"):
                raise Boom("on_printsend")

        # plain callbacks
        def layerchangecb(self, layer):
            self.events.append(["cb.layerchange", repr(layer),
                                repr(self.p.queueindex)])
            if self.cfg.get("raise_in_layerchangecb"):
                raise Boom("layerchangecb")

        def preprintsendcb(self, gline, next_gline):
            self.events.append(["cb.preprintsend", raw_of(gline),
                                raw_of(next_gline)])
            mode = self.cfg.get("preprint_mode", "same")
            idx = self.p.queueindex
            if mode == "raise" and idx in self.cfg["preprint_idx"]:
                raise Boom("preprintsendcb")
            if mode == "none" and idx in self.cfg["preprint_idx"]:
                return None
            if mode == "replace" and idx in self.cfg["preprint_idx"]:
                return gcoder.Line(self.cfg["preprint_repl"])
            return gline

        def printsendcb(self, gline):
            self.printsend_count += 1
            self.events.append(["cb.printsend", raw_of(gline),
                                repr(self.p.lineno),
                                repr(self.p.queueindex)])
            inj = self.cfg.get("inject", {})
            todo = inj.get(self.printsend_count)
            if todo and self.injected < 6:
                self.injected += 1
                kind, cmd = todo
                if kind == "now":
                    self.p.send_now(cmd)
                else:
                    self.p.send(cmd)
            if self.cfg.get("raise_in_printsendcb"):
                raise Boom("printsendcb")

        def errorcb(self, error):
            if threading.current_thread().name == "read thread":
                self.rx.append(["cb.error", norm_error(error)])
            else:
                self.events.append(["cb.error", norm_error(error)])

        def sendcb(self, command, gline):
            if threading.current_thread().name == "read thread":
                return
            self.events.append(["cb.send", command])

        def startcb(self, resuming):
            self.starts.append(["cb.start", repr(resuming)])

        def endcb(self):
            self.events.append(["cb.end"])

        def tempcb(self, line):
            self.rx.append(["cb.temp", line])

    def install(p, rec, rng):
        p.addEventHandler(rec)
        p.errorcb = rec.errorcb
        if rng.random() < 0.7:
            p.layerchangecb = rec.layerchangecb
        if rng.random() < 0.6:
            p.preprintsendcb = rec.preprintsendcb
        if rng.random() < 0.8:
            p.printsendcb = rec.printsendcb
        if rng.random() < 0.5:
            p.sendcb = rec.sendcb
        if rng.random() < 0.5:
            p.startcb = rec.startcb
            p.endcb = rec.endcb
        p.tempcb = rec.tempcb

    # -- random jobs ----------------------------------------------------------

    def rnd_num(rng):
        return rng.choice(["0", "1", "10", "-3.5", "12.25", "0.001", "200",
                           "-0.0", "1", "7."])

    def rnd_line(rng, allow_pause):
        k = rng.random()
        if k < 0.30:
            return "G1 X%s Y%s E%s" % (rnd_num(rng), rnd_num(rng),
                                       rng.choice(["1", "2.5", "0.1", "10"]))
        if k < 0.40:
            return "G1 Z%s F%s" % (rng.choice(["0.2", "0.4", "0.6", "1",
                                                "5"]), rng.choice(
                                                    ["600", "1200"]))
        if k < 0.47:
            return "G0 X%s Y%s" % (rnd_num(rng), rnd_num(rng))
        if k < 0.53:
            return rng.choice(["; just a comment", "(bracket comment)",
                               ";", "( ) ; both", ";LAYER:1"])
        if k < 0.60:
            return rng.choice(["G1 X1 ; trailing", "G1 (mid) X2 Y3",
                               "M105 ;temp", "  G4 P0  ", "\tG21"])
        if k < 0.66:
            return rng.choice(["M105", "M114", "M400", "M82", "M83", "G90",
                               "G91", "G92 E0", "G28", "G28 X", "T0", "T1",
                               "G20", "G21", "M3", "M5"])
        if k < 0.70:
            return rng.choice(["M117 héllo wörld", "M117 a*b",
                               "M117 你好", "M110 N5", "N7 G1 X1",
                               "garbage !!", "G", "%"])
        if k < 0.74:
            if allow_pause:
                return rng.choice([";@pause", "  ;@pause now", ";@other",
                                   ";@"])
            return rng.choice([";@other", ";@", " ;@noop 1"])
        if k < 0.78:
            return rng.choice(["", "   ", "\n"])
        if k < 0.9:
            return "G1 X%s Y%s Z%s E%s" % (rnd_num(rng), rnd_num(rng),
                                           rng.choice(["0.2", "0.4", "1"]),
                                           rng.choice(["1", "3"]))
        return "G2 X%s Y%s I1 J-1 E1" % (rnd_num(rng), rnd_num(rng))

    def rnd_job(rng, allow_pause, maxlen=14):
        n = rng.choice([0, 1, 2, 3, 5, 8, maxlen])
        return [rnd_line(rng, allow_pause) for _ in range(n)]

    def make_queue(rng, lines):
        k = rng.random()
        if k < 0.6:
            return gcoder.GCode(lines)
        if k < 0.8:
            return gcoder.LightGCode(lines)
        # built the way gscrib's writer does: empty job + append
        g = gcoder.GCode([])
        for ln in lines:
            g.append(ln)
        return g

    def rnd_cfg(rng, qlen):
        cfg = {}
        for key, prob in (("raise_on_send", 0.08),
                          ("raise_on_layerchange", 0.15),
                          ("raise_on_preprintsend", 0.1),
                          ("raise_on_printsend", 0.1),
                          ("raise_in_layerchangecb", 0.15),
                          ("raise_in_printsendcb", 0.1)):
            cfg[key] = rng.random() < prob
        cfg["preprint_mode"] = rng.choice(["same", "same", "none", "replace",
                                           "replace", "raise"])
        cfg["preprint_idx"] = sorted(rng.sample(range(-1, qlen + 2),
                                                min(3, qlen + 3)))
        cfg["preprint_repl"] = rng.choice(["M400", "; gone", ";@other",
                                           "G1 X99 ; r", "", "G1 Z9 E1"])
        inj = {}
        for _ in range(rng.choice([0, 0, 1, 2])):
            inj[rng.randint(1, 6)] = (rng.choice(["now", "queue"]),
                                      rng.choice(["M105", "G1 X5 Y5",
                                                  "; c", "M114", "G4 P1"]))
        cfg["inject"] = inj
        return cfg

    # -- unit scenarios: _sendnext() called directly --------------------------

    class SyncDevice:
        def __init__(self, p, flow, fail):
            self.p = p
            self.has_flow_control = flow
            self.fail = fail          # set of write indices that fail
            self.count = 0
            self.written = []
            self.is_connected = True

        def write(self, data):
            i = self.count
            self.count += 1
            self.p.clear = True        # the firmware acknowledges at once
            if i in self.fail:
                self.written.append(["FAILED", data.decode("utf-8")])
                raise device_mod.DeviceError("boom %d" % i)
            self.written.append(data.decode("utf-8"))

        def disconnect(self):
            self.is_connected = False

    def unit_case(idx, rng):
        p = printcore()
        lines = rnd_job(rng, allow_pause=True, maxlen=9)
        qkind = rng.random()
        if qkind < 0.06:
            queue = None
        else:
            queue = make_queue(rng, lines)
        qlen = 0 if queue is None else len(queue)
        cfg = rnd_cfg(rng, qlen)
        rec = Recorder(p, cfg)
        install(p, rec, rng)

        flow = rng.random() < 0.2
        dev = SyncDevice(p, flow, set(rng.sample(range(6), rng.choice(
            [0, 0, 0, 1, 2]))))
        p.printer = dev if rng.random() < 0.93 else None
        p.tcp_streaming_mode = rng.random() < 0.3
        p._send_line_numbers = rng.random() < 0.85
        p.online = rng.random() < 0.9
        p.printing = rng.random() < 0.88
        p.paused = rng.random() < 0.15
        p.clear = rng.choice([True, True, True, False, 1, 0])
        p.mainqueue = queue
        p.queueindex = rng.choice([0, 0, 1, 2, qlen - 1, qlen, qlen + 1, -1,
                                   -2, rng.randint(0, max(qlen, 1))])
        p.lineno = rng.choice([0, 0, 1, 3, 5, 8])
        keys = [k for k in range(-1, p.lineno + 1) if rng.random() < 0.85]
        p.sentlines = {k: "N%d G1 X%d*%d" % (k, k, (k * 7) % 255)
                       for k in keys}
        p.resendfrom = rng.choice([-1, -1, -1, -2, 0, 1, p.lineno - 1,
                                   p.lineno, p.lineno + 1, 2])
        for _ in range(rng.choice([0, 0, 0, 1, 2])):
            p.priqueue.put_nowait(rng.choice(["M105", "G1 X1", "M114",
                                              "M117 é", ""]))

        entry = {"kind": "unit", "idx": idx, "job": lines,
                 "before": snapshot(p), "calls": []}
        for _call in range(rng.choice([1, 2, 3, 4, 6])):
            timer = None
            waited = False
            if p.printer and p.printing and not p.clear:
                # _sendnext() would block: release it from another thread
                waited = True
                timer = threading.Timer(0.01, setattr, (p, "clear", True))
                timer.start()
            try:
                ret = p._sendnext()
                outcome = ["ret", repr(ret)]
            except BaseException as e:      # noqa
                outcome = ["exc", type(e).__name__]
            if timer is not None:
                timer.join()
            entry["calls"].append({"waited": waited, "outcome": outcome,
                                   "after": snapshot(p),
                                   "nwritten": len(dev.written),
                                   "nevents": len(rec.events)})
        entry["written"] = dev.written
        entry["events"] = rec.events
        return entry

    # -- sender scenarios -----------------------------------------------------

    def sender_case(idx, rng):
        p = printcore()
        rec = Recorder(p, {})
        install(p, rec, rng)
        dev = SyncDevice(p, rng.random() < 0.2, set(rng.sample(range(6), rng.choice([0, 0, 1]))))
        p.printer = dev
        p.online = True
        cmds = [rng.choice(["M105", "G1 X1 Y2", "M114", "G28", "M117 é",
                            "G91", "G1 X1", ";c"])
                for _ in range(rng.randint(0, 6))]
        for c in cmds:
            p.priqueue.put_nowait(c)
        p.printing = rng.random() < 0.5
        p.clear = rng.choice([True, False]) if p.printing else rng.choice(
            [True, False, 0])
        blocked = bool(p.printing and not p.clear)
        p.stop_send_thread = False
        t = threading.Thread(target=p._sender, name="send thread")
        t.start()
        if blocked:
            time.sleep(0.03)
            before_release = len(dev.written)
            p.clear = True
        else:
            before_release = None
        deadline = time.time() + 10
        while dev.count < len(cmds) and time.time() < deadline:
            time.sleep(0.002)
        time.sleep(0.01)
        p.stop_send_thread = True
        t.join(10)
        return {"kind": "sender", "idx": idx, "cmds": cmds,
                "blocked": blocked, "before_release": before_release,
                "alive": t.is_alive(), "written": dev.written,
                "events": rec.events, "after": snapshot(p)}

    # -- streaming scenarios --------------------------------------------------

    NUMBERED = re.compile(r"^N(-?\d+) (.*)\*(\d+)$", re.S)

    def xor(text):
        c = 0
        for ch in text:
            c ^= ord(ch)
        return c

    class Firmware:
        """Fake serial device + firmware."""

        def __init__(self, rng, lockstep, corrupt, flow):
            self.rng = rng
            self.lat = random.Random(rng.random())
            self.lockstep = lockstep
            self.corrupt = set(corrupt)
            self.has_flow_control = flow
            self.force_dtr = None
            self.connected = False
            self.cond = threading.Condition()
            self.responses = deque()
            self.pending = []
            self.flush_timeouts = 0
            self.reader_idle = False
            self.written = []
            self.accepted = []
            self.unnumbered = []
            self.expected = 0
            self.tx = 0
            self.resend_style = rng.choice(
                ["Resend: %d", "Resend:%d", "rs %d", "resend %d",
                 "rs N%d Expected checksum 67", "Resend: N:%d",
                 "RESEND N%d"])
            self.noise = rng.random() < 0.4

        # device interface used by printcore
        def connect(self, port=None, baud=None):
            self.connected = True

        def disconnect(self):
            self.connected = False

        def reset(self):
            pass

        @property
        def is_connected(self):
            return self.connected

        def _ok(self):
            if self.noise and self.rng.random() < 0.15:
                return "ok T:200.0 /200.0 B:60.0 /60.0\n"
            return "ok\n"

        def _answer(self, line):
            out = []
            if self.noise and self.rng.random() < 0.1:
                out.append(self.rng.choice(["echo:busy: processing\n",
                                            "DEBUG_ something\n",
                                            "Error:Printer halted?\n",
                                            "T:199.5 /200.0\n", "\n"]))
            m = NUMBERED.match(line)
            if m is None:
                self.unnumbered.append(line)
                out.append(self._ok())
                return out
            n, cmd, cs = int(m.group(1)), m.group(2), int(m.group(3))
            good = xor("N%d %s" % (n, cmd)) == cs
            if "M110" in cmd and cmd.startswith("M110"):
                if good:
                    self.expected = n + 1
                    self.accepted.append(["M110", n])
                out.append(self._ok())
                return out
            t = self.tx
            self.tx += 1
            if t in self.corrupt or not good or n != self.expected:
                out.append((self.resend_style % self.expected) + "\n")
                if self.lockstep:
                    out.append(self._ok())
                return out
            self.accepted.append([n, cmd])
            self.expected += 1
            out.append(self._ok())
            return out

        def write(self, data):
            text = data.decode("utf-8")
            assert text.endswith("\n")
            line = text[:-1]
            on_reader = threading.current_thread().name == "read thread"
            with self.cond:
                self.written.append(line)
                answers = [r.encode("utf-8") for r in self._answer(line)]
                if self.lockstep and not on_reader:
                    # held back until the writing side next looks at the
                    # device (see __bool__)
                    self.pending.extend(answers)
                else:
                    self.responses.extend(answers)
                    self.cond.notify_all()

        def __bool__(self):
            # Lockstep delivery.  printcore tests the truth value of its
            # `printer` attribute at the top of _sendnext(), in the loop
            # that waits for the acknowledgement, at the start of _send()
            # and in the loop of the print thread -- i.e. only at points
            # where the previous transmission has been completely
            # accounted for (counters updated).  The answers to everything
            # written so far are handed to the read thread there, and the
            # caller blocks until the read thread has digested them.  That
            # makes a "Resend + ok" answer deterministic: it is one of the
            # possible latency patterns, free of the (pre-existing) races
            # between the read thread and the bookkeeping that follows a
            # write.
            if (self.lockstep and self.connected
                    and threading.current_thread().name != "read thread"):
                self.flush()
            return True

        def flush(self, timeout=10):
            deadline = time.time() + timeout
            with self.cond:
                if self.pending:
                    self.responses.extend(self.pending)
                    self.pending.clear()
                    self.cond.notify_all()
                while self.responses or not self.reader_idle:
                    self.cond.wait(0.05)
                    if time.time() > deadline:
                        self.flush_timeouts += 1
                        return False
            return True

        def readline(self):
            with self.cond:
                if not self.responses:
                    self.reader_idle = True
                    self.cond.notify_all()
                    self.cond.wait(0.02)
                if not self.responses:
                    return b""
                self.reader_idle = False
                item = self.responses.popleft()
            if not self.lockstep:
                # never zero: an answer must not overtake the bookkeeping
                # that follows the write it answers
                time.sleep(self.lat.choice([0.001, 0.001, 0.002, 0.004]))
            return item

        def wait_quiet(self, timeout=10):
            return self.flush(timeout)

    def wait_for(pred, timeout=20):
        deadline = time.time() + timeout
        while time.time() < deadline:
            if pred():
                return True
            time.sleep(0.002)
        return False

    def stream_case(idx, rng, lockstep):
        lines = rnd_job(rng, allow_pause=lockstep, maxlen=20)
        if lockstep and lines and rng.random() < 0.3:
            lines.insert(rng.randrange(len(lines) + 1), ";@pause")
        ntx = len(lines) + 12
        ncorrupt = rng.choice([0, 0, 1, 2, 3, 5, ntx // 2])
        corrupt = rng.sample(range(ntx), min(ncorrupt, ntx))
        if rng.random() < 0.3 and corrupt:
            # repeated corruption of a resent line
            c = corrupt[0]
            corrupt += [c + 1, c + 2]
        flow = rng.random() < 0.12
        fw = Firmware(rng, lockstep, corrupt, flow)

        p = printcore()
        queue = make_queue(rng, lines)
        cfg = rnd_cfg(rng, len(queue))
        if cfg["preprint_mode"] == "raise":
            cfg["preprint_mode"] = "same"      # would just kill the job
        if not lockstep:
            cfg["inject"] = {k: v for k, v in cfg["inject"].items()}
        rec = Recorder(p, cfg)
        install(p, rec, rng)
        p.tcp_streaming_mode = flow and lockstep and rng.random() < 0.5
        grbl = rng.random() < 0.1

        done = threading.Event()
        orig_print = p._print

        def wrapped_print(resuming=False):
            try:
                orig_print(resuming=resuming)
            finally:
                done.set()
        p._print = wrapped_print

        entry = {"kind": "stream", "lockstep": lockstep, "idx": idx,
                 "job": lines, "corrupt": sorted(corrupt), "flow": flow,
                 "style": fw.resend_style, "phases": []}

        saved = device_mod.Device
        device_mod.Device = lambda: fw
        try:
            p.connect("fakeport", 115200)
        finally:
            device_mod.Device = saved
        entry["online"] = wait_for(lambda: p.online, 10)
        fw.wait_quiet()
        if grbl:
            p._send_line_numbers = False

        # a couple of commands through the sender thread before the job
        pre = [rng.choice(["M105", "G90", "M114", "G21"])
               for _ in range(rng.choice([0, 0, 1, 3]))]
        base = len(fw.written)
        for c in pre:
            (p.send if rng.random() < 0.5 else p.send_now)(c)
        entry["pre_ok"] = wait_for(
            lambda: len(fw.written) >= base + len(pre), 10)
        fw.wait_quiet()

        startindex = rng.choice([0, 0, 0, 0, 1, 2, len(queue), -1,
                                 len(queue) + 3])
        done.clear()
        started = p.startprint(queue, startindex)
        entry["started"] = repr(started)
        if started and grbl:
            # without line numbers no M110 is sent by startprint(), so no
            # "ok" will ever arrive to release the print thread (which
            # cannot have done anything yet): acknowledge by hand
            p.clear = True
        resumes = 0
        if started:
            while True:
                finished = done.wait(30)
                fw.wait_quiet()
                wait_for(lambda: p.send_thread is not None
                         and p.print_thread is None, 5)
                entry["phases"].append({"finished": finished,
                                        "snap": snapshot(p),
                                        "nwritten": len(fw.written),
                                        "nevents": len(rec.events)})
                if finished and p.paused and lockstep and resumes < 3:
                    resumes += 1
                    done.clear()
                    p.resume()
                    continue
                break

        # and a command after the job
        base = len(fw.written)
        if p.printing:
            # the print thread died half way: do not queue anything more
            post = []
        else:
            post = ["M114"]
            p.send_now("M114")
        entry["post_ok"] = wait_for(
            lambda: len(fw.written) >= base + len(post), 10)
        fw.wait_quiet()
        if started and not done.is_set():
            # stuck job (not expected): stop it before disconnecting so
            # that disconnect() does not race with the dying print thread
            p.printing = False
            p.clear = True
            entry["forced_stop"] = done.wait(10)
        p.disconnect()
        entry["final"] = snapshot(p)
        entry["written"] = fw.written
        entry["accepted"] = fw.accepted
        entry["unnumbered"] = fw.unnumbered
        entry["flush_timeouts"] = fw.flush_timeouts
        entry["events"] = rec.events
        entry["rx"] = rec.rx
        entry["starts"] = rec.starts
        return entry

    # -- run ------------------------------------------------------------------

    debug = bool(os.environ.get("EQUIV_DEBUG"))

    def run(fn, i, case_rng, *args):
        t0 = time.time()
        entry = fn(i, case_rng, *args)
        if debug:
            sys.stderr.write("%s %s %d %.2fs\n" % (fn.__name__, args, i,
                                                   time.time() - t0))
            sys.stderr.flush()
        transcript.append(entry)

    rng = random.Random(SEED)
    for i in range(420):
        run(unit_case, i, random.Random(rng.random()))
    for i in range(40):
        run(sender_case, i, random.Random(rng.random()))
    for i in range(70):
        run(stream_case, i, random.Random(rng.random()), True)
    for i in range(50):
        run(stream_case, i, random.Random(rng.random()), False)

    header = {"gscrib": os.path.dirname(gscrib.__file__),
              "printcore": core_mod.__file__,
              "has_helpers": [hasattr(printcore, "_wait_until_clear"),
                              hasattr(printcore, "_starts_new_layer")]}
    json.dump({"header": header, "transcript": transcript}, sys.stdout)
    sys.stdout.flush()
    os._exit(0)


# ---------------------------------------------------------------------------
# parent
# ---------------------------------------------------------------------------

def first_difference(a, b, path="$"):
    if type(a) != type(b):
        return "%s: type %s != %s" % (path, type(a).__name__,
                                      type(b).__name__)
    if isinstance(a, dict):
        for k in sorted(set(a) | set(b)):
            if k not in a or k not in b:
                return "%s.%s: missing on one side" % (path, k)
            d = first_difference(a[k], b[k], "%s.%s" % (path, k))
            if d:
                return d
        return None
    if isinstance(a, list):
        for i, (x, y) in enumerate(zip(a, b)):
            d = first_difference(x, y, "%s[%d]" % (path, i))
            if d:
                return d
        if len(a) != len(b):
            return "%s: length %d != %d" % (path, len(a), len(b))
        return None
    if a != b:
        return "%s: %r != %r" % (path, a, b)
    return None


def stats(transcript):
    s = {"cases": len(transcript), "unit": 0, "sender": 0, "stream": 0,
         "forced_stop": sum(1 for e in transcript if "forced_stop" in e),
         "flush_timeouts": sum(e.get("flush_timeouts", 0)
                               for e in transcript),
         "unit_calls": 0, "unit_exc": {}, "written": 0, "resends": 0,
         "accepted": 0, "paused_phases": 0, "layer_events": 0,
         "not_finished": 0, "waited": 0}
    for e in transcript:
        s[e["kind"]] += 1
        s["written"] += len(e["written"])
        for ev in e["events"]:
            if ev[0] in ("h.layerchange", "cb.layerchange"):
                s["layer_events"] += 1
        if e["kind"] == "unit":
            for c in e["calls"]:
                s["unit_calls"] += 1
                s["waited"] += bool(c["waited"])
                if c["outcome"][0] == "exc":
                    n = c["outcome"][1]
                    s["unit_exc"][n] = s["unit_exc"].get(n, 0) + 1
        if e["kind"] == "stream":
            s["accepted"] += len(e["accepted"])
            s["resends"] += sum(1 for r in e["rx"] if r[0] == "h.recv"
                                and r[1].lower().startswith(("resend", "rs")))
            for ph in e["phases"]:
                if ph["snap"]["paused"] == "True":
                    s["paused_phases"] += 1
                if not ph["finished"]:
                    s["not_finished"] += 1
    return s


def main():
    procs = []
    for name, tree in TREES:
        env = dict(os.environ)
        env["PYTHONPATH"] = tree
        env["PYTHONDONTWRITEBYTECODE"] = "1"
        env["PYTHONHASHSEED"] = "0"
        procs.append((name, tree, subprocess.Popen(
            [sys.executable, os.path.abspath(__file__), "--worker"],
            env=env, cwd="/tmp", stdin=subprocess.DEVNULL,
            stdout=subprocess.PIPE, stderr=subprocess.PIPE)))
    results = {}
    for name, tree, proc in procs:
        try:
            out, err = proc.communicate(timeout=1500)
        except subprocess.TimeoutExpired:
            proc.kill()
            print("worker %s timed out" % name)
            return 2
        if proc.returncode != 0:
            print("worker %s failed (%s)\n%s" % (name, proc.returncode,
                                                  err.decode()[-3000:]))
            return 2
        data = json.loads(out.decode("utf-8"))
        if not data["header"]["gscrib"].startswith(tree + "/"):
            print("worker %s imported the wrong tree: %s"
                  % (name, data["header"]))
            return 2
        results[name] = data
        print("%-10s %s helpers=%s" % (name, data["header"]["printcore"],
                                       data["header"]["has_helpers"]))

    base = results["base"]["transcript"]
    new = results["refactored"]["transcript"]
    if results["base"]["header"]["has_helpers"] != [False, False] or \
            results["refactored"]["header"]["has_helpers"] != [True, True]:
        print("the two trees are not the expected ones")
        return 2
    print("stats:", json.dumps(stats(base), sort_keys=True))
    diff = first_difference(base, new)
    if diff:
        print("TRANSCRIPTS DIFFER:", diff)
        return 1
    assert base == new
    print("OK: %d scenarios, transcripts identical" % len(base))
    return 0


if __name__ == "__main__":
    if "--worker" in sys.argv:
        worker()
    else:
        sys.exit(main())
