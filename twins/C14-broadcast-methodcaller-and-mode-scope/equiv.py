#!/usr/bin/env python
"""Differential check for the C14 refactoring.

Runs the same seeded driver against /repo (reference) and /tmp/wtV-C14
(refactored) in two subprocesses and compares the JSON transcripts.
"""

import io
import json
import os
import random
import subprocess
import sys
import tempfile

REFERENCE = "/repo"
REFACTORED = "/tmp/wtV-C14"
SEED = 140314


# ----------------------------------------------------------------------
# Driver (runs inside each subprocess)
# ----------------------------------------------------------------------

def drive():
    import logging
    logging.disable(logging.CRITICAL)

    import gscrib
    from gscrib import GCodeCore, GCodeBuilder
    from gscrib.excepts import DeviceError, GCodeError
    from gscrib.formatters import DefaultFormatter
    from gscrib.writers import BaseWriter, FileWriter, ConsoleWriter

    assert os.path.dirname(os.path.dirname(gscrib.__file__)) == \
        os.environ["EXPECTED_ROOT"], gscrib.__file__

    rng = random.Random(SEED)
    log = []

    def rec(*items):
        log.append(repr(items))

    def attempt(label, func, *args, **kwargs):
        try:
            value = func(*args, **kwargs)
        except BaseException as e:  # pylint: disable=broad-except
            rec(label, "raise", type(e).__name__,
                type(e.__cause__).__name__ if e.__cause__ else None)
            return None
        rec(label, "return", repr(value) if value is None or isinstance(
            value, (str, bytes, int, float, tuple)) else type(value).__name__)
        return value

    # -- fakes ---------------------------------------------------------

    class Recorder(BaseWriter):
        def __init__(self, name):
            self.name = name
            self.events = []

        def connect(self):
            self.events.append(("connect",))
            return self

        def disconnect(self, wait=True):
            self.events.append(("disconnect", wait))

        def write(self, statement):
            self.events.append(("write", bytes(statement)))

        def flush(self):
            self.events.append(("flush",))

        def __repr__(self):
            return f"<Recorder {self.name}>"

    class Flaky(Recorder):
        """Fails with a given exception on the n-th call of an action."""

        def __init__(self, name, action, nth, exc):
            super().__init__(name)
            self.action, self.nth, self.exc = action, nth, exc
            self.count = 0

        def _maybe_fail(self, action):
            if action == self.action:
                self.count += 1
                if self.count == self.nth:
                    self.events.append(("fail", action))
                    raise self.exc("boom")

        def disconnect(self, wait=True):
            self._maybe_fail("disconnect")
            super().disconnect(wait)

        def write(self, statement):
            self._maybe_fail("write")
            super().write(statement)

        def flush(self):
            self._maybe_fail("flush")
            super().flush()

    class SelfRemoving(Recorder):
        """Removes itself from the builder while being disconnected/flushed."""

        def __init__(self, name, owner, on):
            super().__init__(name)
            self.owner, self.on = owner, on

        def disconnect(self, wait=True):
            super().disconnect(wait)
            if self.on == "disconnect":
                self.owner.remove_writer(self)

        def flush(self):
            super().flush()
            if self.on == "flush":
                self.owner.remove_writer(self)

    class NoBufferStream:
        """A text stream without a `buffer` attribute."""

        encoding = "utf-8"

        def __init__(self):
            self.chunks = []
            self.flushes = 0

        def write(self, text):
            self.chunks.append(text)

        def flush(self):
            self.flushes += 1

        def isatty(self):
            return False

    class BufferStream(NoBufferStream):
        def __init__(self):
            super().__init__()
            self.buffer = io.BytesIO()

    # -- part 1: formatter ----------------------------------------------

    line_endings = [
        "os", "\\n", "\\r\\n", "\n", "\r\n", "", " ", "OS", "os ", "\\t;\\n",
        "\\x", "\\", "\\u00e9\\n", "é", "\\N{BULLET}", "\\xe9", "\\400",
        "\ud800", "\\ud800", " ", "|\\n", 5, None, b"\\n", "\\U00110000",
        "\\x0", "\\0", "café\\n", "中\\n",
    ]
    statements = [
        "G1 X1", "G1 X1   ", "  G1", "", "   ", "\t\n", "; café 中文",
        "M117 \U0001f600 ", "G1 ", "G1\x0b", "a ", 7, None, b"G1",
        "G1 X1\r\n", "x" * 300 + " ",
    ]
    symbols = [";", "(", "[", "{", "<", '"', "'", "/*", "//", "#", " ; ", "((",
               "", "  ", "*/", ")", 3, None, ";;", " ( "]
    texts = [
        "hello", "", " ", "a\nb", "a\r\nb", "a\rb\n", "a\x0bb\x0cc", "a b",
        "a b\x85c", "close ) here", "] } > \" ' */", "*/*/", "((x))",
        "café 中文 \U0001f600", "{}", "{0} {x}", "\n", "\n\n", 5, None,
        "a)b)c\n)d", "tab\tstays", "\x1c\x1d\x1e",
    ]

    fmt = DefaultFormatter()

    for i in range(260):
        choice = rng.random()
        if choice < 0.35:
            value = rng.choice(line_endings)
            attempt(("set_line_endings", repr(value)), fmt.set_line_endings, value)
            rec("line_endings", fmt._line_endings)
        elif choice < 0.55:
            value = rng.choice(symbols)
            attempt(("set_comment_symbols", repr(value)), fmt.set_comment_symbols, value)
            rec("template", fmt._comment_template, fmt._comment_ending)
        elif choice < 0.8:
            value = rng.choice(texts)
            attempt(("comment", repr(value)), fmt.comment, value)
            if isinstance(value, str):
                attempt(("command", repr(value)), fmt.command, "G1", {"x": 1}, value)
        else:
            value = rng.choice(statements)
            attempt(("line", repr(value)), fmt.line, value)

    for ending in line_endings:
        fresh = DefaultFormatter()
        attempt(("fresh.set_line_endings", repr(ending)), fresh.set_line_endings, ending)
        rec("fresh.line_endings", fresh._line_endings)
        for statement in statements:
            attempt(("fresh.line", repr(statement)), fresh.line, statement)

    for symbol in symbols:
        fresh = DefaultFormatter()
        attempt(("fresh.symbols", repr(symbol)), fresh.set_comment_symbols, symbol)
        for text in texts:
            attempt(("fresh.comment", repr(symbol), repr(text)), fresh.comment, text)

    # -- part 2: console writer -------------------------------------------

    real_out, real_err = sys.stdout, sys.stderr

    for out_cls in (NoBufferStream, BufferStream):
        for err_cls in (NoBufferStream, BufferStream):
            for flag in (False, True, 0, 1, None, "", "x"):
                fake_out, fake_err = out_cls(), err_cls()
                sys.stdout, sys.stderr = fake_out, fake_err
                try:
                    try:
                        writer = ConsoleWriter() if flag == "x" else ConsoleWriter(flag)
                        outcome = ["ok"]
                        target = writer._output
                        outcome.append(
                            "out" if target is fake_out else
                            "out.buffer" if target is getattr(fake_out, "buffer", 0) else
                            "err" if target is fake_err else
                            "err.buffer" if target is getattr(fake_err, "buffer", 0) else
                            "other")
                        outcome.append(writer._file is None)
                        writer.write("café\n".encode("utf-8"))
                        outcome.append(writer._is_terminal)
                        writer.flush()
                        writer.disconnect()
                        outcome.append(writer._file is None)
                    except BaseException as e:  # pylint: disable=broad-except
                        outcome = ["raise", type(e).__name__]
                finally:
                    sys.stdout, sys.stderr = real_out, real_err
                rec("console", out_cls.__name__, err_cls.__name__, repr(flag), outcome,
                    fake_out.chunks, fake_out.flushes, fake_err.chunks, fake_err.flushes,
                    getattr(fake_out, "buffer", io.BytesIO()).getvalue(),
                    getattr(fake_err, "buffer", io.BytesIO()).getvalue())

    # -- part 3: builder histories ------------------------------------------

    tmp = tempfile.mkdtemp(prefix="c14-equiv-")
    comments = [t for t in texts if isinstance(t, str)]
    excs = [OSError, DeviceError, GCodeError, ValueError, KeyError, RuntimeError]

    def snapshot(g, pool):
        for name, (kind, writer, backing) in sorted(pool.items()):
            if kind == "path":
                try:
                    with open(backing, "rb") as f:
                        content = f.read()
                except OSError as e:
                    content = type(e).__name__
                rec("file", name, content, writer._file is None)
            elif kind in ("text", "bytes"):
                rec("file", name, backing.getvalue(), writer._file is None)
            elif kind == "textfile":
                backing.flush()
                with open(backing.name, "rb") as f:
                    rec("file", name, f.read(), writer._file is None)
            else:
                rec("recorder", name, list(writer.events))
        rec("writers", [repr(w) if isinstance(w, Recorder) else type(w).__name__
                        for w in g._writers],
            g.distance_mode.name, repr(g.position))

    class Boom(Exception):
        pass

    for history in range(70):
        cls = rng.choice([GCodeCore, GCodeBuilder])
        config = {}
        if rng.random() < 0.7:
            config["line_endings"] = rng.choice(
                ["os", "\\n", "\\r\\n", "\\r", ";\\n", "é\\n", "\n"])
        if rng.random() < 0.5:
            config["comment_symbols"] = rng.choice([";", "(", "[", "/*", "#", "'"])
        pool = {}
        if rng.random() < 0.5:
            path = os.path.join(tmp, f"h{history}", "sub", "config.gcode")
            config["output"] = path
        else:
            path = None
            config["output"] = None if rng.random() < 0.7 else io.StringIO()

        if rng.random() < 0.15:
            config["print_lines"] = True

        fake_out = BufferStream()
        sys.stdout = fake_out
        try:
            g = attempt(("construct", history, cls.__name__, sorted(
                (k, "StringIO" if isinstance(v, io.StringIO) else
                    "PATH" if k == "output" and v is not None else repr(v))
                for k, v in config.items())), cls, **config)
        finally:
            sys.stdout = real_out

        if g is None:
            continue

        if path is not None:
            pool["cfg"] = ("path", g.get_writer(len(g._writers) - 1), path)
        elif isinstance(config["output"], io.StringIO):
            pool["cfg"] = ("text", g.get_writer(len(g._writers) - 1), config["output"])

        counter = 0

        def new_writer():
            nonlocal counter
            counter += 1
            name = f"w{counter}"
            kind = rng.choice(["path", "text", "bytes", "textfile", "rec", "rec",
                               "flaky", "flaky", "selfrm"])
            if kind == "path":
                p = os.path.join(tmp, f"h{history}", f"{name}.gcode")
                pool[name] = (kind, FileWriter(p), p)
            elif kind == "text":
                b = io.StringIO(newline="")
                pool[name] = (kind, FileWriter(b), b)
            elif kind == "bytes":
                b = io.BytesIO()
                pool[name] = (kind, FileWriter(b), b)
            elif kind == "textfile":
                os.makedirs(os.path.join(tmp, f"h{history}"), exist_ok=True)
                p = os.path.join(tmp, f"h{history}", f"{name}.txt")
                f = open(p, "w", encoding="utf-8", newline="")
                pool[name] = (kind, FileWriter(f), f)
            elif kind == "rec":
                pool[name] = (kind, Recorder(name), None)
            elif kind == "flaky":
                w = Flaky(name, rng.choice(["write", "write", "flush", "disconnect"]),
                          rng.randint(1, 4), rng.choice(excs))
                pool[name] = (kind, w, None)
            else:
                w = SelfRemoving(name, g, rng.choice(["flush", "disconnect"]))
                pool[name] = (kind, w, None)
            return name

        def some_writer():
            if not pool or rng.random() < 0.1:
                return rng.choice([None, "nope", 3, object()])
            return pool[rng.choice(sorted(pool))][1]

        def scoped(method, fail, inner):
            with method():
                rec("in-scope", g.distance_mode.name)
                inner()
                if fail:
                    raise Boom()

        def inner_op():
            which = rng.random()
            if which < 0.4:
                g.move(x=rng.randint(-5, 5), comment=rng.choice(comments))
            elif which < 0.6:
                g.set_distance_mode(rng.choice(["absolute", "relative"]))
            elif which < 0.8:
                g.comment(rng.choice(comments))
            # else: nothing

        sys.stdout = fake_out
        try:
            for step in range(rng.randint(8, 28)):
                op = rng.random()
                label = ("h", history, step)
                if op < 0.14:
                    name = new_writer()
                    attempt(label + ("add_writer", name), g.add_writer, pool[name][1])
                elif op < 0.20:
                    w = some_writer()
                    attempt(label + ("add_writer-any", repr(w) if isinstance(w, Recorder)
                                     else type(w).__name__), g.add_writer, w)
                elif op < 0.28:
                    w = some_writer()
                    attempt(label + ("remove_writer", repr(w) if isinstance(w, Recorder)
                                     else type(w).__name__), g.remove_writer, w)
                elif op < 0.40:
                    attempt(label + ("comment",), g.comment, rng.choice(comments),
                            *rng.choice([(), (1,), ("é", 2.5), (None,)]))
                elif op < 0.50:
                    attempt(label + ("move",), g.move,
                            x=rng.choice([0, 1.5, -2, 1e-7, None]),
                            y=rng.choice([None, 3, float("nan"), float("inf")]),
                            comment=rng.choice(comments + [None]))
                elif op < 0.55:
                    attempt(label + ("rapid",), g.rapid, rng.choice(
                        [(1, 2, 3), (None, None, 1), [1, 2], "ab", None]))
                elif op < 0.62:
                    attempt(label + ("set_distance_mode",), g.set_distance_mode,
                            rng.choice(["absolute", "relative", "bogus", 5]))
                elif op < 0.72:
                    method = rng.choice([g.absolute_mode, g.relative_mode])
                    attempt(label + ("scope", method.__name__), scoped, method,
                            rng.random() < 0.3, inner_op)
                elif op < 0.78:
                    method = rng.choice([g.move_absolute, g.rapid_absolute])
                    attempt(label + (method.__name__,), method,
                            x=rng.randint(-9, 9), z=rng.choice([None, 0.25]))
                elif op < 0.84:
                    attempt(label + ("write",), g.write, rng.choice(
                        ["G4 P1", "M117 café  ", "", "  ", "a\nb", 5, None,
                         "\ud800"]))
                elif op < 0.88:
                    attempt(label + ("annotate",), g.annotate, rng.choice(
                        ["key", "bad key", "é", ""]), rng.choice(comments))
                elif op < 0.94:
                    attempt(label + ("flush",), g.flush)
                    snapshot(g, pool)
                elif op < 0.97:
                    wait = rng.choice([True, False, True, "x", None, 1])
                    attempt(label + ("teardown", repr(wait)), g.teardown, wait)
                    snapshot(g, pool)
                else:
                    attempt(label + ("get_writer",), g.get_writer,
                            rng.choice([0, 1, -1, 7, "0", None]))
                    attempt(label + ("absolute_mode-arg",), g.absolute_mode, 1)

            snapshot(g, pool)
            final = rng.random()
            if final < 0.5:
                attempt(("h", history, "final-teardown"), g.teardown)
            elif final < 0.75:
                attempt(("h", history, "final-exit"), g.__exit__, None, None, None)
            else:
                attempt(("h", history, "final-flush"), g.flush)
            snapshot(g, pool)
            attempt(("h", history, "again-teardown"), g.teardown, False)
            snapshot(g, pool)
        finally:
            sys.stdout = real_out
            for kind, writer, backing in pool.values():
                if kind == "textfile" and not backing.closed:
                    backing.close()

        rec("stdout", history, fake_out.buffer.getvalue(), fake_out.chunks)

    # The refactoring must not have changed the public surface
    rec("api", sorted(n for n in dir(GCodeCore) if not n.startswith("_")),
        sorted(n for n in dir(ConsoleWriter) if not n.startswith("_")),
        sorted(n for n in dir(DefaultFormatter) if not n.startswith("_")))

    json.dump(log, sys.stdout)


# ----------------------------------------------------------------------
# Comparison (parent process)
# ----------------------------------------------------------------------

def run(root):
    env = dict(os.environ)
    env["PYTHONPATH"] = root
    env["EXPECTED_ROOT"] = root
    env["PYTHONHASHSEED"] = "0"
    env["PYTHONDONTWRITEBYTECODE"] = "1"
    proc = subprocess.run(
        [sys.executable, os.path.abspath(__file__), "--drive"],
        env=env, stdin=subprocess.DEVNULL, stdout=subprocess.PIPE,
        stderr=subprocess.PIPE, timeout=600, cwd=tempfile.gettempdir())
    if proc.returncode != 0:
        sys.stderr.write(proc.stderr.decode("utf-8", "replace"))
        raise SystemExit(f"driver failed for {root}")
    return json.loads(proc.stdout.decode("utf-8"))


def main():
    reference = run(REFERENCE)
    refactored = run(REFACTORED)

    # tmp dirs differ between runs; they never enter the transcript
    for index, (a, b) in enumerate(zip(reference, refactored)):
        assert a == b, f"transcripts differ at entry {index}:\n  {a}\n  {b}"

    assert len(reference) == len(refactored), (len(reference), len(refactored))
    raises = sum(1 for e in reference if "'raise'" in e)
    print(f"OK: {len(reference)} transcript entries identical ({raises} raised)")


if __name__ == "__main__":
    if "--drive" in sys.argv:
        drive()
    else:
        main()
