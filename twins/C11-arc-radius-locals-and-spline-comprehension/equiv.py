#!/usr/bin/env python
"""Differential check for the C11 twin refactoring (gscrib/geometry/tracer.py).

Runs the same seeded scenario in two subprocesses, one importing the
pristine tree (/repo) and one importing the refactored tree
(/tmp/wtU-C11), and asserts that the two transcripts are identical.

Refactored functions: PathTracer.arc_radius, PathTracer.spline and
PathTracer._filter_segments.  Everything observable is recorded: bytes
handed to a registered writer, exact (hex) positions, state properties,
distance mode, arguments forwarded to arc()/parametric(), return values,
exception type names and warning categories.
"""

import json
import os
import subprocess
import sys

TREES = {"orig": "/repo", "twin": "/tmp/wtU-C11"}
PYTHON = "/venv/bin/python"
SEED = 20261004


# ---------------------------------------------------------------------------
# Child: builds the transcript with whatever gscrib is on PYTHONPATH
# ---------------------------------------------------------------------------

def child():
    import logging
    import math
    import random
    import time
    import warnings

    import numpy as np
    import gscrib
    from gscrib import GCodeBuilder
    from gscrib.geometry import Point
    from gscrib.writers import BaseWriter

    expected_root = os.environ["EXPECT_ROOT"]
    assert os.path.realpath(gscrib.__file__).startswith(
        os.path.realpath(expected_root) + os.sep), gscrib.__file__

    # Log records and warnings raised while preparing a case are noise
    # on stderr; warnings raised by the calls under test are recorded.
    logging.disable(logging.CRITICAL)
    warnings.simplefilter("ignore")

    rng = random.Random(SEED)
    transcript = []
    clock = [time.time()]

    class MemoryWriter(BaseWriter):
        """In-process fake device: keeps every line it is given."""

        def __init__(self, fail_after=None):
            self.lines = []
            self.fail_after = fail_after

        def connect(self):
            return self

        def disconnect(self, wait=True):
            pass

        def write(self, statement):
            if self.fail_after is not None and len(self.lines) >= self.fail_after:
                raise OSError("fake device failure")
            self.lines.append(statement)

    def hx(value):
        """Exact, type-aware rendering of a value."""
        if value is None or isinstance(value, (str, bool)):
            return repr(value)
        if isinstance(value, (float, np.floating)):
            return "%s:%s" % (type(value).__name__, float(value).hex())
        if isinstance(value, (int, np.integer)):
            return "%s:%d" % (type(value).__name__, int(value))
        if isinstance(value, np.ndarray):
            return ["ndarray", str(value.dtype), list(value.shape),
                    [hx(v) for v in value.ravel().tolist()]]
        if isinstance(value, (tuple, list)):
            return [type(value).__name__] + [hx(v) for v in value]
        return "%s:%r" % (type(value).__name__, value)

    def snapshot(g, writer):
        state = g.state
        return {
            "lines": [l.decode("utf-8", "replace") for l in writer.lines],
            "position": hx(tuple(g.position)),
            "state_position": hx(tuple(state.position)),
            "distance_mode": str(g.distance_mode),
            "state_distance_mode": str(state.distance_mode),
            "direction": str(state.direction),
            "resolution": hx(state.resolution),
            "feed_rate": hx(state.feed_rate),
            "params": sorted((k, hx(v)) for k, v in g._current_params.items()),
        }

    def record(label, g, writer, fn):
        """Run fn, record outcome + everything observable afterwards."""
        entry = {"label": label}
        with warnings.catch_warnings(record=True) as caught:
            warnings.simplefilter("always")
            try:
                entry["result"] = hx(fn())
            except BaseException as e:  # noqa: BLE001 - type is the datum
                entry["exception"] = type(e).__name__
            entry["warnings"] = [w.category.__name__ for w in caught]
        if g is not None:
            entry.update(snapshot(g, writer))
        transcript.append(entry)
        if os.environ.get("EQUIV_TIMING"):
            now = time.time()
            if now - clock[0] > 1.0:
                sys.stderr.write("%s took %.1fs\n" % (label, now - clock[0]))
            clock[0] = now
        return entry

    def spy(g, log):
        """Record what the refactored functions hand to the next stage."""
        tracer = g.trace
        real_arc, real_parametric = tracer.arc, tracer.parametric
        probe = np.array([0.0, 0.013, 0.25, 1 / 3, 0.5, 0.77, 1.0])

        def arc(target, center, **kwargs):
            log.append(["arc", hx(tuple(target)), hx(tuple(center)),
                        sorted(kwargs)])
            return real_arc(target, center, **kwargs)

        def parametric(function, length, **kwargs):
            log.append(["parametric", hx(function(probe)), hx(length),
                        sorted(kwargs)])
            return real_parametric(function, length, **kwargs)

        tracer.arc = arc
        tracer.parametric = parametric

    def new_builder(fail_after=None, **config):
        g = GCodeBuilder(**config)
        writer = MemoryWriter(fail_after)
        g.add_writer(writer)
        return g, writer

    SPECIAL = [0, 0.0, -0.0, 1, -1, 1e-9, 1e-3, 0.01, 1e6, 1e12, 1e300,
               float("nan"), float("inf"), float("-inf")]

    # Values fed to the tracer entry points: the path length divided by
    # the resolution must stay small enough for the run to finish
    SPECIAL_PATH = [0, 0.0, -0.0, 1, -1, 1e-9, 1e-3, 0.01, 1e300,
                    float("nan"), float("inf"), float("-inf")]

    def coord(allow_none=True, special=0.12):
        r = rng.random()
        if allow_none and r < 0.08:
            return None
        if r < 0.08 + special:
            return rng.choice(SPECIAL_PATH)
        if r < 0.35:
            return rng.randint(-20, 20)
        if r < 0.45:
            return np.float64(rng.uniform(-30, 30))
        return round(rng.uniform(-50, 50), rng.choice([0, 1, 3, 9]))

    def pointlike(special=0.12):
        n = rng.choice([2, 2, 3, 3, 3, 3, 1, 0, 4])
        values = [coord(special=special) for _ in range(n)]
        kind = rng.random()
        if kind < 0.15 and len(values) <= 3:
            return Point(*values)
        if kind < 0.30:
            return tuple(values)
        if kind < 0.40 and all(v is not None for v in values):
            return np.array(values, dtype=float)
        return values

    def prepare(g, special=0.05):
        """Random starting condition: position, mode, direction, etc."""
        steps = []
        if rng.random() < 0.85:
            x, y, z = (coord(special=special) for _ in range(3))
            steps.append(("move", (x, y, z)))
            try:
                g.move(x=x, y=y, z=z)
            except Exception as e:  # noqa: BLE001
                steps.append(type(e).__name__)
        if rng.random() < 0.5:
            g.set_distance_mode("relative")
        if rng.random() < 0.5:
            g.set_direction("ccw")
        if rng.random() < 0.5:
            g.set_resolution(rng.choice([0.1, 0.5, 1.0, 2.5, 7, 100.0]))
        if rng.random() < 0.25:
            g.transform.rotate(rng.choice([30, 45, 90, 180]), rng.choice("xyz"))
        if rng.random() < 0.25:
            g.transform.scale(rng.choice([0.5, 2, 3]))
        if rng.random() < 0.2:
            g.transform.translate(rng.randint(-5, 5), rng.randint(-5, 5), 1)
        if rng.random() < 0.15:
            lo, hi = sorted([rng.uniform(-40, 0), rng.uniform(0, 40)])
            g.set_bounds("axes", (lo, lo, lo), (hi, hi, hi))
        return steps

    # ---------------------------------------------------------------- (1)
    # _filter_segments called directly on arbitrary arrays

    g, writer = new_builder()
    for n in range(260):
        resolution = rng.choice([0.01, 0.1, 0.5, 1.0, 3.0, 50.0])
        g.set_resolution(resolution)
        kind = rng.random()
        rows = rng.choice([0, 1, 2, 3, 4, 7, 25, 120])
        if kind < 0.45:      # a smooth-ish curve, like the tracer feeds it
            t = np.linspace(0, 1, rows + 1)[1:]
            scale = rng.choice([0.01, 1, 10, 300])
            points = np.column_stack((
                scale * np.cos(7 * t), scale * np.sin(5 * t), scale * t))
        elif kind < 0.75:    # random steps of very different sizes
            steps = np.array([[rng.choice([0, 1e-6, 0.01, 0.09, 0.1, 0.11,
                                           0.5, 1.0, 10.0]) * rng.choice([-1, 1])
                               for _ in range(3)] for _ in range(rows)])
            points = np.cumsum(steps, axis=0) if rows else np.zeros((0, 3))
        elif kind < 0.85:    # non finite values
            points = np.array([[rng.choice(SPECIAL) for _ in range(3)]
                               for _ in range(rows)], dtype=float).reshape(rows, 3)
        elif kind < 0.90:    # two columns
            points = np.array([[rng.uniform(-5, 5) for _ in range(2)]
                               for _ in range(rows)]).reshape(rows, 2)
        elif kind < 0.94:    # one dimensional
            points = np.array([rng.uniform(-5, 5) for _ in range(rows)])
        elif kind < 0.97:    # three dimensional
            depth = rng.choice([1, 2])
            points = np.array([[[rng.uniform(-5, 5)] * depth] * 3
                               for _ in range(rows)]).reshape(rows, 3, depth)
        else:                # integer dtype
            points = np.array([[rng.randint(-3, 3) for _ in range(3)]
                               for _ in range(rows)]).reshape(rows, 3)
        before = points.copy()
        entry = record("filter-%d" % n, None, None,
                       lambda: g.trace._filter_segments(points))
        entry["input_untouched"] = bool(
            np.array_equal(before, points, equal_nan=True)
            if points.dtype.kind == "f" else np.array_equal(before, points))

    # ---------------------------------------------------------------- (2)
    # arc_radius

    RADII = [0, 0.0, -0.0, 1, -1, 5, 10.0, -10.0, 25.5, -25.5, 1e-3, 300,
             float("nan"), float("inf"), float("-inf"), np.float64(12.5),
             True, "10", None, [10]]

    for n in range(330):
        fail_after = rng.choice([None] * 6 + [3, 8])
        g, writer = new_builder(fail_after)
        log = []
        setup = prepare(g)
        spy(g, log)
        mode = rng.random()
        if mode < 0.55:
            # a radius derived from the actual chord: on, just under,
            # just over the snapping margin, and comfortably valid
            target = [rng.uniform(-30, 30) for _ in range(rng.choice([2, 3]))]
            try:
                o = g.position.resolve()
                t = g.to_absolute(target)
                half = math.hypot(t.x - o.x, t.y - o.y) / 2
            except Exception:  # noqa: BLE001
                half = 1.0
            if not math.isfinite(half):
                half = 1.0
            delta = rng.choice([0, 0, 0.005, 0.01, 0.0100001, 0.00999,
                                0.011, 0.02, 1.0, -0.5, -5, -half, -1e-12])
            radius = (half - delta) * rng.choice([1, -1])
        elif mode < 0.65:
            target = [0, 0] if not g.distance_mode.is_relative else [0.0, 0.0, 0]
            if rng.random() < 0.5:      # coincident with the start point
                target = (list(g.position.resolve())[:rng.choice([2, 3])]
                          if not g.distance_mode.is_relative else target)
            radius = rng.choice([0, 0.0, 0.005, 0.01, 0.02, -0.004, 3, -3])
        else:
            target = pointlike()
            radius = rng.choice(RADII)
        kwargs = rng.choice([{}, {}, {"F": 1200}, {"comment": "arc"},
                             {"F": -1}, {"e": 0.5, "S": 100}])
        entry = record("arc_radius-%d" % n, g, writer,
                       lambda: g.trace.arc_radius(target, radius, **kwargs))
        entry["setup"] = hx(setup)
        entry["forwarded"] = log

    # degenerate chord with warnings turned into errors
    for n, radius in enumerate([0, 0.0, 0.004, -0.004, 1.0]):
        g, writer = new_builder()
        g.move(x=3, y=4, z=5)

        def strict():
            with warnings.catch_warnings():
                warnings.simplefilter("error")
                return g.trace.arc_radius((3, 4), radius)

        record("arc_radius-strict-%d" % n, g, writer, strict)

    # ---------------------------------------------------------------- (3)
    # spline

    for n in range(260):
        fail_after = rng.choice([None] * 6 + [2, 5])
        g, writer = new_builder(fail_after)
        log = []
        setup = prepare(g)
        spy(g, log)
        count = rng.choice([0, 1, 1, 2, 3, 4, 6, 12])
        special = rng.choice([0, 0, 0, 0.1])
        targets = []
        for _ in range(count):
            r = rng.random()
            if targets and r < 0.2:
                targets.append(targets[-1])             # duplicate
            elif r < 0.3:                               # "stay here"
                targets.append((0, 0, 0) if g.distance_mode.is_relative
                               else tuple(g.position.resolve()))
            elif r < 0.36:
                targets.append((None, None, None))
            else:
                targets.append(pointlike(special=special))
        if rng.random() < 0.1:
            targets = tuple(targets)
        if rng.random() < 0.03:
            targets = "not points"
        kwargs = rng.choice([{}, {}, {"F": 900}, {"comment": "s"}, {"F": -1}])
        entry = record("spline-%d" % n, g, writer,
                       lambda: g.trace.spline(targets, **kwargs))
        entry["setup"] = hx(setup)
        entry["forwarded"] = log

    # large integers mixed with floats (control point de-duplication and
    # the conversion of the control coordinates to arrays)
    big = 2 ** 53
    for n, targets in enumerate([
        [(big + 1, 0, 0), (np.float64(big), 0, 0), (float(big), 0, 0)],
        [(big, 1, 0), (big + 1, 1, 0), (big + 2, 2, 0)],
        [(10 ** 30, 0, 0), (1, 1, 1)],
        [(1, 2), (1.0, 2.0, 0), (np.float64(1), 2, -0.0), (2, 2)],
    ]):
        g, writer = new_builder()
        log = []
        spy(g, log)
        entry = record("spline-big-%d" % n, g, writer,
                       lambda: g.trace.spline(targets))
        entry["forwarded"] = log

    # ---------------------------------------------------------------- (4)
    # the same logical toolpath in absolute and in relative mode, through
    # every tracer shape (all of them go through _filter_segments)

    def toolpath(g, relative, waypoints, shapes):
        here = [0.0, 0.0, 0.0]

        def arg(p):
            out = ([p[i] - here[i] for i in range(len(p))] if relative
                   else list(p))
            for i in range(len(p)):
                here[i] = p[i]
            return out

        g.move(x=0, y=0, z=0)
        if relative:
            g.set_distance_mode("relative")
        for p, shape in zip(waypoints, shapes):
            if shape == "move":
                g.move(arg(p))
            elif shape == "rapid":
                g.rapid(arg(p))
            elif shape == "move_absolute":
                g.move_absolute(p)
                here[:] = p
            elif shape == "arc_radius":
                q = arg(p)
                d = math.hypot(p[0] - g.position.x, p[1] - g.position.y)
                g.trace.arc_radius(q, (d / 2 + 1.5) * (1 if p[2] > 0 else -1))
            elif shape == "arc_radius_min":
                q = arg(p)
                d = math.hypot(p[0] - g.position.x, p[1] - g.position.y)
                g.trace.arc_radius(q, d / 2 - 0.004)
            elif shape == "spline":
                mid = [(p[i] + here[i]) / 2 + 1.25 for i in range(3)]
                g.trace.spline([arg(mid), arg(p)])
            elif shape == "polyline":
                mid = [(p[i] + here[i]) / 2 - 2 for i in range(3)]
                g.trace.polyline([arg(mid), arg(p)])
            elif shape == "helix":
                g.trace.helix(arg(p), (1.5, -2.0), turns=2)
            elif shape == "spiral":
                g.trace.spiral(arg(p), turns=2)
            elif shape == "thread":
                g.trace.thread(arg(p), pitch=1.5)
            elif shape == "circle":
                g.trace.circle((2.0, 1.0))
            elif shape == "arc":
                c = (3.0, -1.0)
                ox, oy = g.position.x, g.position.y
                r = math.hypot(c[0], c[1])
                ang = math.atan2(p[1], p[0])
                end = [ox + c[0] + r * math.cos(ang),
                       oy + c[1] + r * math.sin(ang), p[2]]
                g.trace.arc(arg(end), c)
            elif shape == "context":
                with (g.absolute_mode() if relative else g.relative_mode()):
                    if relative:
                        g.trace.arc_radius(p, 60.0)
                    else:
                        g.trace.arc_radius(
                            [p[i] - here[i] for i in range(3)], 60.0)
                here[:] = p

    SHAPES = ["move", "rapid", "move_absolute", "arc_radius",
              "arc_radius_min", "spline", "polyline", "helix", "spiral",
              "thread", "circle", "arc", "context"]

    for n in range(40):
        count = rng.randint(3, 9)
        waypoints = [[round(rng.uniform(-25, 25), 3) for _ in range(3)]
                     for _ in range(count)]
        shapes = [rng.choice(SHAPES) for _ in range(count)]
        direction = rng.choice(["cw", "ccw"])
        resolution = rng.choice([0.2, 0.5, 1.0])
        for relative in (False, True):
            g, writer = new_builder()
            g.set_direction(direction)
            g.set_resolution(resolution)
            entry = record("toolpath-%d-%s" % (n, "rel" if relative else "abs"),
                           g, writer,
                           lambda: toolpath(g, relative, waypoints, shapes))
            entry["shapes"] = shapes

    json.dump(transcript, sys.stdout)


# ---------------------------------------------------------------------------
# Parent: runs both trees and compares
# ---------------------------------------------------------------------------

def run(tree):
    env = dict(os.environ)
    env["PYTHONPATH"] = TREES[tree]
    env["EXPECT_ROOT"] = TREES[tree]
    env["PYTHONHASHSEED"] = "0"
    env["PYTHONDONTWRITEBYTECODE"] = "1"
    proc = subprocess.run(
        [PYTHON, os.path.abspath(__file__), "child"],
        env=env, cwd="/tmp", stdin=subprocess.DEVNULL,
        stdout=subprocess.PIPE, stderr=subprocess.PIPE, timeout=1500)
    if proc.returncode != 0:
        sys.stderr.write(proc.stderr.decode()[-4000:])
        raise SystemExit("child for %s failed (%d)" % (tree, proc.returncode))
    return json.loads(proc.stdout)


def main():
    from concurrent.futures import ThreadPoolExecutor

    with ThreadPoolExecutor(2) as pool:
        orig, twin = pool.map(run, ["orig", "twin"])
    assert len(orig) == len(twin), (len(orig), len(twin))
    mismatches = []
    for a, b in zip(orig, twin):
        if a != b:
            keys = [k for k in set(a) | set(b) if a.get(k) != b.get(k)]
            mismatches.append((a["label"], keys))
    stats = {}
    for e in orig:
        kind = e["label"].rsplit("-", 1)[0].split("-")[0]
        s = stats.setdefault(kind, {"n": 0, "exc": {}, "lines": 0, "warn": 0})
        s["n"] += 1
        s["lines"] += len(e.get("lines", []))
        s["warn"] += len(e.get("warnings", []))
        if "exception" in e:
            s["exc"][e["exception"]] = s["exc"].get(e["exception"], 0) + 1
    for kind, s in sorted(stats.items()):
        print("%-12s cases=%-4d emitted_lines=%-7d warnings=%-4d exceptions=%s"
              % (kind, s["n"], s["lines"], s["warn"], s["exc"]))
    if mismatches:
        for label, keys in mismatches[:20]:
            print("MISMATCH", label, keys)
        raise SystemExit("%d of %d cases differ" % (len(mismatches), len(orig)))
    print("OK: %d cases, transcripts identical" % len(orig))


if __name__ == "__main__":
    if len(sys.argv) > 1 and sys.argv[1] == "child":
        child()
    else:
        main()
