#!/usr/bin/env python
"""Differential check for the C05 twin refactoring.

Runs the same seeded scenario against the pristine tree (/repo) and the
refactored tree (/tmp/wtU-C05), each in its own subprocess, and asserts
that the two transcripts are byte-identical.

The refactoring under test touches:
  - GState._set_spin_mode / GState._set_power_mode (new helper _switch_tool)
  - BoundManager.validate

Usage:  /venv/bin/python /tmp/twin2-C05/equiv.py
"""

import json
import os
import subprocess
import sys

TREES = {"orig": "/repo", "twin": "/tmp/wtU-C05"}
SEEDS = (5, 505, 50505)


# ----------------------------------------------------------------------
# Child: drive one tree and print a JSON transcript
# ----------------------------------------------------------------------

def child(seed: int) -> None:
    import math
    import random
    import logging

    import numpy as np
    import gscrib
    from gscrib import GCodeBuilder
    from gscrib.gcode_state import GState
    from gscrib.geometry.bounds import BoundManager
    from gscrib.geometry.point import Point
    from gscrib.writers import BaseWriter
    from gscrib.enums import (
        SpinMode, PowerMode, CoolantMode, HaltMode, ToolSwapMode,
        DistanceMode, ProbingMode,
    )

    logging.disable(logging.CRITICAL)
    rng = random.Random(seed)
    out = []

    tree = os.path.dirname(os.path.dirname(os.path.abspath(gscrib.__file__)))
    assert tree == os.environ["EXPECTED_TREE"], (tree, os.environ["EXPECTED_TREE"])

    class Recorder(BaseWriter):
        """In-process fake device: remembers every chunk of bytes."""

        def __init__(self):
            self.lines = []

        def connect(self):
            return self

        def disconnect(self, wait=True):
            pass

        def write(self, statement):
            self.lines.append(statement.decode("utf-8", "backslashreplace"))

    def show(value):
        return f"{type(value).__name__}:{value!r}"

    def outcome(func, *args, **kwargs):
        try:
            result = func(*args, **kwargs)
            return ["ok", show(result)]
        except BaseException as e:  # pylint: disable=broad-except
            return ["raise", type(e).__name__, str(e)]

    STATE_PROPS = (
        "position", "is_coolant_active", "is_tool_active", "tool_number",
        "tool_power", "feed_rate", "spin_mode", "power_mode",
        "coolant_mode", "distance_mode", "extrusion_mode", "feed_mode",
        "tool_swap_mode", "halt_mode", "length_units", "time_units",
        "temperature_units", "plane", "direction", "resolution",
        "target_hotend_temperature", "target_bed_temperature",
        "target_chamber_temperature",
    )

    BOUND_NAMES = (
        "axes", "bed-temperature", "chamber-temperature",
        "hotend-temperature", "feed-rate", "tool-number", "tool-power",
    )

    def state_snapshot(state):
        snap = {name: show(getattr(state, name)) for name in STATE_PROPS}
        snap["params"] = show(dict(state._current_params))
        snap["bounds"] = [show(state.get_bounds(n)) for n in BOUND_NAMES]
        return snap

    def snapshot(g):
        snap = state_snapshot(g.state)
        snap["g.position"] = show(g.position)
        snap["g.distance_mode"] = show(g.distance_mode)
        snap["g.F"] = show(g.get_parameter("F"))
        snap["g.S"] = show(g.get_parameter("S"))
        snap["g.params"] = show(dict(g._current_params))
        return snap

    # ---- value pools -------------------------------------------------

    NUMBERS = [
        0, 1, 2, 5, 10, 100, 1000, 12000, 255, 256, -1, -5, -0.0, 0.0,
        0.5, 1.5, 99.999, 100.0, 100.00001, 1e-9, 1e9, -1e-9,
        float("nan"), float("inf"), float("-inf"),
        True, False,
        np.float64(50.0), np.float64(-3.0), np.float64("nan"),
        np.float32(7.5), np.int64(20), np.int32(-2),
    ]

    JUNK = [None, "100", "", "abc", [1], (1, 2), {"a": 1}, 1 + 2j, b"5"]

    def number():
        r = rng.random()
        if r < 0.70:
            return rng.choice(NUMBERS)
        if r < 0.85:
            return round(rng.uniform(-50, 300), rng.choice((0, 1, 3)))
        if r < 0.92:
            return rng.randint(-5, 400)
        return rng.choice(JUNK)

    def coord():
        r = rng.random()
        if r < 0.15:
            return None
        if r < 0.8:
            return round(rng.uniform(-60, 60), rng.choice((0, 2)))
        return rng.choice(NUMBERS + JUNK[:3])

    SPIN = [SpinMode.CLOCKWISE, SpinMode.COUNTER, SpinMode.OFF,
            "clockwise", "counter", "off", "cw", "ccw", "bogus", None, 3]
    POWER = [PowerMode.CONSTANT, PowerMode.DYNAMIC, PowerMode.OFF,
             "constant", "dynamic", "off", "bogus", None, 1.5]
    COOLANT = [CoolantMode.MIST, CoolantMode.FLOOD, CoolantMode.OFF,
               "mist", "flood", "off", "bogus", None]
    HALT = list(HaltMode) + ["pause", "wait-for-bed", "off", "bogus", None]
    SWAP = [ToolSwapMode.MANUAL, ToolSwapMode.AUTOMATIC, ToolSwapMode.OFF,
            "manual", "automatic", "off", "bogus"]
    PROBE = list(ProbingMode) + ["bogus"]
    DIST = [DistanceMode.ABSOLUTE, DistanceMode.RELATIVE,
            "absolute", "relative", "bogus"]

    def move_kwargs():
        kw = {}
        for axis in ("x", "y", "z"):
            if rng.random() < 0.6:
                kw[axis] = coord()
        if rng.random() < 0.5:
            kw[rng.choice(("F", "f"))] = number()
        if rng.random() < 0.4:
            kw[rng.choice(("S", "s"))] = number()
        if rng.random() < 0.15:
            kw["E"] = number()
        if rng.random() < 0.1:
            kw["comment"] = rng.choice(("hello", "", "a;b"))
        return kw

    def halt_kwargs():
        kw = {}
        if rng.random() < 0.5:
            kw[rng.choice(("S", "s"))] = number()
        if rng.random() < 0.4:
            kw[rng.choice(("R", "r"))] = number()
        if rng.random() < 0.1:
            kw["P"] = number()
        return kw

    def random_bounds(name):
        if name == "axes":
            if rng.random() < 0.8:
                lo = tuple(rng.choice((-50, -10, 0, -1e3)) for _ in range(3))
                hi = tuple(rng.choice((10, 50, 100, 1e3)) for _ in range(3))
            else:
                lo = rng.choice(((0, 0, 0), (5, 5), (None, 0, 0), 3, "abc",
                                 (10, 10, 10), (float("nan"), 0, 0)))
                hi = rng.choice(((0, 0, 0), (1, 1, 1), (None, 5, 5), None,
                                 (20, 20, 20)))
            return lo, hi
        if rng.random() < 0.8:
            lo = rng.choice((0, 1, 10, 50, -10, 0.5))
            hi = rng.choice((100, 200, 255, 1000, 60, 12000))
            return lo, hi
        return number(), number()

    # ---- builder level commands --------------------------------------

    def cmd_tool_on(g):
        return ("tool_on", g.tool_on, (rng.choice(SPIN), number()), {})

    def cmd_power_on(g):
        return ("power_on", g.power_on, (rng.choice(POWER), number()), {})

    def cmd_tool_off(g):
        return ("tool_off", g.tool_off, (), {})

    def cmd_power_off(g):
        return ("power_off", g.power_off, (), {})

    def cmd_set_tool_power(g):
        return ("set_tool_power", g.set_tool_power, (number(),), {})

    def cmd_set_feed_rate(g):
        return ("set_feed_rate", g.set_feed_rate, (number(),), {})

    def cmd_coolant_on(g):
        return ("coolant_on", g.coolant_on, (rng.choice(COOLANT),), {})

    def cmd_coolant_off(g):
        return ("coolant_off", g.coolant_off, (), {})

    def cmd_tool_change(g):
        n = rng.choice((1, 2, 7, 12, 123, 0, -1, 1.0, True, None, "3",
                        np.int64(4), 10 ** 9))
        return ("tool_change", g.tool_change, (rng.choice(SWAP), n), {})

    def cmd_halt(g):
        return ("halt", g.halt, (rng.choice(HALT),), halt_kwargs())

    def cmd_temp(g):
        which = rng.choice(("set_bed_temperature", "set_hotend_temperature",
                            "set_chamber_temperature"))
        return (which, getattr(g, which), (number(),), {})

    def cmd_move(g):
        which = rng.choice(("move", "rapid", "move_absolute",
                            "rapid_absolute"))
        return (which, getattr(g, which), (), move_kwargs())

    def cmd_move_point(g):
        which = rng.choice(("move", "rapid"))
        point = rng.choice((Point(coord(), coord(), coord()),
                            (1, 2, 3), (1, 2), [4, 5, 6], "xyz", 7))
        return (which + "(point)", getattr(g, which), (point,), {})

    def cmd_probe(g):
        return ("probe", g.probe, (rng.choice(PROBE),), move_kwargs())

    def cmd_set_axis(g):
        return ("set_axis", g.set_axis, (), move_kwargs())

    def cmd_auto_home(g):
        return ("auto_home", g.auto_home, (), move_kwargs())

    def cmd_set_bounds(g):
        name = rng.choice(BOUND_NAMES + ("bogus", "feed_rate"))
        lo, hi = random_bounds(name)
        return ("set_bounds", g.set_bounds, (name, lo, hi), {})

    def cmd_distance(g):
        return ("set_distance_mode", g.set_distance_mode,
                (rng.choice(DIST),), {})

    def cmd_emergency(g):
        return ("emergency_halt", g.emergency_halt,
                (rng.choice(("boom", "", 5)),),
                {"reset": rng.choice((True, False))})

    def cmd_fan(g):
        return ("set_fan_speed", g.set_fan_speed, (number(),), {})

    def cmd_sleep(g):
        return ("sleep", g.sleep, (number(),), {})

    def cmd_arc(g):
        target = Point(coord(), coord(), None)
        center = Point(coord(), coord(), None)
        return ("trace.arc", g.trace.arc, (target, center), {})

    COMMANDS = (
        [cmd_tool_on] * 6 + [cmd_power_on] * 6 + [cmd_tool_off] * 2 +
        [cmd_power_off] * 2 + [cmd_set_tool_power] * 4 +
        [cmd_set_feed_rate] * 4 + [cmd_coolant_on] * 2 +
        [cmd_coolant_off] + [cmd_tool_change] * 2 + [cmd_halt] * 4 +
        [cmd_temp] * 4 + [cmd_move] * 8 + [cmd_move_point] * 2 +
        [cmd_probe] * 2 + [cmd_set_axis] * 2 + [cmd_auto_home] +
        [cmd_set_bounds] * 4 + [cmd_distance] + [cmd_emergency] +
        [cmd_fan] + [cmd_sleep] + [cmd_arc]
    )

    def builder_session(index):
        g = GCodeBuilder()
        rec1, rec2 = Recorder(), Recorder()
        g.add_writer(rec1)
        g.add_writer(rec2)
        log = {"session": index, "steps": []}

        # Most sessions start with some bounds in place
        for name in BOUND_NAMES:
            if rng.random() < 0.55:
                lo, hi = random_bounds(name)
                log["steps"].append(["init-bounds", name, show(lo), show(hi),
                                     outcome(g.set_bounds, name, lo, hi)])

        for _ in range(rng.randint(25, 45)):
            label, func, args, kwargs = rng.choice(COMMANDS)(g)
            before = len(rec1.lines)
            result = outcome(func, *args, **kwargs)
            log["steps"].append({
                "cmd": label,
                "args": [show(a) for a in args],
                "kwargs": {k: show(v) for k, v in kwargs.items()},
                "result": result,
                "emitted": rec1.lines[before:],
                "snap": snapshot(g),
            })

        assert rec1.lines == rec2.lines
        log["all_lines"] = rec1.lines
        log["teardown"] = outcome(g.teardown)
        return log

    # ---- GState level: the two refactored setters, called directly ----

    def state_session(index):
        st = GState()
        log = {"state_session": index, "steps": []}

        for name in ("tool-power", "feed-rate"):
            if rng.random() < 0.6:
                lo, hi = random_bounds(name)
                log["steps"].append(["init-bounds", name, show(lo), show(hi),
                                     outcome(st._set_bounds, name, lo, hi)])

        for _ in range(40):
            pick = rng.random()
            if pick < 0.4:
                mode = rng.choice(SPIN)
                args = (mode,) if rng.random() < 0.2 else (mode, number())
                label, func = "_set_spin_mode", st._set_spin_mode
            elif pick < 0.8:
                mode = rng.choice(POWER)
                args = (mode,) if rng.random() < 0.2 else (mode, number())
                label, func = "_set_power_mode", st._set_power_mode
            elif pick < 0.9:
                args = (number(),)
                label, func = "_set_tool_power", st._set_tool_power
            elif pick < 0.95:
                kw = rng.random() < 0.5
                args = ()
                if kw:
                    label = "_set_spin_mode(kw)"
                    func = lambda: st._set_spin_mode(  # noqa: E731
                        mode=SpinMode.COUNTER, speed=3)
                else:
                    label = "_set_power_mode(kw)"
                    func = lambda: st._set_power_mode(  # noqa: E731
                        mode=PowerMode.DYNAMIC, power=4.5)
            else:
                args = (rng.choice(COOLANT),)
                label, func = "_set_coolant_mode", st._set_coolant_mode

            log["steps"].append({
                "cmd": label,
                "args": [show(a) for a in args],
                "result": outcome(func, *args),
                "snap": state_snapshot(st),
            })

        return log

    # ---- BoundManager level -----------------------------------------

    def point_value():
        return Point(coord_num(), coord_num(), coord_num())

    def coord_num():
        r = rng.random()
        if r < 0.2:
            return None
        if r < 0.85:
            return round(rng.uniform(-120, 120), 1)
        return rng.choice((float("nan"), float("inf"), float("-inf"),
                           -0.0, 0, np.float64(10.0), 50, -50))

    def bounds_session(index):
        bm = BoundManager()
        log = {"bounds_session": index, "steps": []}

        for _ in range(50):
            pick = rng.random()
            name = rng.choice(BOUND_NAMES + ("bogus", "", "AXES"))
            if rng.random() < 0.03:
                name = rng.choice((None, 5))

            if pick < 0.3:
                if name == "axes" and rng.random() < 0.9:
                    lo = Point(rng.choice((None, -50, -10, 0)),
                               rng.choice((None, -50, -10, 0)),
                               rng.choice((-50, -10, 0)))
                    hi = Point(rng.choice((None, 10, 50, 100)),
                               rng.choice((None, 10, 50, 100)),
                               rng.choice((10, 50, 100)))
                else:
                    lo, hi = rng.choice(((0, 100), (10, 20), (-5.5, 5.5),
                                         (5, 5), (9, 1), (0, float("inf")),
                                         (float("nan"), 1), ("a", "b"),
                                         (None, 3), (True, 2),
                                         (Point(0, 0, 0), 4),
                                         (np.float64(1.0), np.float64(2.0))))
                args = (name, lo, hi)
                label, func = "set_bounds", bm.set_bounds
            elif pick < 0.9:
                r = rng.random()
                if r < 0.45:
                    value = point_value()
                elif r < 0.95:
                    value = rng.choice(NUMBERS + [round(rng.uniform(-20, 120), 2)])
                else:
                    value = rng.choice(JUNK)
                args = (name, value)
                label, func = "validate", bm.validate
            else:
                args = (name,)
                label, func = "get_bounds", bm.get_bounds

            log["steps"].append({
                "cmd": label,
                "args": [show(a) for a in args],
                "result": outcome(func, *args),
                "bounds": show(sorted(bm._bounds.items())),
            })

        return log

    n_calls = 0
    for i in range(30):
        log = builder_session(i)
        n_calls += len(log["steps"])
        out.append(log)
    for i in range(12):
        log = state_session(i)
        n_calls += len(log["steps"])
        out.append(log)
    for i in range(12):
        log = bounds_session(i)
        n_calls += len(log["steps"])
        out.append(log)

    assert not math.isnan(n_calls)
    json.dump({"calls": n_calls, "log": out}, sys.stdout, sort_keys=True)


# ----------------------------------------------------------------------
# Parent: run both trees, compare transcripts
# ----------------------------------------------------------------------

def run_tree(path: str, seed: int) -> str:
    env = dict(os.environ)
    env["PYTHONPATH"] = path
    env["EXPECTED_TREE"] = path
    env["PYTHONHASHSEED"] = "0"
    env["PYTHONDONTWRITEBYTECODE"] = "1"

    proc = subprocess.run(
        [sys.executable, os.path.abspath(__file__), "--child", str(seed)],
        env=env, cwd="/tmp", stdin=subprocess.DEVNULL,
        stdout=subprocess.PIPE, stderr=subprocess.PIPE,
        timeout=600, text=True, check=False,
    )

    if proc.returncode != 0:
        sys.stderr.write(proc.stderr[-4000:])
        raise SystemExit(f"child for {path} failed ({proc.returncode})")

    return proc.stdout


def summarize(transcript: str) -> dict:
    data = json.loads(transcript)
    stats = {"calls": data["calls"], "ok": 0, "raise": 0, "lines": 0, "kinds": {}}

    for session in data["log"]:
        stats["lines"] += len(session.get("all_lines", ()))
        for step in session["steps"]:
            result = step["result"] if isinstance(step, dict) else step[-1]
            stats[result[0]] += 1
            if result[0] == "raise":
                stats["kinds"][result[1]] = stats["kinds"].get(result[1], 0) + 1

    return stats


def first_difference(a: str, b: str) -> str:
    da, db = json.loads(a)["log"], json.loads(b)["log"]
    for sa, sb in zip(da, db):
        if sa == sb:
            continue
        for xa, xb in zip(sa["steps"], sb["steps"]):
            if xa != xb:
                return f"orig: {json.dumps(xa)[:1500]}\ntwin: {json.dumps(xb)[:1500]}"
        return "sessions differ outside of steps"
    return "different number of sessions"


def main() -> int:
    if len(sys.argv) == 3 and sys.argv[1] == "--child":
        child(int(sys.argv[2]))
        return 0

    total = 0
    for seed in SEEDS:
        orig = run_tree(TREES["orig"], seed)
        twin = run_tree(TREES["twin"], seed)
        stats = summarize(orig)
        total += stats["calls"]
        print(f"seed {seed}: {stats}")

        if orig != twin:
            print("TRANSCRIPTS DIFFER")
            print(first_difference(orig, twin))
            return 1

        assert stats["ok"] > 100 and stats["raise"] > 100, stats

    print(f"OK: identical transcripts, {total} calls compared")
    return 0


if __name__ == "__main__":
    sys.exit(main())
