#!/usr/bin/env python
"""Differential check for the C13 refactoring (third twin round).

Runs the same seeded scenario in two subprocesses, one importing the
unmodified tree (/repo) and one importing the refactored worktree
(/tmp/wtV-C13), and asserts that the two transcripts are identical.

The scenario drives:

* ``Transform`` directly (constructor, _set_pivot, _set_matrix,
  _chain_matrix, _tranlation_matrix, apply, reverse) with valid and
  invalid matrices / points;
* ``CoordinateTransformer`` (translate, rotate, reflect, mirror, scale,
  set_pivot, chain_transform, save/restore/delete_state,
  _rotation_vector, apply/reverse_transform) with valid, boundary and
  invalid arguments;
* ``GCodeCore`` with an in-process recording writer: moves under random
  transform sequences and nested current_transform / named_transform
  context managers, including bodies that raise.

Floats are recorded through ``float.hex`` / raw bytes, so the comparison
is bit exact.
"""

import json
import os
import subprocess
import sys

TREES = {"orig": "/repo", "twin": "/tmp/wtV-C13"}
SEED = 130313


# --------------------------------------------------------------------------
# Child: build the transcript
# --------------------------------------------------------------------------

def child() -> None:
    import random
    import warnings

    warnings.simplefilter("ignore")

    import numpy as np

    import gscrib
    from gscrib import GCodeCore
    from gscrib.enums import Axis, Plane
    from gscrib.geometry import CoordinateTransformer, Point
    from gscrib.geometry.transform import Transform
    from gscrib.writers import BaseWriter

    expected_root = os.environ["EXPECTED_ROOT"]
    assert os.path.realpath(gscrib.__file__).startswith(
        os.path.realpath(expected_root) + os.sep), gscrib.__file__

    rng = random.Random(SEED)
    log = []

    # -- encoding helpers ---------------------------------------------------

    def enc(value):
        if isinstance(value, np.ndarray):
            return ["nd", str(value.dtype), list(value.shape),
                    value.tobytes().hex()]
        if isinstance(value, (bool, type(None), str)):
            return value
        if isinstance(value, (float, np.floating)):
            return [type(value).__name__, float(value).hex()]
        if isinstance(value, (int, np.integer)):
            return [type(value).__name__, int(value)]
        if isinstance(value, tuple) and hasattr(value, "_fields"):
            return [type(value).__name__, [enc(v) for v in value]]
        if isinstance(value, (list, tuple)):
            return [type(value).__name__, [enc(v) for v in value]]
        if isinstance(value, Transform):
            return enc_transform(value)
        return ["obj", type(value).__name__]

    def enc_transform(t):
        return ["Transform"] + [
            enc(getattr(t, slot, "<unset>")) for slot in
            ("_matrix", "_inverse", "_pivot", "_from_pivot", "_to_pivot")
        ]

    def enc_transformer(tr):
        return {
            "current": enc_transform(tr._current_transform),
            "stack": [enc_transform(t) for t in tr._transforms_stack],
            "named": [[k, enc_transform(v)]
                      for k, v in tr._named_transforms.items()],
        }

    def call(label, fn, *args, **kwargs):
        try:
            result = ["ok", enc(fn(*args, **kwargs))]
        except Exception as exc:  # pylint: disable=broad-except
            result = ["exc", type(exc).__name__]
        log.append([label, result])
        return result

    # -- random input generators -------------------------------------------

    SPECIAL = [0.0, -0.0, 1.0, -1.0, 1e-300, 1e300, 1e-12, 90.0, 180.0,
               360.0, -45.0, float("nan"), float("inf"), -float("inf")]

    def num(extreme=0.1):
        r = rng.random()
        if r < extreme:
            return rng.choice(SPECIAL)
        if r < extreme + 0.15:
            return rng.randint(-20, 20)
        return rng.uniform(-100, 100)

    def good():
        return round(rng.uniform(-50, 50), rng.choice([0, 1, 3, 9]))

    def pointlike():
        r = rng.random()
        if r < 0.5:
            return (good(), good(), good())
        if r < 0.6:
            return [good(), good(), good()]
        if r < 0.7:
            return Point(good(), good(), good())
        if r < 0.78:
            return Point(good(), None, good())
        if r < 0.83:
            return (num(0.5), num(0.5), num(0.5))
        if r < 0.87:
            return (good(), good())
        if r < 0.90:
            return (good(), good(), good(), good())
        if r < 0.93:
            return ("a", 1.0, 2.0)
        if r < 0.95:
            return None
        if r < 0.97:
            return np.array([good(), good(), good()])
        return (np.float64(good()), np.float32(1.5), 2)

    def matrix():
        r = rng.random()
        if r < 0.55:
            m = np.eye(4)
            m[:3, :3] += np.array(
                [[rng.uniform(-1, 1) for _ in range(3)] for _ in range(3)])
            m[:3, 3] = [good(), good(), good()]
            return m
        if r < 0.62:
            return np.eye(3)
        if r < 0.68:
            return np.zeros((4, 4))            # singular
        if r < 0.73:
            return np.eye(4).tolist()          # not an ndarray
        if r < 0.78:
            return np.ones((4, 4, 1))
        if r < 0.83:
            return np.eye(4, dtype=int) * rng.randint(1, 5)
        if r < 0.88:
            return np.eye(4, dtype=np.float32) * 2
        if r < 0.92:
            m = np.eye(4)
            m[rng.randrange(4), rng.randrange(4)] = rng.choice(SPECIAL)
            return m
        if r < 0.95:
            return None
        if r < 0.97:
            return np.arange(16.0)
        return np.eye(4)[::-1].T                # non contiguous view

    PROBES = [(0, 0, 0), (1, 2, 3), (-7.25, 13.5, 0.125), (1e6, -1e-6, 42)]

    def probe(tr, label):
        for p in PROBES + [pointlike()]:
            call(label + ".apply", tr.apply_transform, p)
            call(label + ".reverse", tr.reverse_transform, p)
            applied = None
            try:
                applied = tr.apply_transform(p)
            except Exception:  # pylint: disable=broad-except
                pass
            if applied is not None:
                call(label + ".roundtrip", tr.reverse_transform, applied)

    # -- 1. Transform directly ---------------------------------------------

    for i in range(120):
        label = "T%d" % i
        m, pv = matrix(), rng.choice(
            [Point.zero(), Point(good(), good(), good()),
             Point(1.0, None, 2.0), (1.0, 2.0, 3.0), None,
             Point(num(0.6), num(0.6), num(0.6))])
        holder = []

        def build(m=m, pv=pv, holder=holder):
            holder.append(Transform(m, pv))
            return holder[0]

        call(label + ".new", build)
        if not holder:
            continue
        t = holder[0]
        for j in range(rng.randint(1, 6)):
            op = rng.choice(["chain", "chain", "pivot", "set", "tm",
                             "apply", "reverse"])
            if op == "chain":
                call(label + ".chain", t._chain_matrix, matrix())
            elif op == "pivot":
                call(label + ".pivot", t._set_pivot, rng.choice(
                    [Point(good(), good(), good()), Point(None, 1.0, None),
                     Point(num(0.7), num(0.7), num(0.7)), (1, 2, 3),
                     Point("a", 1.0, 2.0)]))
            elif op == "set":
                call(label + ".set", t._set_matrix, matrix())
            elif op == "tm":
                call(label + ".tm", t._tranlation_matrix, rng.choice(
                    [Point(good(), good(), good()), (1, 2, 3), (1, 2),
                     (1, 2, 3, 4), Point(None, 1.0, 2.0), "abc", None,
                     Point(num(0.7), num(0.7), num(0.7))]))
            elif op == "apply":
                call(label + ".apply", t.apply, pointlike())
            else:
                call(label + ".reverse", t.reverse, pointlike())
            log.append([label + ".state", enc_transform(t)])

    # -- 2. CoordinateTransformer ------------------------------------------

    AXES = ["x", "y", "z", Axis.X, Axis.Y, Axis.Z, "X", "w", "", None, 3]
    PLANES = ["xy", "yz", "zx", Plane.XY, Plane.YZ, Plane.ZX, "XY", "q",
              None, 1]
    NAMES = ["a", "b", " a ", "", "  ", None, "zz", 5]

    def normal():
        r = rng.random()
        if r < 0.45:
            return [good(), good(), good()]
        if r < 0.55:
            return [0.0, 0.0, 0.0]
        if r < 0.60:
            return [0, 0, 0]
        if r < 0.65:
            return [-0.0, 0.0, -0.0]
        if r < 0.70:
            return []
        if r < 0.75:
            return [good()]
        if r < 0.80:
            return [good(), good()]
        if r < 0.85:
            return [good(), good(), good(), good(), good()]
        if r < 0.90:
            return [num(0.8), num(0.8), num(0.8)]
        if r < 0.93:
            return (1.0, 0.0, 0.0)
        if r < 0.96:
            return [1.0, "a", 0.0]
        if r < 0.98:
            return [1.0, None, 0.0]
        return None

    def transformer_step(tr, label):
        op = rng.choice([
            "translate", "translate", "rotate", "rotate", "rotate", "scale",
            "reflect", "reflect", "mirror", "pivot", "chain", "save",
            "restore", "delete", "rotvec", "translate_bad", "rotate_bad"])
        if op == "translate":
            args = [num(), num()] + ([num()] if rng.random() < 0.6 else [])
            call(label + ".translate", tr.translate, *args)
        elif op == "translate_bad":
            args = rng.choice([("a", 1.0), (1.0,), (None, 2.0), (1.0, 2.0,
                              3.0, 4.0), (True, False), (np.float64(2.5),
                              np.float64(1.0)), (np.int64(2), 1),
                              (1.0, 2.0, None)])
            call(label + ".translate_bad", tr.translate, *args)
        elif op == "rotate":
            args = [num(0.25)] + (
                [rng.choice(AXES[:6])] if rng.random() < 0.7 else [])
            call(label + ".rotate", tr.rotate, *args)
        elif op == "rotate_bad":
            args = rng.choice([("a", "x"), (None,), (), (90.0, "w"),
                               (90.0, None), (90.0, 3), (90.0, "X"),
                               (np.float64(30.0), "y"), (True, "z"),
                               (45, Axis.X), (float("nan"), "x"),
                               (float("inf"), "y")])
            call(label + ".rotate_bad", tr.rotate, *args)
        elif op == "rotvec":
            call(label + ".rotvec", tr._rotation_vector,
                 rng.choice([num(0.3), "a", None, np.float32(12.5),
                             [10.0, 20.0]]),
                 rng.choice(AXES + [[1], {}]))
        elif op == "scale":
            n = rng.choice([0, 1, 1, 2, 3, 4])
            args = [rng.choice([good(), good(), 0.0, -0.0, 2, -1.0,
                                float("nan"), 1e-9])
                    for _ in range(n)]
            call(label + ".scale", tr.scale, *args)
        elif op == "reflect":
            call(label + ".reflect", tr.reflect, normal())
        elif op == "mirror":
            args = [rng.choice(PLANES)] if rng.random() < 0.85 else []
            call(label + ".mirror", tr.mirror, *args)
        elif op == "pivot":
            call(label + ".set_pivot", tr.set_pivot, pointlike())
        elif op == "chain":
            call(label + ".chain", tr.chain_transform, matrix())
        elif op == "save":
            call(label + ".save", tr.save_state, rng.choice(NAMES))
        elif op == "restore":
            call(label + ".restore", tr.restore_state, rng.choice(NAMES))
        else:
            call(label + ".delete", tr.delete_state, rng.choice(NAMES))

    for i in range(150):
        label = "C%d" % i
        tr = CoordinateTransformer()
        for j in range(rng.randint(2, 12)):
            transformer_step(tr, label)
            log.append([label + ".state", enc_transformer(tr)])
        probe(tr, label)
        state = tr._copy_state()
        log.append([label + ".copy", enc(state)])
        transformer_step(tr, label)
        tr._revert_state(state)
        log.append([label + ".reverted", enc_transformer(tr)])

    # pivot stays fixed under rotations and scalings
    for i in range(40):
        tr = CoordinateTransformer()
        pv = (good(), good(), good())
        tr.translate(good(), good(), good())
        tr.set_pivot(pv)
        before = tr.apply_transform(pv)
        for j in range(rng.randint(1, 4)):
            if rng.random() < 0.5:
                tr.rotate(rng.uniform(-360, 360), rng.choice("xyz"))
            else:
                tr.scale(*[rng.choice([-3.0, 0.5, 2.0, 7.25])
                           for _ in range(rng.randint(1, 3))])
        log.append(["P%d" % i, enc(before), enc(tr.apply_transform(pv)),
                    enc_transformer(tr)])

    # -- 3. GCodeCore with a recording writer ------------------------------

    class Recorder(BaseWriter):
        def __init__(self):
            self.events = []

        def connect(self):
            self.events.append("connect")
            return self

        def disconnect(self, wait=True):
            self.events.append("disconnect:%r" % (wait,))

        def write(self, statement):
            self.events.append(
                [type(statement).__name__, bytes(statement).hex()])

        def flush(self):
            self.events.append("flush")

    class Boom(Exception):
        pass

    def core_state(g):
        return {"pos": enc(g.position), "mode": str(g.distance_mode),
                "tr": enc_transformer(g.transform)}

    def core_step(g, label, depth):
        op = rng.choice(["move", "move", "rapid", "move_abs", "tr", "tr",
                         "tr", "ctx", "named", "to_abs", "to_dm", "mode",
                         "move_bad"])
        if op == "tr":
            transformer_step(g.transform, label)
        elif op == "move":
            call(label + ".move", g.move, x=good(), y=good(),
                 **({"z": good()} if rng.random() < 0.5 else {}))
        elif op == "move_bad":
            call(label + ".move_bad", g.move, pointlike())
        elif op == "rapid":
            call(label + ".rapid", g.rapid, pointlike())
        elif op == "move_abs":
            call(label + ".move_abs", g.move_absolute,
                 (good(), good(), good()))
        elif op == "to_abs":
            call(label + ".to_abs", g.to_absolute, pointlike())
        elif op == "to_dm":
            call(label + ".to_dm", g.to_distance_mode, pointlike())
        elif op == "mode":
            call(label + ".mode", g.set_distance_mode,
                 rng.choice(["absolute", "relative", "bogus"]))
        elif depth < 3:
            named = op == "named"
            name = rng.choice(NAMES[:4] + ["missing"]) if named else None
            raises = rng.random() < 0.35
            steps = rng.randint(1, 4)

            def body():
                manager = (g.named_transform(name) if named
                           else g.current_transform())
                with manager:
                    log.append([label + ".enter", core_state(g)])
                    for _ in range(steps):
                        core_step(g, label, depth + 1)
                    if raises:
                        raise Boom("body")

            call(label + (".named" if named else ".ctx"), body)

    for i in range(60):
        label = "G%d" % i
        rec = Recorder()
        g = GCodeCore(print_lines=False, output=None)
        g.add_writer(rec)
        g.transform.save_state("a")
        for j in range(rng.randint(4, 14)):
            core_step(g, label, 0)
            log.append([label + ".state", core_state(g)])
        probe(g.transform, label)
        call(label + ".teardown", g.teardown)
        log.append([label + ".events", rec.events])

    json.dump(log, sys.stdout, allow_nan=True)


# --------------------------------------------------------------------------
# Parent: run both trees and compare
# --------------------------------------------------------------------------

def run(tree: str) -> list:
    env = dict(os.environ)
    env["PYTHONPATH"] = tree
    env["EXPECTED_ROOT"] = tree
    env["PYTHONHASHSEED"] = "0"
    env["PYTHONDONTWRITEBYTECODE"] = "1"
    proc = subprocess.run(
        [sys.executable, os.path.abspath(__file__), "--child"],
        env=env, cwd="/tmp", stdin=subprocess.DEVNULL,
        stdout=subprocess.PIPE, stderr=subprocess.PIPE,
        timeout=600, check=False)
    if proc.returncode != 0:
        sys.stderr.write(proc.stderr.decode(errors="replace"))
        raise SystemExit("child for %s failed (%d)" % (tree, proc.returncode))
    return json.loads(proc.stdout)


def main() -> int:
    transcripts = {name: run(tree) for name, tree in TREES.items()}
    a, b = transcripts["orig"], transcripts["twin"]

    for index, (x, y) in enumerate(zip(a, b)):
        if x != y:
            print("MISMATCH at record %d" % index)
            print("  orig:", json.dumps(x)[:600])
            print("  twin:", json.dumps(y)[:600])
            return 1

    if len(a) != len(b):
        print("MISMATCH: transcript lengths %d vs %d" % (len(a), len(b)))
        return 1

    kinds = {}
    for record in a:
        if len(record) == 2 and isinstance(record[1], list) and record[1] \
                and record[1][0] in ("ok", "exc"):
            key = record[1][1] if record[1][0] == "exc" else "ok"
            kinds[key] = kinds.get(key, 0) + 1

    print("identical transcripts: %d records" % len(a))
    print("call outcomes:", json.dumps(kinds, sort_keys=True))
    return 0


if __name__ == "__main__":
    if "--child" in sys.argv:
        child()
    else:
        sys.exit(main())
