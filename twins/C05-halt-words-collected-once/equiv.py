#!/venv/bin/python
"""Differential check for the C05 twin refactoring of GCodeBuilder.halt().

Runs the same seeded scenario set against the pristine tree (/repo) and
the refactored tree (/tmp/wtT-C05), each in its own subprocess, and
asserts that the two transcripts (emitted bytes, state snapshots, return
values, exception type names and messages) are identical.

Usage:  timeout 600 /venv/bin/python /tmp/twin-C05/equiv.py
"""

import hashlib
import json
import os
import subprocess
import sys

TREES = {"base": "/repo", "twin": "/tmp/wtT-C05"}
SEED = 50505
SCENARIOS = 450


# --------------------------------------------------------------------------
# Child: drive one tree and print a JSON transcript
# --------------------------------------------------------------------------

def child(expected_root: str) -> None:
    import random
    import numpy as np
    import gscrib
    from gscrib import GCodeBuilder
    from gscrib.enums import HaltMode
    from gscrib.writers.base_writer import BaseWriter

    root = os.path.realpath(os.path.dirname(os.path.dirname(gscrib.__file__)))
    assert root == os.path.realpath(expected_root), (root, expected_root)

    class FakeWriter(BaseWriter):
        """In-process fake device, records every byte string written."""

        def __init__(self):
            self.lines = []

        def connect(self):
            return self

        def disconnect(self, wait=True):
            pass

        def write(self, statement):
            self.lines.append(statement)

    state_props = (
        "position", "is_coolant_active", "is_tool_active", "tool_number",
        "tool_power", "feed_rate", "spin_mode", "power_mode",
        "coolant_mode", "distance_mode", "extrusion_mode", "feed_mode",
        "tool_swap_mode", "halt_mode", "length_units", "time_units",
        "temperature_units", "plane", "direction", "resolution",
        "target_hotend_temperature", "target_bed_temperature",
        "target_chamber_temperature",
    )

    def snapshot(g):
        snap = {name: repr(getattr(g.state, name)) for name in state_props}
        snap["g.position"] = repr(g.position)
        snap["g.distance_mode"] = repr(g.distance_mode)
        snap["g.params"] = repr(sorted(
            (k, repr(v)) for k, v in g._current_params.items()))
        snap["state.params"] = repr(sorted(
            (k, repr(v)) for k, v in g.state._current_params.items()))
        snap["same_params"] = g.state._current_params is g._current_params
        for name in ("F", "S", "R", "P", "E"):
            snap[f"param.{name}"] = repr(g.get_parameter(name))
            snap[f"state.param.{name}"] = repr(g.state.get_parameter(name))
        for name in ("bed-temperature", "hotend-temperature",
                     "chamber-temperature", "axes", "feed-rate"):
            snap[f"bounds.{name}"] = repr(g.state.get_bounds(name))
        return snap

    rng = random.Random(SEED)

    modes_enum = list(HaltMode)
    modes_str = [m.value for m in HaltMode]
    bad_modes = ["", "nope", "WAIT-FOR-BED", None, 3, 1.5, b"pause"]
    wait_modes = [
        HaltMode.WAIT_FOR_BED, HaltMode.WAIT_FOR_HOTEND,
        HaltMode.WAIT_FOR_CHAMBER,
    ]

    values = [
        0, -0.0, 0.0, 1, -1, 20, 59.999, 60, 60.0, 60.001, 100, 200, 210.5,
        249.999999, 250, 250.000001, 300, 1e9, -1e9, -273.15, 5e-324,
        float("nan"), float("inf"), float("-inf"), None, True, False,
        "hot", "", "60", [60], (60,), {"a": 1}, 2 + 3j,
        np.float64(75.5), np.float64("nan"), np.float32(80.25),
        np.int64(90), np.int32(-5), np.bool_(True), np.array([1.0, 2.0]),
        np.array(70.0),
    ]

    key_spellings = {
        "R": ["R", "r"],
        "S": ["S", "s"],
    }
    other_keys = ["P", "p", "T", "comment", "x", "E", "Rr", "ss", "", "é"]

    def pick_value():
        if rng.random() < 0.35:
            return rng.choice([
                rng.uniform(-50, 400), rng.randint(-50, 400),
                round(rng.uniform(0, 300), 3),
            ])
        return rng.choice(values)

    def pick_kwargs():
        kwargs = {}
        shape = rng.random()
        names = []
        if shape < 0.15:
            names = []
        elif shape < 0.40:
            names = ["R"]
        elif shape < 0.65:
            names = ["S"]
        else:
            names = rng.choice([["R", "S"], ["S", "R"]])
        for name in names:
            kwargs[rng.choice(key_spellings[name])] = pick_value()
        # both spellings of the same word at once (later one wins upper())
        if rng.random() < 0.12:
            name = rng.choice(["R", "S"])
            for spelling in rng.sample(key_spellings[name], 2):
                kwargs[spelling] = pick_value()
        if rng.random() < 0.3:
            kwargs[rng.choice(other_keys)] = pick_value()
        return kwargs

    def pick_mode():
        r = rng.random()
        if r < 0.55:
            mode = rng.choice(wait_modes)
            return mode if rng.random() < 0.6 else mode.value
        if r < 0.80:
            return rng.choice(modes_enum)
        if r < 0.92:
            return rng.choice(modes_str)
        return rng.choice(bad_modes)

    def pick_bounds():
        lo, hi = rng.choice([
            (0, 250), (60, 250), (0.0, 60.0), (-10, 10), (100, 100),
            (float("-inf"), float("inf")), (0, float("inf")), (20, 300),
        ])
        return lo, hi

    def setup_ops():
        ops = []
        for name in ("bed-temperature", "hotend-temperature",
                     "chamber-temperature"):
            if rng.random() < 0.6:
                lo, hi = pick_bounds()
                ops.append(("set_bounds", (name, lo, hi), {}))
        if rng.random() < 0.2:
            ops.append(("set_bounds", ("axes", (0, 0, 0), (50, 50, 50)), {}))
        if rng.random() < 0.2:
            ops.append(("set_bounds", ("feed-rate", 10, 2000), {}))
        if rng.random() < 0.3:
            ops.append(("set_temperature_units",
                        (rng.choice(["celsius", "kelvin"]),), {}))
        if rng.random() < 0.4:
            ops.append(("move", (), {"x": rng.randint(0, 40), "y": 5,
                                     "F": rng.choice([100, 1500])}))
        if rng.random() < 0.25:
            ops.append(("set_distance_mode", ("relative",), {}))
        if rng.random() < 0.3:
            ops.append(("set_bed_temperature", (rng.choice([50, 61, 200]),), {}))
        if rng.random() < 0.3:
            ops.append(("set_hotend_temperature", (rng.choice([180, 210]),), {}))
        r = rng.random()
        if r < 0.15:
            ops.append(("tool_on", ("cw", 1000), {}))
        elif r < 0.25:
            ops.append(("power_on", ("constant", 75), {}))
        if rng.random() < 0.2:
            ops.append(("coolant_on", (rng.choice(["flood", "mist"]),), {}))
        return ops

    def main_ops():
        ops = []
        for _ in range(rng.randint(1, 4)):
            r = rng.random()
            if r < 0.78:
                ops.append(("halt", (pick_mode(),), pick_kwargs()))
            elif r < 0.82:
                ops.append(("wait", (), {}))
            elif r < 0.86:
                ops.append(("pause", (rng.choice([True, False, 1, None]),), {}))
            elif r < 0.90:
                ops.append(("stop", (rng.choice([True, False, "x"]),), {}))
            elif r < 0.94:
                ops.append(("emergency_halt",
                            (rng.choice(["oops", "a\nb", 5]),
                             rng.choice([True, False])), {}))
            elif r < 0.97:
                ops.append(("halt", (), pick_kwargs()))   # missing mode
            else:
                ops.append(("halt", (pick_mode(), 5), {}))  # extra positional
        return ops

    def followup_ops():
        return [
            ("move", (), {"x": 1, "y": 2, "F": 900}),
            ("set_chamber_temperature", (45,), {}),
            ("query", ("temperature",), {}),
        ]

    transcript = []

    for index in range(SCENARIOS):
        g = GCodeBuilder()
        writer = FakeWriter()
        second = FakeWriter() if rng.random() < 0.2 else None
        g.add_writer(writer)
        if second is not None:
            g.add_writer(second)

        record = {"scenario": index, "steps": []}
        seen = 0
        seen2 = 0

        for phase, ops in (("setup", setup_ops()), ("main", main_ops()),
                           ("after", followup_ops())):
            for name, args, kwargs in ops:
                step = {"phase": phase, "call": name,
                        "args": repr(args), "kwargs": repr(kwargs)}
                kwargs_before = repr(kwargs)
                try:
                    result = getattr(g, name)(*args, **kwargs)
                    step["return"] = repr(result)
                except BaseException as exc:  # pylint: disable=broad-except
                    step["raised"] = type(exc).__name__
                    step["module"] = type(exc).__module__
                    step["message"] = str(exc)
                step["kwargs_unchanged"] = (repr(kwargs) == kwargs_before)
                step["emitted"] = [repr(b) for b in writer.lines[seen:]]
                seen = len(writer.lines)
                if second is not None:
                    step["emitted2"] = [repr(b) for b in second.lines[seen2:]]
                    seen2 = len(second.lines)
                step["state"] = snapshot(g)
                record["steps"].append(step)

        transcript.append(record)

    json.dump(transcript, sys.stdout, sort_keys=True)


# --------------------------------------------------------------------------
# Parent: run both trees, compare
# --------------------------------------------------------------------------

def run_tree(label: str, root: str) -> list:
    env = dict(os.environ)
    env["PYTHONPATH"] = root
    env["PYTHONDONTWRITEBYTECODE"] = "1"
    env["PYTHONHASHSEED"] = "0"
    proc = subprocess.run(
        [sys.executable, os.path.abspath(__file__), "--child", root],
        env=env, cwd="/tmp/twin-C05", stdin=subprocess.DEVNULL,
        stdout=subprocess.PIPE, stderr=subprocess.PIPE,
        timeout=500, check=False,
    )
    if proc.returncode != 0:
        sys.stderr.write(proc.stderr.decode("utf-8", "replace"))
        raise SystemExit(f"child for {label} failed ({proc.returncode})")
    return json.loads(proc.stdout.decode("utf-8"))


def summarize(transcript: list) -> dict:
    steps = [s for rec in transcript for s in rec["steps"]]
    halts = [s for s in steps if s["phase"] == "main"]
    raised = {}
    for step in halts:
        key = step.get("raised", "<ok>")
        raised[key] = raised.get(key, 0) + 1
    return {
        "scenarios": len(transcript),
        "steps": len(steps),
        "main_calls": len(halts),
        "main_outcomes": raised,
        "lines": sum(len(s["emitted"]) for s in steps),
    }


def main() -> int:
    results = {label: run_tree(label, root) for label, root in TREES.items()}
    base, twin = results["base"], results["twin"]

    if base != twin:
        for rec_a, rec_b in zip(base, twin):
            for step_a, step_b in zip(rec_a["steps"], rec_b["steps"]):
                if step_a != step_b:
                    print("MISMATCH in scenario", rec_a["scenario"])
                    print(" base:", json.dumps(step_a, sort_keys=True))
                    print(" twin:", json.dumps(step_b, sort_keys=True))
                    return 1
        print("MISMATCH (different lengths)")
        return 1

    digest = hashlib.sha256(
        json.dumps(base, sort_keys=True).encode("utf-8")).hexdigest()
    print("transcripts identical:", json.dumps(summarize(base), sort_keys=True))
    print("sha256:", digest)
    assert base == twin
    return 0


if __name__ == "__main__":
    if len(sys.argv) == 3 and sys.argv[1] == "--child":
        child(sys.argv[2])
    else:
        sys.exit(main())
