#!/usr/bin/env python
"""Differential check for the C11 refactoring of gscrib/gcode_core.py.

Runs the same seeded scenario set against two source trees, each in its
own subprocess (PYTHONPATH=/repo and PYTHONPATH=/tmp/wtT-C11), records a
full transcript of everything observable and asserts both transcripts are
identical.  Exit status 0 means identical.

    timeout 600 /venv/bin/python /tmp/twin-C11/equiv.py
"""

import json
import os
import subprocess
import sys

TREES = ["/repo", "/tmp/wtT-C11"]
SEED = 110011
N_SCENARIOS = 420


# ---------------------------------------------------------------------------
# Worker: executed once per tree
# ---------------------------------------------------------------------------

def worker(expected_root):
    import math
    import random
    import re

    import numpy as np
    import gscrib
    from gscrib import GCodeCore, GCodeBuilder
    from gscrib.enums import DistanceMode
    from gscrib.geometry import Point
    from gscrib.writers import BaseWriter
    from gscrib.excepts import DeviceError

    root = os.path.realpath(os.path.dirname(os.path.dirname(gscrib.__file__)))
    assert root == os.path.realpath(expected_root), (root, expected_root)

    rng = random.Random(SEED)
    log = []

    def scrub(text):
        return re.sub(r"0x[0-9a-fA-F]+", "0x?", str(text))

    def show(value):
        if isinstance(value, Point):
            return "Point(%r, %r, %r)|%s" % (
                value.x, value.y, value.z,
                ",".join(type(c).__name__ for c in value))
        if isinstance(value, list):
            return "[" + "; ".join(show(v) for v in value) + "]"
        return "%s:%s" % (type(value).__name__, scrub(repr(value)))

    class Boom(Exception):
        pass

    class RecWriter(BaseWriter):
        """In-process fake device: records bytes, may fail on demand."""

        def __init__(self, fail_at=None, fail_kind="device"):
            self.count = 0
            self.fail_at = fail_at
            self.fail_kind = fail_kind

        def connect(self):
            return self

        def disconnect(self, wait=True):
            log.append("W disconnect %r" % (wait,))

        def write(self, statement):
            self.count += 1
            if self.fail_at is not None and self.count == self.fail_at:
                log.append("W FAIL#%d %r" % (self.count, statement))
                if self.fail_kind == "device":
                    raise DeviceError("fake device failure")
                raise RuntimeError("fake internal failure")
            log.append("W %r" % (statement,))

        def flush(self):
            log.append("W flush")

    def snapshot(g):
        parts = [
            "pos=" + show(g.position),
            "mode=%r" % (g.distance_mode,),
            "_mode=%r/%s" % (g._distance_mode, type(g._distance_mode).__name__),
            "params=%r" % (sorted((k, repr(v)) for k, v in
                                  g._current_params.items()),),
        ]
        if isinstance(g, GCodeBuilder):
            parts.append("state.mode=%r" % (g.state.distance_mode,))
            parts.append("state.pos=" + show(g.state.position)
                         if hasattr(g.state, "position") else "")
        log.append("S " + " ".join(parts))

    def attempt(label, fn, g):
        log.append("> " + label)
        try:
            result = fn()
            log.append("= " + show(result))
        except BaseException as exc:  # noqa: record everything
            if isinstance(exc, (KeyboardInterrupt, SystemExit)):
                raise
            log.append("! %s: %s" % (type(exc).__name__, scrub(exc)))
        snapshot(g)

    # -- random value generators -------------------------------------------

    SPECIALS = [0, 0.0, -0.0, 1, -1, 1e-9, -1e-9, 1e12, -1e12,
                float("nan"), float("inf"), float("-inf"),
                np.float64(2.5), np.float32(-1.25), np.int64(3), True]

    def number(valid_only=False):
        r = rng.random()
        if r < 0.55:
            return round(rng.uniform(-50, 50), rng.choice([0, 1, 3, 6]))
        if r < 0.75:
            return rng.randint(-20, 20)
        if valid_only:
            return rng.choice([0, 0.0, -0.0, 1, -1, np.float64(2.5),
                               np.int64(3)])
        return rng.choice(SPECIALS)

    def coord(valid_only=False):
        return None if rng.random() < 0.25 else number(valid_only)

    def pointlike(valid_only=False):
        r = rng.random()
        n = rng.choice([3, 3, 3, 2, 2, 1]) if r < 0.9 else rng.choice([0, 4, 5])
        if valid_only:
            n = rng.choice([2, 3, 3])
        values = [coord(valid_only) for _ in range(n)]
        kind = rng.random()
        if kind < 0.35:
            return tuple(values)
        if kind < 0.6:
            return list(values)
        if kind < 0.85 and n <= 3:
            return Point(*values)
        if kind < 0.93 and all(v is not None for v in values):
            return np.array(values, dtype=float)
        return tuple(values)

    def bad_pointlike():
        return rng.choice([
            "abc", ("a", "b", "c"), 5, 2.5, {"x": 1}, (1, 2, 3, 4),
            [None, None, None, None, None], object(), b"xy", (1, "2"),
            [[1, 2], [3, 4]], (), [],
        ])

    def move_kwargs(valid_only=False):
        kw = {}
        for axis in "xyz":
            if rng.random() < 0.6:
                kw[axis if rng.random() < 0.8 else axis.upper()] = \
                    coord(valid_only)
        if rng.random() < 0.3:
            kw["F"] = rng.choice([100, 1500.5, 0, None])
        if rng.random() < 0.15:
            kw["comment"] = rng.choice(["hello", "", "a;b"])
        if rng.random() < 0.1:
            kw["E"] = rng.choice([0.1, -2, np.float64(1.5)])
        if not valid_only and rng.random() < 0.06:
            kw[rng.choice(["x", "y", "z"])] = rng.choice(["str", [1], b"b"])
        return kw

    def mode_value():
        return rng.choice([
            DistanceMode.ABSOLUTE, DistanceMode.RELATIVE,
            "absolute", "relative", "ABSOLUTE", "bogus", "", None, 1,
            "G91", 91,
        ])

    # -- operations --------------------------------------------------------

    def op_move(g, depth):
        name = rng.choice(["move", "rapid", "move_absolute", "rapid_absolute"])
        if rng.random() < 0.5:
            kw = move_kwargs()
            return ("%s(**%s)" % (name, show(kw)),
                    lambda: getattr(g, name)(**kw))
        p = pointlike() if rng.random() < 0.9 else bad_pointlike()
        kw = {} if rng.random() < 0.7 else {"F": 900}
        return ("%s(%s, **%s)" % (name, show(p), show(kw)),
                lambda: getattr(g, name)(p, **kw))

    def op_set_mode(g, depth):
        m = mode_value()
        return ("set_distance_mode(%s)" % show(m),
                lambda: g.set_distance_mode(m))

    def op_convert(g, depth):
        which = rng.choice(["to_absolute", "to_distance_mode",
                            "to_absolute_list", "to_absolute_list"])
        if which == "to_absolute_list":
            r = rng.random()
            if r < 0.1:
                pts = []
            elif r < 0.2:
                pts = ()
            elif r < 0.3:
                pts = rng.choice(["ab", 5, None, [5], [None], [(1, 2), "zz"],
                                  [(1, 2), (1, 2, 3, 4)], [(1, None), ("a",)]])
            else:
                pts = [pointlike() if rng.random() < 0.92 else bad_pointlike()
                       for _ in range(rng.randint(1, 6))]
                if rng.random() < 0.3:
                    pts = tuple(pts)
            return ("to_absolute_list(%s)" % show(pts),
                    lambda: g.to_absolute_list(pts))
        p = pointlike() if rng.random() < 0.85 else bad_pointlike()
        if rng.random() < 0.05:
            p = None
        return ("%s(%s)" % (which, show(p)), lambda: getattr(g, which)(p))

    def op_set_axis(g, depth):
        kw = move_kwargs()
        return ("set_axis(**%s)" % show(kw), lambda: g.set_axis(**kw))

    def op_transform(g, depth):
        kind = rng.choice(["translate", "rotate", "scale", "reset"])
        if kind == "translate":
            a = [round(rng.uniform(-10, 10), 2) for _ in range(3)]
            return ("transform.translate%r" % (a,),
                    lambda: g.transform.translate(*a))
        if kind == "rotate":
            ang = rng.choice([90, 45, -30, 180, 12.5])
            ax = rng.choice(["x", "y", "z"])
            return ("transform.rotate(%r,%r)" % (ang, ax),
                    lambda: g.transform.rotate(ang, ax))
        if kind == "scale":
            s = rng.choice([2, 0.5, -1, 1.5])
            return ("transform.scale(%r)" % s, lambda: g.transform.scale(s))
        return ("transform.set_pivot/identity",
                lambda: g.transform._revert_state(
                    type(g.transform)()._copy_state()))

    def op_context(g, depth):
        cm_name = rng.choice(["absolute_mode", "relative_mode"])
        inner = [pick_op(g, depth + 1) for _ in range(rng.randint(0, 4))]
        ending = rng.choice(["ok", "ok", "ok", "boom", "stopiter",
                             "genexit", "switch", "corrupt"])

        def run():
            with getattr(g, cm_name)() as value:
                log.append("  entered %s -> %s" % (cm_name, show(value)))
                snapshot(g)
                for label, fn in inner:
                    attempt("  " * (depth + 1) + label, fn, g)
                if ending == "boom":
                    raise Boom("body failed")
                if ending == "stopiter":
                    raise StopIteration("body stop")
                if ending == "genexit":
                    raise GeneratorExit()
                if ending == "switch":
                    g.set_distance_mode(rng_choice_mode)
                if ending == "corrupt":
                    g._distance_mode = corrupt_value
            return "left"

        rng_choice_mode = rng.choice(["absolute", "relative"])
        corrupt_value = rng.choice(["relative", "absolute", None, 7,
                                    DistanceMode.RELATIVE])
        return ("with %s() [%d ops, end=%s/%s/%s]" % (
            cm_name, len(inner), ending, rng_choice_mode,
            show(corrupt_value)), run)

    def op_decorator(g, depth):
        cm_name = rng.choice(["absolute_mode", "relative_mode"])
        kw = move_kwargs(valid_only=True)

        def run():
            cm = getattr(g, cm_name)()
            log.append("  cm type %s" % type(cm).__name__)

            @cm
            def body():
                g.move(**kw)
                return "decorated"

            return body()

        return ("decorator %s move(**%s)" % (cm_name, show(kw)), run)

    def op_manual_cm(g, depth):
        """Enter without leaving, or leave twice."""
        cm_name = rng.choice(["absolute_mode", "relative_mode"])
        variant = rng.choice(["enter_only", "double_exit", "exit_with_exc"])

        def run():
            cm = getattr(g, cm_name)()
            cm.__enter__()
            snapshot(g)
            if variant == "enter_only":
                del cm
                return "abandoned"
            if variant == "double_exit":
                cm.__exit__(None, None, None)
                snapshot(g)
                return cm.__exit__(None, None, None)
            exc = Boom("manual")
            return cm.__exit__(Boom, exc, None)

        return ("manual %s %s" % (cm_name, variant), run)

    def op_trace(g, depth):
        if not isinstance(g, GCodeBuilder):
            return op_move(g, depth)
        kind = rng.choice(["polyline", "polyline", "spline", "arc", "circle",
                           "arc_radius", "helix", "thread", "spiral",
                           "parametric"])
        valid = rng.random() < 0.8
        if kind in ("polyline", "spline"):
            pts = [pointlike(valid) for _ in range(rng.randint(0, 5))]
            if not valid and rng.random() < 0.4:
                pts.append(bad_pointlike())
            return ("trace.%s(%s)" % (kind, show(pts)),
                    lambda: getattr(g.trace, kind)(pts))
        if kind == "arc":
            r = rng.choice([5, 10, 2.5])
            target, center = rng.choice([
                ((r, -r), (0, -r)), ((r, r), (r, 0)), ((2 * r, 0), (r, 0)),
                ((r, r, 3), (r, 0)), ((r, 1), (0, -r)), ((0, 0), (r, 0)),
            ])
            if not valid:
                target = pointlike()
            return ("trace.arc(%s,%s)" % (show(target), show(center)),
                    lambda: g.trace.arc(target, center))
        if kind == "circle":
            c = pointlike(valid)
            return ("trace.circle(%s)" % show(c), lambda: g.trace.circle(c))
        if kind == "arc_radius":
            t = pointlike(valid)
            r = rng.choice([10, -10, 100, 0.1, 0, 25.5])
            return ("trace.arc_radius(%s,%r)" % (show(t), r),
                    lambda: g.trace.arc_radius(t, r))
        if kind == "helix":
            t = pointlike(valid)
            c = pointlike(True)
            n = rng.choice([1, 2, 0, -1])
            return ("trace.helix(%s,%s,%r)" % (show(t), show(c), n),
                    lambda: g.trace.helix(t, c, n))
        if kind == "thread":
            t = pointlike(valid)
            pitch = rng.choice([1, 0.5, 0, -1, 3])
            return ("trace.thread(%s,%r)" % (show(t), pitch),
                    lambda: g.trace.thread(t, pitch))
        if kind == "spiral":
            t = pointlike(valid)
            n = rng.choice([1, 2, 0])
            return ("trace.spiral(%s,%r)" % (show(t), n),
                    lambda: g.trace.spiral(t, n))
        amp = rng.choice([3, 8])

        def fn(thetas):
            return np.column_stack((amp * thetas, amp * np.sin(thetas * 6),
                                    np.zeros(thetas.shape)))

        length = rng.choice([5, 12.5, 0, -1])
        return ("trace.parametric(amp=%r,len=%r)" % (amp, length),
                lambda: g.trace.parametric(fn, length))

    OPS = [(op_move, 30), (op_set_mode, 10), (op_convert, 18),
           (op_set_axis, 4), (op_transform, 5), (op_context, 14),
           (op_decorator, 2), (op_manual_cm, 3), (op_trace, 14)]

    def pick_op(g, depth):
        choices = [o for o, w in OPS for _ in range(w)
                   if not (depth >= 3 and o is op_context)]
        return rng.choice(choices)(g, depth)

    # -- scenarios ---------------------------------------------------------

    for index in range(N_SCENARIOS):
        cls = GCodeBuilder if rng.random() < 0.6 else GCodeCore
        cfg = {}
        if rng.random() < 0.3:
            cfg["decimal_places"] = rng.choice([0, 2, 8])
        log.append("#### scenario %d %s %r" % (index, cls.__name__, cfg))
        g = cls(**cfg)
        fail_at = rng.randint(1, 12) if rng.random() < 0.25 else None
        writer = RecWriter(fail_at, rng.choice(["device", "internal"]))
        g.add_writer(writer)
        if rng.random() < 0.2:
            g.add_writer(RecWriter())

        if isinstance(g, GCodeBuilder):
            if rng.random() < 0.35:
                def hook(origin, target, params, state, _i=index):
                    log.append("H %s -> %s mode=%r" % (
                        show(origin), show(target), state.distance_mode))
                    return params
                g.add_hook(hook)
            if rng.random() < 0.5:
                d = rng.choice(["cw", "ccw"])
                attempt("set_direction(%r)" % d,
                        lambda: g.set_direction(d), g)
            if rng.random() < 0.5:
                res = rng.choice([0.5, 1, 2.5])
                attempt("set_resolution(%r)" % res,
                        lambda: g.set_resolution(res), g)

        snapshot(g)
        start = rng.random()
        if start < 0.5:
            kw = {a: number(True) for a in "xyz"}
            attempt("start move(**%s)" % show(kw), lambda: g.move(**kw), g)
        elif start < 0.7:
            kw = {"x": number(True)}
            attempt("start set_axis(**%s)" % show(kw),
                    lambda: g.set_axis(**kw), g)
        if rng.random() < 0.5:
            attempt("start set_distance_mode('relative')",
                    lambda: g.set_distance_mode("relative"), g)

        for _ in range(rng.randint(3, 12)):
            label, fn = pick_op(g, 0)
            attempt(label, fn, g)

        attempt("teardown", lambda: g.teardown(), g)

    # -- C11 style paired run: same path in both modes ---------------------

    for index in range(60):
        waypoints = [Point(*(round(rng.uniform(-30, 30), 3) for _ in "xyz"))
                     for _ in range(rng.randint(1, 6))]
        origin = Point(*(round(rng.uniform(-5, 5), 3) for _ in "xyz"))
        for mode in ("absolute", "relative"):
            log.append("#### paired %d %s" % (index, mode))
            g = GCodeBuilder()
            g.add_writer(RecWriter())
            g.move(origin)
            g.set_distance_mode(mode)
            current = origin
            targets = []
            for wp in waypoints:
                targets.append(wp - current if mode == "relative" else wp)
                current = wp
            attempt("to_absolute_list", lambda: g.to_absolute_list(targets), g)
            attempt("polyline", lambda: g.trace.polyline(targets), g)
            back = origin - current if mode == "relative" else origin
            attempt("move back", lambda: g.move(back), g)
            with g.absolute_mode():
                attempt("abs move", lambda: g.move(waypoints[0]), g)
                with g.relative_mode():
                    attempt("rel move", lambda: g.move(1, 1, 1), g)
                snapshot(g)
            snapshot(g)
            attempt("move_absolute", lambda: g.move_absolute(origin), g)

    json.dump(log, sys.stdout)


# ---------------------------------------------------------------------------
# Parent: run both trees and compare
# ---------------------------------------------------------------------------

def run_tree(root):
    env = dict(os.environ)
    env["PYTHONPATH"] = root
    env["PYTHONHASHSEED"] = "0"
    env["PYTHONDONTWRITEBYTECODE"] = "1"
    proc = subprocess.run(
        [sys.executable, os.path.abspath(__file__), "--worker", root],
        env=env, cwd="/tmp/twin-C11", stdin=subprocess.DEVNULL,
        stdout=subprocess.PIPE, stderr=subprocess.PIPE, timeout=500)
    if proc.returncode != 0:
        sys.stderr.write(proc.stderr.decode("utf-8", "replace")[-4000:])
        raise SystemExit("worker for %s failed (%d)" % (root, proc.returncode))
    return json.loads(proc.stdout.decode("utf-8"))


def main():
    transcripts = [run_tree(root) for root in TREES]
    a, b = transcripts
    for i, (la, lb) in enumerate(zip(a, b)):
        if la != lb:
            print("MISMATCH at entry %d" % i)
            for line in a[max(0, i - 6):i]:
                print("   ", line)
            print("  %s: %s" % (TREES[0], la))
            print("  %s: %s" % (TREES[1], lb))
            raise SystemExit(1)
    assert len(a) == len(b), (len(a), len(b))

    kinds = {}
    for line in a:
        kinds[line[:1]] = kinds.get(line[:1], 0) + 1
    excs = {}
    for line in a:
        if line.startswith("! "):
            name = line[2:].split(":")[0]
            excs[name] = excs.get(name, 0) + 1
    print("entries: %d  calls: %d  returns: %d  exceptions: %d  "
          "written lines: %d" % (len(a), kinds.get(">", 0), kinds.get("=", 0),
                                 kinds.get("!", 0), kinds.get("W", 0)))
    print("exception types:", dict(sorted(excs.items())))
    print("IDENTICAL transcripts for", " and ".join(TREES))


if __name__ == "__main__":
    if len(sys.argv) > 2 and sys.argv[1] == "--worker":
        worker(sys.argv[2])
    else:
        main()
