#!/usr/bin/env python
"""Differential check for the C16 refactoring (printcore reader path and
PrintrunWriter._on_shutdown_signal).

Parent mode: runs this very file as a child with PYTHONPATH=/repo and with
PYTHONPATH=/tmp/wtW-C16, compares the two JSON transcripts, exits 0 if equal.
Child mode (--child): drives the library with seeded inputs against in-process
fake devices and prints the transcript.
"""

import json
import os
import subprocess
import sys

TREES = ["/repo", "/tmp/wtW-C16"]


def parent():
    outs = []
    for tree in TREES:
        env = dict(os.environ, PYTHONPATH=tree, PYTHONHASHSEED="0")
        proc = subprocess.run(
            [sys.executable, os.path.abspath(__file__), "--child"],
            env=env, stdin=subprocess.DEVNULL, stdout=subprocess.PIPE,
            stderr=subprocess.PIPE, timeout=240, cwd="/tmp")
        if proc.returncode != 0:
            sys.stderr.write(proc.stderr.decode()[-4000:])
            print("child failed for", tree, proc.returncode)
            return 2
        data = json.loads(proc.stdout.decode())
        assert data["tree"].startswith(tree), (data["tree"], tree)
        outs.append(data["transcript"])
    a, b = outs
    print("entries:", len(a), len(b))
    if a != b:
        for i, (x, y) in enumerate(zip(a, b)):
            if x != y:
                print("first difference at entry", i)
                print(" repo:", json.dumps(x)[:2000])
                print(" work:", json.dumps(y)[:2000])
                break
        print("TRANSCRIPTS DIFFER")
        return 1
    kinds = {}
    for entry in a:
        kinds[entry["kind"]] = kinds.get(entry["kind"], 0) + 1
    print("kinds:", kinds)
    print("IDENTICAL")
    return 0


# ---------------------------------------------------------------------------
# child
# ---------------------------------------------------------------------------

def child():
    import faulthandler
    import logging
    import queue
    import random
    import signal
    import threading
    import time

    faulthandler.dump_traceback_later(150, exit=True)

    import gscrib
    import importlib
    pc_mod = importlib.import_module('gscrib.printrun.printcore')
    printcore = pc_mod.printcore
    from gscrib.printrun import device as device_mod
    from gscrib.writers import printrun_writer as pw_mod
    from gscrib.writers.printrun_writer import PrintrunWriter
    from gscrib import excepts

    transcript = []

    # ---- log capture (single threaded layers only) ----------------------
    class Capture(logging.Handler):
        def __init__(self):
            super().__init__(level=logging.DEBUG)
            self.records = []
            self.enabled = False

        def emit(self, record):
            if not self.enabled:
                return
            try:
                text = record.getMessage()
            except Exception as e:  # pragma: no cover
                text = "<unformattable %s>" % type(e).__name__
            if "Traceback (most recent call last)" in text:
                head = text.split("Traceback (most recent call last)")[0]
                last = text.strip().splitlines()[-1]
                text = head + "<TB> " + last
            exc = None
            if record.exc_info and record.exc_info[0] is not None:
                exc = record.exc_info[0].__name__
            self.records.append([record.name, record.levelname, text, exc])

    capture = Capture()
    root = logging.getLogger()
    root.addHandler(capture)
    root.setLevel(logging.DEBUG)

    def start_capture():
        capture.records = []
        capture.enabled = True

    def stop_capture():
        capture.enabled = False
        return capture.records

    def strip_tb(text):
        # traceback texts name source files, line numbers and frames, which
        # differ between any two source trees; keep head and final line only
        marker = "Traceback (most recent call last)"
        if marker in text:
            return text.split(marker)[0] + "<TB> " + text.strip().splitlines()[-1]
        return text

    def describe(value):
        if value is None or isinstance(value, (bool, int, str)):
            return [type(value).__name__, value]
        if isinstance(value, float):
            return ["float", repr(value)]
        text = repr(value)
        if " object at 0x" in text:
            text = "<object>"  # memory addresses are not behaviour
        return [type(value).__name__, text]

    # ---- layer 1: deterministic drive of the reader path ----------------
    class ScriptDevice:
        """Fake device whose reads and write outcomes follow a script."""

        def __init__(self, reads, write_fail, flow):
            self.reads = list(reads)
            self.write_fail = list(write_fail)
            self.flow = flow
            self.written = []
            self.connected = True

        @property
        def is_connected(self):
            return self.connected and bool(self.reads)

        @property
        def has_flow_control(self):
            return self.flow

        def readline(self):
            if not self.reads:
                self.connected = False
                return b""
            item = self.reads.pop(0)
            if isinstance(item, tuple):
                kind, arg = item
                if kind == "deverr":
                    raise device_mod.DeviceError(arg)
                if kind == "oserr":
                    raise OSError(arg)
            return item

        def write(self, data):
            self.written.append(data.decode("utf-8", "replace"))
            fail = self.write_fail.pop(0) if self.write_fail else False
            if fail:
                raise device_mod.DeviceError("write failed")

        def disconnect(self):
            self.connected = False

        def reset(self):
            pass

    class Handler:
        """Event handler recording calls; may raise or lack methods."""

        def __init__(self, name, events, mode):
            self._name = name
            self._events = events
            self._mode = mode

        def __getattr__(self, attr):
            if not attr.startswith("on_"):
                raise AttributeError(attr)
            if self._mode == "missing" and attr in ("on_recv", "on_online"):
                raise AttributeError(attr)

            def call(*args):
                self._events.append(
                    ["handler", self._name, attr, [describe(a) if not isinstance(a, str) else strip_tb(a) for a in args]])
                if self._mode == "raise":
                    raise RuntimeError("handler %s failed" % self._name)
                if self._mode == "exit" and attr == "on_recv":
                    raise SystemExit(3)
            return call

    LINES = [
        b"", b"", b"", b"\n", b"ok\n", b"ok", b"ok T:200 /210\n", b"start\n",
        b"Grbl 1.1h ['$' for help]\n", b"Grbl\n", b"T:20.5 B:30\n", b"x\n",
        b"o", b"k", b"echo: hello\n", b"DEBUG_ something\n", b"wait\n",
        b"Error: oops\n", b"error:20\n", b"ALARM:1\n", b"!! halt\n",
        b"<Idle|MPos:1.0,2.0,3.0|FS:500,8000>\n", b"hello printer\n",
        b"  ok\n", b"OK\n", b"rs N2 Expected checksum 67\n", b"Resend: 4\n",
        b"\xff\xfe garbage\n", b"caf\xc3\xa9\n", b"\xc3", None,
        ("deverr", "serial gone"), ("deverr", "café"), ("oserr", "boom"),
    ]

    def random_reads(rng, n):
        reads = []
        while len(reads) < n:
            roll = rng.random()
            if roll < 0.15:
                reads.extend([b""] * rng.choice([1, 3, 14, 15, 16, 31]))
            else:
                reads.append(rng.choice(LINES))
        return reads

    def make_core(rng, events):
        core = printcore()
        cb_mode = rng.choice(["none", "record", "record", "raise"])
        hmode = rng.choice(["none", "none", "one", "two", "raise", "missing", "exit"])
        if hmode == "one":
            core.addEventHandler(Handler("h1", events, "ok"))
        elif hmode == "two":
            core.addEventHandler(Handler("h1", events, "ok"))
            core.addEventHandler(Handler("h2", events, "raise"))
        elif hmode in ("raise", "missing", "exit"):
            core.addEventHandler(Handler("h1", events, hmode))
            core.addEventHandler(Handler("h2", events, "ok"))

        def recvcb(line):
            events.append(["recvcb", line])
            if cb_mode == "raise":
                raise ValueError("recvcb failed")

        def errorcb(msg):
            text = msg
            if "Traceback (most recent call last)" in text:
                text = "<TB> " + text.strip().splitlines()[-1]
            events.append(["errorcb", text])
            if cb_mode == "raise":
                raise KeyError("errorcb failed")

        def onlinecb():
            events.append(["onlinecb", core.online])
            if cb_mode == "raise":
                raise IndexError("onlinecb failed")

        def sendcb(command, gline):
            events.append(["sendcb", command])

        if cb_mode != "none":
            core.recvcb = recvcb
            core.errorcb = errorcb
            core.onlinecb = onlinecb
            core.sendcb = sendcb
        core.loud = rng.choice([True, False])
        core.port = rng.choice([None, "/dev/ttyFAKE", "host:23", 7])
        core.baud = rng.choice([None, 115200, 0, "fast"])
        return core, [cb_mode, hmode]

    def snapshot(core, dev):
        return {
            "online": describe(core.online),
            "stop_read_thread": describe(core.stop_read_thread),
            "send_line_numbers": describe(core._send_line_numbers),
            "writefailures": describe(core.writefailures),
            "clear": describe(core.clear),
            "log": list(core.log),
            "sent": list(core.sent),
            "sentlines": sorted([str(k), v] for k, v in core.sentlines.items()),
            "written": list(dev.written) if dev is not None else None,
            "remaining_reads": len(dev.reads) if dev is not None else None,
        }

    def run(kind, info, fn, core, dev, events):
        start_capture()
        result = None
        try:
            result = ["return", fn()]
        except BaseException as e:  # SystemExit from handlers must not escape in both trees
            result = ["raise", type(e).__name__, str(e)]
        logs = stop_capture()
        transcript.append({
            "kind": kind, "info": info, "result": result, "events": list(events),
            "logs": logs, "state": snapshot(core, dev),
        })

    rng = random.Random(160416)

    # _readline, several consecutive calls per core
    for case in range(150):
        events = []
        core, modes = make_core(rng, events)
        reads = random_reads(rng, rng.randint(1, 6))
        dev = ScriptDevice(reads, [], rng.choice([True, False]))
        core.printer = dev
        n_calls = len(reads) + 1

        def fn():
            out = []
            for _ in range(n_calls):
                try:
                    value = core._readline()
                    out.append(["ret", describe(value)])
                except Exception as e:
                    out.append(["exc", type(e).__name__, str(e)])
            return out
        run("readline", [case, modes, repr(reads), repr(core.port), repr(core.baud)],
            fn, core, dev, events)

    # _readline without a device at all
    for case in range(3):
        events = []
        core, modes = make_core(rng, events)
        run("readline-nodevice", [case, modes], core._readline, core, None, events)

    # logError with various payloads
    for case in range(40):
        events = []
        core, modes = make_core(rng, events)
        payload = rng.choice(["plain", "", "multi\nline", "café", None, 12, ("t",), "%s %d"])
        run("logError", [case, modes, repr(payload)],
            lambda: describe(core.logError(payload)), core, None, events)

    # _listen_until_online
    GREETINGS = [None, None, None, [], ["hello"], ("start",), ["start", 5], [5, "start"], "ab", 7]
    for case in range(200):
        events = []
        core, modes = make_core(rng, events)
        greet = rng.choice(GREETINGS)
        if greet is not None:
            core.greetings = greet
        reads = random_reads(rng, rng.randint(0, 40))
        fails = [rng.random() < rng.choice([0.0, 0.2, 0.9, 1.0]) for _ in range(12)]
        dev = ScriptDevice(reads, fails, rng.choice([True, False]))
        core.printer = dev
        pre = rng.choice(["none", "none", "online", "stopped", "noprinter", "failures"])
        if pre == "online":
            core.online = True
        elif pre == "stopped":
            core.stop_read_thread = True
        elif pre == "noprinter":
            core.printer = None
        elif pre == "failures":
            core.writefailures = 3
        run("listen_until_online", [case, modes, repr(greet), pre, repr(reads), fails],
            lambda: describe(core._listen_until_online()), core, dev, events)

    # full _listen loop on scripted devices (single threaded, finite scripts)
    for case in range(60):
        events = []
        core, modes = make_core(rng, events)
        reads = random_reads(rng, rng.randint(0, 30))
        dev = ScriptDevice(reads, [], rng.choice([True, False]))
        core.printer = dev
        core.printing = rng.choice([False, False, True])
        core.tempcb = lambda line: events.append(["tempcb", line])
        run("listen", [case, modes, repr(reads), core.printing],
            lambda: describe(core._listen()), core, dev, events)

    # ---- layer 2: PrintrunWriter._on_shutdown_signal ---------------------
    def make_writer(mode="serial"):
        return PrintrunWriter(mode, "localhost", "/dev/ttyFAKE" if mode == "serial" else "2323", 115200)

    class StubCore:
        def __init__(self, log, fail=None):
            self.online = True
            self.printing = False
            self.clear = True
            self.priqueue = queue.Queue()
            self._log = log
            self._fail = fail

        def cancelprint(self):
            self._log.append("cancelprint")
            if self._fail == "cancel-device":
                raise excepts.DeviceError("cancel failed")
            if self._fail == "cancel-value":
                raise ValueError("cancel value")
            if self._fail == "cancel-kbd":
                raise KeyboardInterrupt("kbd")

        def disconnect(self):
            self._log.append("core.disconnect")
            if self._fail == "disc-timeout":
                raise excepts.DeviceTimeoutError("slow")
            if self._fail == "disc-os":
                raise OSError("os")
            self.online = False

    FAILS = [None, None, "cancel-device", "cancel-value", "cancel-kbd", "disc-timeout", "disc-os"]
    for case in range(60):
        writer = make_writer(rng.choice(["serial", "socket"]))
        log = []
        fail = rng.choice(FAILS)
        has_device = rng.random() < 0.8
        if has_device:
            writer._device = StubCore(log, fail)
        pre_online = rng.choice([True, False])
        pre_ack = rng.choice([True, False])
        if pre_online:
            writer._online_event.set()
        if pre_ack:
            writer._ack_event.set()
        seen = []
        original_disconnect = writer.disconnect
        patched = rng.choice(["plain", "spy", "raise-gscrib", "raise-runtime"])

        def spy(wait=True, _w=writer, _o=original_disconnect, _p=patched):
            seen.append(["disconnect", describe(wait), _w._online_event.is_set(),
                         _w._ack_event.is_set(), _w._shutdown_requested])
            _w._online_event.clear()
            _w._ack_event.clear()
            if _p == "raise-gscrib":
                raise excepts.GscribError("inner gscrib")
            if _p == "raise-runtime":
                raise RuntimeError("inner runtime")
            return _o(wait)

        if patched != "plain":
            writer.disconnect = spy
        signum = rng.choice([signal.SIGTERM, signal.SIGINT])
        start_capture()
        try:
            result = ["return", describe(writer._on_shutdown_signal(signum, None))]
        except BaseException as e:
            cause = type(e.__cause__).__name__ if e.__cause__ is not None else None
            result = ["raise", type(e).__name__, str(e), cause]
        logs = stop_capture()
        transcript.append({
            "kind": "shutdown", "info": [case, fail, has_device, pre_online, pre_ack, patched],
            "result": result, "seen": seen, "log": log, "logs": logs,
            "state": [writer._shutdown_requested, writer._online_event.is_set(),
                      writer._ack_event.is_set(), writer._device is None,
                      describe(writer.is_connected),
                      type(writer._device_error).__name__],
        })
        # behaviour after shutdown was requested
        try:
            after = ["return", describe(writer.write(b"G1 X1\n")), describe(writer.connect())]
        except BaseException as e:
            after = ["raise", type(e).__name__, str(e)]
        transcript[-1]["after"] = after

    # ---- layer 3: threaded end-to-end through PrintrunWriter -------------
    EOF = object()

    class FirmwareDevice:
        scenario = None
        received = None

        def __init__(self, *args, **kwargs):
            self.q = queue.Queue()
            self.connected = False
            self.force_dtr = None
            self.sc = FirmwareDevice.scenario
            self.behaviours = list(self.sc["behaviours"])

        def connect(self, port=None, baudrate=None):
            FirmwareDevice.received.append("<connect %r %r>" % (port, baudrate))
            if self.sc["refuse"]:
                raise device_mod.DeviceError("connection refused")
            self.connected = True

        def disconnect(self):
            self.connected = False

        @property
        def is_connected(self):
            return self.connected

        @property
        def has_flow_control(self):
            return self.sc["flow"]

        def reset(self):
            pass

        def readline(self):
            try:
                item = self.q.get(timeout=0.01)
            except queue.Empty:
                return b""
            if item is EOF:
                return None
            return item

        def _push(self, items, latency):
            def push():
                for item in items:
                    self.q.put(item)
            if latency:
                timer = threading.Timer(latency, push)
                timer.daemon = True
                timer.start()
            else:
                push()

        def write(self, data):
            text = data.decode("utf-8")
            FirmwareDevice.received.append(text)
            if text == "G4 P0\n" and not self.behaviours_started():
                greeting = list(self.sc["greeting"])
                self._push(greeting, 0)
                if greeting[0].startswith(b"Grbl"):
                    # Grbl gets no M110, so the print thread started by the
                    # writer needs the acknowledgement of the probe; deliver
                    # it late enough to be ordered after startprint()
                    self._push([b"ok\n"], 0.4)
                return
            if "M110" in text:
                self._push([b"ok\n"], 0)
                return
            self._started = True
            if not self.behaviours:
                self._push([b"ok\n"], 0)
                return
            kind, latency, lines = self.behaviours.pop(0)
            if kind == "lost":
                self._push(list(lines) + [EOF], latency)
            else:
                self._push(list(lines), latency)

        def behaviours_started(self):
            return getattr(self, "_started", False)

    device_mod.Device = FirmwareDevice
    assert pc_mod.device is device_mod

    STATUS = [
        b"<Idle|MPos:1.000,2.500,-3.000|FS:500,8000>\n",
        b"<Run|WPos:4.000,5.000,6.000|FS:100,0>\n",
        b"X:10.00 Y:20.00 Z:0.30 E:0.00 Count X:800\n",
        b"echo:busy: processing\n",
        b"[PRB:7.000,8.000,9.000:1]\n",
        b"T:201.5 /210.0 B:60.1 /60.0\n",
        b"wait\n",
        b"[MSG:caf\xc3\xa9]\n",
    ]
    OKS = [b"ok\n", b"ok\n", b"OK\n", b"ok T:199.0 /200.0\n", b"ok X:1.5 Y:2.5\n", b"  ok  \n"]
    ERRS = [b"error:20\n", b"ALARM:1\n", b"!! printer halted\n", b"error: Unknown command\n"]
    GREET = [[b"ok\n"], [b"start\n"], [b"Grbl 1.1h ['$' for help]\n"], [b"T:20.0 /0.0\n"],
             [b"echo: booting\n", b"ok\n"]]
    STATEMENTS = [b"G1 X10 Y20\n", b"G0 Z5", b"  M114  \n", b"?\n", b"M105\n", b"G38.2 Z-10 F50\n",
                  b"G1 X1.5 ; comment\n", b"(msg)\n", b"G4 P0.1\n", b"M3 S1000\r\n", b"caf\xc3\xa9\n"]

    for case in range(36):
        n = rng.randint(1, 6)
        behaviours = []
        statements = []
        for i in range(n):
            statements.append(rng.choice(STATEMENTS))
            roll = rng.random()
            latency = rng.choice([0, 0, 0.005, 0.03])
            pre = [rng.choice(STATUS) for _ in range(rng.choice([0, 0, 1, 2, 3]))]
            if roll < 0.7:
                behaviours.append(("ok", latency, pre + [rng.choice(OKS)]))
            elif roll < 0.92:
                behaviours.append(("error", latency, pre + [rng.choice(ERRS)]))
            else:
                behaviours.append(("lost", latency, pre))
                break
        statements = statements[:len(behaviours)]
        if case % 9 == 8:
            statements.append("not-bytes")
            behaviours.append(("ok", 0, [b"ok\n"]))
        scenario = {
            "behaviours": behaviours, "greeting": rng.choice(GREET),
            "flow": rng.choice([False, False, True]), "refuse": case % 12 == 11,
        }
        sys.stderr.write('scenario %d %r\n' % (case, scenario)); sys.stderr.flush()
        FirmwareDevice.scenario = scenario
        FirmwareDevice.received = []
        mode = rng.choice(["serial", "socket"])
        writer = make_writer(mode)
        writer.set_timeout(5)
        steps = []
        lost = False
        # Connect first and let the line-number reset (M110) that the print
        # thread sends on its way out be acknowledged. Both trees share a
        # timing race there (a late "ok" for that M110 can acknowledge the
        # first statement), which would make the transcript of EITHER tree
        # differ from run to run; it is unrelated to the refactored code.
        try:
            steps.append(["connect", type(writer.connect()).__name__])
        except BaseException as e:
            cause = type(e.__cause__).__name__ if e.__cause__ is not None else None
            steps.append(["connect-raise", type(e).__name__, str(e), cause])
        time.sleep(0.3)
        for statement, behaviour in zip(statements, behaviours):
            try:
                steps.append(["return", describe(writer.write(statement))])
            except BaseException as e:
                cause = type(e.__cause__).__name__ if e.__cause__ is not None else None
                steps.append(["raise", type(e).__name__, str(e), cause])
            steps.append([describe(writer.get_parameter(k)) for k in "XYZFSTBE"])
            steps.append(len(FirmwareDevice.received))
            if behaviour[0] == "lost" or scenario["refuse"]:
                lost = True
                break
        wait = (not lost) and rng.choice([True, True, False])
        try:
            steps.append(["disconnect", describe(writer.disconnect(wait))])
        except BaseException as e:
            steps.append(["disconnect-raise", type(e).__name__, str(e)])
        steps.append([describe(writer.is_connected), writer._device is None])
        transcript.append({
            "kind": "writer", "info": [case, mode, repr(scenario), repr(statements), wait],
            "steps": steps, "received": list(FirmwareDevice.received),
        })

    faulthandler.cancel_dump_traceback_later()
    sys.stdout.write(json.dumps({"tree": os.path.dirname(os.path.dirname(gscrib.__file__)) + "/",
                                 "transcript": transcript}))
    sys.stdout.flush()
    os._exit(0)


if __name__ == "__main__":
    if "--child" in sys.argv:
        child()
    else:
        sys.exit(parent())
