#!/venv/bin/python
"""Differential check for the C19 refactoring (RasterHeightMap).

Runs the same seeded scenario against /repo (original) and /tmp/wtT-C19
(refactored) in two separate subprocesses, collects a transcript of all
observable results (return values bit-exact, array dtype/shape/bytes,
object state, exception type names) and asserts both are identical.

Usage: /venv/bin/python /tmp/twin-C19/equiv.py        (exit status 0 == same)
"""

import json
import os
import subprocess
import sys

TREES = {"orig": "/repo", "twin": "/tmp/wtT-C19"}
SEED = 190019


# --------------------------------------------------------------------------
# child: build the transcript for whichever tree is on PYTHONPATH
# --------------------------------------------------------------------------

def describe(value):
    """Bit-exact, JSON-friendly description of a result."""

    import numpy

    if isinstance(value, numpy.ndarray):
        return {
            "kind": "ndarray",
            "dtype": str(value.dtype),
            "shape": list(value.shape),
            "c_contig": bool(value.flags["C_CONTIGUOUS"]),
            "writeable": bool(value.flags["WRITEABLE"]),
            "owndata": bool(value.flags["OWNDATA"]),
            "bytes": numpy.ascontiguousarray(value).tobytes().hex(),
            "repr": repr(value.tolist()),
        }

    if isinstance(value, numpy.generic):
        return {
            "kind": type(value).__name__,
            "bytes": value.tobytes().hex(),
            "repr": repr(value),
        }

    if isinstance(value, float):
        return {"kind": "float", "hex": value.hex() if value == value else "nan"}

    return {"kind": type(value).__name__, "repr": repr(value)}


def attempt(log, label, func, *args, **kwargs):
    import warnings

    with warnings.catch_warnings(record=True) as caught:
        warnings.simplefilter("always")

        try:
            outcome = {"ok": describe(func(*args, **kwargs))}
        except BaseException as e:  # noqa: transcript wants every type
            if isinstance(e, (KeyboardInterrupt, SystemExit)):
                raise
            outcome = {"exc": type(e).__name__}

    outcome["warnings"] = sorted(w.category.__name__ for w in caught)
    log.append([label, outcome])


def state(log, label, hmap):
    entry = {
        "scale": describe(hmap._scale_z),
        "tolerance": describe(hmap._tolerance),
    }

    if hasattr(hmap, "_height_map"):
        entry["map"] = describe(hmap._height_map)
        entry["width"] = describe(hmap.get_width())
        entry["height"] = describe(hmap.get_height())

    log.append([label + ":state", entry])


def make_images(rng):
    import numpy

    images = []

    for index in range(14):
        height = int(rng.integers(4, 24))
        width = int(rng.integers(4, 24))
        kind = index % 7

        if kind == 0:
            image = rng.integers(0, 256, (height, width)).astype(numpy.uint8)
        elif kind == 1:
            image = rng.integers(0, 65536, (height, width)).astype(numpy.uint16)
        elif kind == 2:   # constant image
            image = numpy.full((height, width), 200, dtype=numpy.uint8)
        elif kind == 3:   # horizontal ramp
            row = numpy.linspace(0, 65535, width).astype(numpy.uint16)
            image = numpy.tile(row, (height, 1))
        elif kind == 4:   # vertical steps
            col = (numpy.arange(height) // 2 * 40 % 256).astype(numpy.uint8)
            image = numpy.tile(col[:, None], (1, width))
        elif kind == 5:   # all black
            image = numpy.zeros((height, width), dtype=numpy.uint8)
        else:             # non integer dtype is divided by 255 as well
            image = rng.random((height, width)) * 255.0

        images.append(image)

    return images


def query_values(rng, size):
    import numpy
    from fractions import Fraction

    fixed = [
        0, -0.0, 0.0, -1, -1e-9, 0.5, 1, size - 1, size - 1.0, size - 0.5,
        size - 1e-9, size, size + 0.0, size + 3, float("nan"), float("inf"),
        float("-inf"), True, False, Fraction(1, 3), Fraction(-1, 3),
        numpy.float64(1.25), numpy.float32(2.5), numpy.int64(size - 1),
        numpy.int64(size), numpy.int32(-2), numpy.float64("nan"),
        numpy.uint8(3), 10 ** 30, -10 ** 30, 1e308,
    ]

    randoms = [float(rng.uniform(-3, size + 3)) for _ in range(8)]
    randoms += [int(rng.integers(-3, size + 3)) for _ in range(6)]

    return fixed, randoms


def make_lines(rng, width, height):
    import numpy

    w, h = width, height

    lines = [
        [0, 0, w - 1, h - 1],
        (0.0, 0.0, float(w - 1), 0.0),
        [w - 1, h - 1, 0, 0],
        [0, h - 1, w - 1, 0],
        [2, 2, 2, 2],                           # zero length
        [0.4, 0.4, 0.6, 0.6],                   # rounds to neighbours
        [0.5, 1.5, 2.5, 3.5],                   # banker's rounding
        [-0.5, -0.4, 2.49, 2.51],
        [-0.0, -0.0, 3.0, 1.0],
        [-5, -5, w + 5, h + 5],                 # crosses the whole image
        [-5, 2, -1, 2],                         # fully outside
        [w, 0, w + 4, 3],
        [0, h, 3, h + 2],
        [w - 1, 0, w, 0],                       # leaves by one pixel
        numpy.array([0, 1, w - 1, 1]),          # int array
        numpy.array([0.2, 1.7, w - 1.2, 2.2], dtype=numpy.float32),
        numpy.array([1, 1, 3, 3], dtype=numpy.uint8),
        ["0", "1", "3", "2"],                   # convertible strings
        [True, False, 3, 3],
        [0, 0, 1],                              # wrong sizes
        [0, 0, 1, 1, 2],
        [],
        [[0, 0], [1, 1]],
        numpy.zeros((4, 1)),
        numpy.zeros((1, 4)),
        [0, 0, float("nan"), 1],                # not roundable
        [0, 0, float("inf"), 1],
        [float("-inf"), 0, 1, 1],
        [0, 0, 1e30, 1],                        # huge pixel counts are cut
        ["a", 0, 1, 1],
        [None, 0, 1, 1],
        [0, 0, 1, 1 + 2j],
        None,
        "0 0 1 1",
        "0011",
        7,
        7.5,
        {"a": 1},
        (i for i in range(4)),
    ]

    for _ in range(10):
        lines.append([float(v) for v in rng.uniform(-4, max(w, h) + 4, 4)])

    for _ in range(6):
        lines.append([
            int(rng.integers(0, w)), int(rng.integers(0, h)),
            int(rng.integers(0, w)), int(rng.integers(0, h)),
        ])

    return lines


def filter_cases(rng):
    import numpy

    nan = float("nan")
    inf = float("inf")

    cases = [
        numpy.array([[0, 0, 0.0], [1, 0, 0.005], [2, 0, 0.02],
                     [3, 0, 0.025], [4, 0, 0.1]]),
        numpy.array([[0, 0, 0.0]]),
        numpy.array([[0, 0, 0.0], [0, 0, 0.0]]),        # duplicate rows
        numpy.array([[0, 0, 1.0], [1, 0, 1.0], [0, 0, 1.0]]),
        numpy.array([[0, 0, nan], [1, 0, 1.0], [2, 0, nan]]),
        numpy.array([[0, 0, 0.0], [1, 0, nan], [2, 0, 0.0]]),
        numpy.array([[0, 0, 0.0], [1, 0, 0.5], [1, 0, nan]]),
        numpy.array([[nan, 0, 0.0], [nan, 0, 0.0]]),
        numpy.array([[0, 0, inf], [1, 0, inf], [2, 0, -inf]]),
        numpy.array([[0, 0, 0], [1, 0, 5], [2, 0, 5], [3, 0, 9]]),  # ints
        numpy.array([[0, 0, 0.0, 9.0], [1, 0, 2.0, 9.0]]),          # 4 cols
        numpy.array([[0, 0, 0.0], [1, 0, 2.0]], dtype=numpy.float32),
        numpy.array([]),
        numpy.zeros((0, 3)),
        numpy.zeros((3, 2)),
        numpy.zeros(3),
        [[0, 0, 0.0], [1, 0, 2.0], [2, 0, 2.5]],         # plain lists
        [(0, 0, 0.0), (1, 0, 0.1)],
        [],
        None,
    ]

    for _ in range(25):
        count = int(rng.integers(1, 30))
        points = numpy.column_stack((
            numpy.arange(count), rng.integers(0, 5, count),
            numpy.round(rng.uniform(0, 1, count), int(rng.integers(1, 4))),
        ))
        cases.append(points)

    tolerances = [0.0, 0.01, 0.1, 0.378, 0.5, 1.0, 5, nan, inf, -1.0,
                  numpy.float64(0.25), None, "x"]

    return cases, tolerances


def child():
    import numpy

    import gscrib
    from gscrib.heightmaps import RasterHeightMap, SparseHeightMap

    log = []
    rng = numpy.random.default_rng(SEED)

    # -- constructor corner cases ----------------------------------------
    for label, data in [
        ("none", None), ("list", [[1, 2], [3, 4]]),
        ("1d", numpy.zeros(8, dtype=numpy.uint8)),
        ("3d", numpy.zeros((5, 5, 3), dtype=numpy.uint8)),
        ("tiny", numpy.zeros((2, 2), dtype=numpy.uint8)),
        ("3x3", numpy.zeros((3, 3), dtype=numpy.uint8)),
        ("empty", numpy.zeros((0, 0), dtype=numpy.uint8)),
    ]:
        attempt(log, f"ctor:{label}", lambda d=data: type(RasterHeightMap(d)).__name__)

    attempt(log, "from_path:missing",
            lambda: RasterHeightMap.from_path("/nonexistent/zzz.png"))

    # -- main raster scenario --------------------------------------------
    scales = [1.0, 2.0, 0.5, 1e-3, 250.0, 3, float("inf"), 1e308]
    bad_scales = [0.0, -1.0, 0, float("nan"), "2", None, -0.0]
    tolerances = [0.378, 0.0, 0.01, 0.05, 0.2, 1.0, 1e-12, float("inf"),
                  float("nan"), 0]
    bad_tolerances = [-0.1, -1, "1", None, float("-inf")]

    for number, image in enumerate(make_images(rng)):
        tag = f"img{number}"
        hmap = RasterHeightMap(image)
        width, height = hmap.get_width(), hmap.get_height()
        state(log, tag, hmap)

        xs_fixed, xs_random = query_values(rng, width)
        ys_fixed, ys_random = query_values(rng, height)

        for round_number in range(3):
            rtag = f"{tag}:r{round_number}"

            if round_number > 0:
                scale = scales[int(rng.integers(0, len(scales)))]
                tol = tolerances[int(rng.integers(0, len(tolerances)))]
                attempt(log, f"{rtag}:set_scale({scale!r})", hmap.set_scale, scale)
                attempt(log, f"{rtag}:set_tolerance({tol!r})", hmap.set_tolerance, tol)

            bad = bad_scales[int(rng.integers(0, len(bad_scales)))]
            attempt(log, f"{rtag}:set_scale({bad!r})", hmap.set_scale, bad)
            bad = bad_tolerances[int(rng.integers(0, len(bad_tolerances)))]
            attempt(log, f"{rtag}:set_tolerance({bad!r})", hmap.set_tolerance, bad)
            state(log, rtag, hmap)

            # every stored sample, exactly
            grid = numpy.array([
                [hmap.get_depth_at(x, y) for x in range(width)]
                for y in range(height)
            ])
            log.append([f"{rtag}:grid", describe(grid)])

            # fixed corner values: x against a valid y and the reverse,
            # plus the diagonal of special values
            for i, x in enumerate(xs_fixed):
                attempt(log, f"{rtag}:depth(x={x!r},1)", hmap.get_depth_at, x, 1)
                attempt(log, f"{rtag}:depth(1,y={ys_fixed[i]!r})",
                        hmap.get_depth_at, 1, ys_fixed[i])
                attempt(log, f"{rtag}:depth({x!r},{ys_fixed[-1 - i]!r})",
                        hmap.get_depth_at, x, ys_fixed[-1 - i])

            for x, y in zip(xs_random, ys_random):
                attempt(log, f"{rtag}:depth({x!r},{y!r})", hmap.get_depth_at, x, y)

            for bad_x, bad_y in [("1", 1), (1, None), (1 + 0j, 1), ([1], 1),
                                 (numpy.array(1.0), 1), (numpy.array([1.0]), 1)]:
                attempt(log, f"{rtag}:depth({bad_x!r},{bad_y!r})",
                        hmap.get_depth_at, bad_x, bad_y)

            attempt(log, f"{rtag}:depth()", hmap.get_depth_at)
            attempt(log, f"{rtag}:depth(kw)", lambda: hmap.get_depth_at(y=1, x=2))

            for i, line in enumerate(make_lines(rng, width, height)):
                attempt(log, f"{rtag}:sample_path#{i}", hmap.sample_path, line)

            # private helpers called directly
            for i, line in enumerate([
                numpy.array([0.0, 0.0, width - 1.0, height - 1.0]),
                numpy.array([-2.0, 1.0, width + 2.0, 1.0]),
                numpy.array([1.0, 1.0, 1.0, 1.0]),
                numpy.array([0.0, 0.0, 1.0]),
                numpy.array([0.0, 0.0, 1.0, 1.0, 1.0]),
                numpy.array([0.0, float("nan"), 1.0, 1.0]),
                [0, 0, 3, 2],
                [0.5, 0.5, 2.5, 2.5],
            ]):
                attempt(log, f"{rtag}:_interpolate_line#{i}",
                        hmap._interpolate_line, line)

            state(log, rtag + ":after", hmap)

    # -- _filter_points in isolation ---------------------------------------
    hmap = RasterHeightMap(numpy.zeros((5, 5), dtype=numpy.uint8))
    cases, tols = filter_cases(rng)

    for i, points in enumerate(cases):
        before = describe(points)

        for tol in tols:
            attempt(log, f"filter#{i}:tol={tol!r}", hmap._filter_points, points, tol)

        # the helper must not modify its input, nor alias its output to it
        log.append([f"filter#{i}:unchanged", describe(points) == before])

    points = numpy.array([[0, 0, 0.0], [1, 0, 1.0], [2, 0, 2.0]])
    result = hmap._filter_points(points, 0.5)
    result[:] = -7.0
    log.append(["filter:alias", describe(points)])

    # -- untouched sibling, as a control -----------------------------------
    data = numpy.column_stack((
        rng.uniform(0, 20, 12), rng.uniform(0, 20, 12), rng.uniform(-1, 1, 12)
    ))
    sparse = SparseHeightMap(data)
    attempt(log, "sparse:set_tolerance", sparse.set_tolerance, 0.5)

    for i in range(10):
        line = [float(v) for v in rng.uniform(-3, 23, 4)]
        attempt(log, f"sparse:sample_path#{i}", sparse.sample_path, line)
        attempt(log, f"sparse:depth#{i}", sparse.get_depth_at, line[0], line[1])

    json.dump({"file": gscrib.__file__, "log": log}, sys.stdout)


# --------------------------------------------------------------------------
# parent: run both trees, compare
# --------------------------------------------------------------------------

def run_tree(name, path):
    env = dict(os.environ)
    env["PYTHONPATH"] = path
    env["PYTHONHASHSEED"] = "0"
    env["PYTHONDONTWRITEBYTECODE"] = "1"

    proc = subprocess.run(
        [sys.executable, os.path.abspath(__file__), "--child"],
        env=env, cwd="/tmp", stdin=subprocess.DEVNULL,
        stdout=subprocess.PIPE, stderr=subprocess.PIPE,
        timeout=600, text=True,
    )

    if proc.returncode != 0:
        sys.stderr.write(proc.stderr)
        raise SystemExit(f"{name}: child failed with {proc.returncode}")

    result = json.loads(proc.stdout)
    assert result["file"].startswith(path + "/"), (name, result["file"])

    return result["log"]


def main():
    if "--child" in sys.argv:
        return child()

    logs = {name: run_tree(name, path) for name, path in TREES.items()}
    orig, twin = logs["orig"], logs["twin"]

    for index, (a, b) in enumerate(zip(orig, twin)):
        if a != b:
            print(f"MISMATCH at entry {index}:")
            print("  orig:", json.dumps(a)[:600])
            print("  twin:", json.dumps(b)[:600])
            raise SystemExit(1)

    assert len(orig) == len(twin), (len(orig), len(twin))
    assert orig == twin

    raised = sum(1 for _, o in orig if isinstance(o, dict) and "exc" in o)
    kinds = sorted({o["exc"] for _, o in orig if isinstance(o, dict) and "exc" in o})

    print(f"identical transcripts: {len(orig)} entries, "
          f"{raised} of them exceptions ({', '.join(kinds)})")


if __name__ == "__main__":
    main()
