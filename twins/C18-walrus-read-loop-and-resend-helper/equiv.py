#!/usr/bin/env python
"""Differential check for the C18 read-path refactoring.

Runs the same seeded scenarios against /repo (reference) and /tmp/wtV-C18
(refactored) in two subprocesses and asserts that the transcripts match.

Covered code: gscrib.printrun.device.Device._readline_socket /
_readline_buf (socket chunk reassembly), gscrib.printrun.printcore._listen /
_listen_until_online (dispatching of received lines, temperature and online
notifications, resend parsing) and, on top of them, PrintrunWriter's parsing
of the reports into get_parameter() readings.

Only in-process fakes are used (fake socket file, fake selector, fake line
device); no threads, no hardware, no network.
"""

import json
import os
import subprocess
import sys

REFERENCE = "/repo"
REFACTORED = os.environ.get("EQUIV_REFACTORED", "/tmp/wtV-C18")
SEED = 180318
N_CASES = 320


# --------------------------------------------------------------------------
# Worker: runs inside a subprocess with PYTHONPATH pointing to one tree
# --------------------------------------------------------------------------

def worker(expected_root):
    import logging
    import random

    import gscrib
    from gscrib.printrun import device, printcore as printcore_module
    from gscrib.printrun.printcore import printcore
    from gscrib.writers.printrun_writer import PrintrunWriter

    root = os.path.realpath(expected_root)
    assert os.path.realpath(gscrib.__file__).startswith(root + os.sep), (
        gscrib.__file__, root)
    assert os.path.realpath(device.__file__).startswith(root + os.sep)

    # ---- log capture (tracebacks carry line numbers: keep last line) ----

    class Capture(logging.Handler):
        def __init__(self):
            super().__init__(logging.DEBUG)
            self.records = []

        def emit(self, record):
            try:
                text = record.getMessage()
            except Exception as e:  # pragma: no cover
                text = "<unformattable %s>" % type(e).__name__
            if "Traceback (most recent call last)" in text:
                head = text.split("Traceback (most recent call last)")[0]
                text = head + "TB:" + text.strip().splitlines()[-1]
            exc = None
            if record.exc_info and record.exc_info[0] is not None:
                exc = record.exc_info[0].__name__
            self.records.append([record.name, record.levelname, text, exc])

    capture = Capture()
    gscrib_logger = logging.getLogger("gscrib")
    gscrib_logger.setLevel(logging.DEBUG)
    gscrib_logger.addHandler(capture)
    gscrib_logger.propagate = False

    def take_logs():
        logs, capture.records = capture.records, []
        return logs

    # ---- fakes ----------------------------------------------------------

    class FakeSocketFile:
        """Scripted socket.SocketIO replacement."""

        def __init__(self, script, calls):
            self.script = list(script)
            self.calls = calls

        def read(self, size):
            self.calls.append(["read", size])
            if not self.script:
                return b''  # EOF once the script is exhausted
            item = self.script.pop(0)
            if isinstance(item, tuple) and item[0] == "select":
                # a select marker reached by read(): the previous read was
                # not an AGAIN; treat it as no data
                return None
            if isinstance(item, BaseException):
                raise item
            return item

        def write(self, data):
            self.calls.append(["write", repr(data)])

        def flush(self):
            self.calls.append(["flush"])

        def close(self):
            self.calls.append(["close"])

    class FakeSelector:
        def __init__(self, sockfile, calls):
            self.sockfile = sockfile
            self.calls = calls

        def select(self, timeout=None):
            self.calls.append(["select", timeout])
            script = self.sockfile.script
            if script and isinstance(script[0], tuple) \
                    and script[0][0] == "select":
                result = script.pop(0)[1]
                if isinstance(result, BaseException):
                    raise result
                return result
            return []

        def unregister(self, fileobj):
            self.calls.append(["unregister"])

        def close(self):
            self.calls.append(["selector-close"])

    class FakeRawSocket:
        def close(self):
            pass

    def make_socket_device(script, calls):
        dev = device.Device()
        dev.port = "localhost:4444"
        dev._parse_type()
        assert dev._type == "socket"
        dev._device = FakeRawSocket()
        dev._socketfile = FakeSocketFile(script, calls)
        dev._selector = FakeSelector(dev._socketfile, calls)
        dev._is_connected = True
        return dev

    class FakeLineDevice:
        """Line-level replacement of device.Device for printcore."""

        has_flow_control = False

        def __init__(self, lines, calls):
            self.lines = list(lines)
            self.calls = calls
            self.is_connected = True
            self.fail_writes = 0

        def readline(self):
            if not self.lines:
                return device.READ_EOF
            item = self.lines.pop(0)
            if isinstance(item, BaseException):
                raise item
            return item

        def write(self, data):
            self.calls.append(["write", repr(data)])
            if self.fail_writes > 0:
                self.fail_writes -= 1
                raise device.DeviceError("write failed")

        def disconnect(self):
            self.is_connected = False

    def stable_repr(value):
        # default reprs carry object addresses, which differ between runs
        import re
        return re.sub(r" at 0x[0-9a-fA-F]+", "", repr(value))

    class Recorder:
        """Event handler recording every notification."""

        def __init__(self, name, events, raising=()):
            self.name = name
            self.events = events
            self.raising = set(raising)

        def __getattr__(self, event):
            if not event.startswith("on_"):
                raise AttributeError(event)

            def notify(*args):
                self.events.append([self.name, event,
                                    [stable_repr(a) for a in args]])
                if event in self.raising:
                    raise RuntimeError("%s failed in %s" % (self.name, event))
            return notify

    class Incomplete:
        """Event handler without most of the methods."""

        def __init__(self, events):
            self.events = events

        def on_recv(self, line):
            self.events.append(["incomplete", "on_recv", [repr(line)]])

    # ---- input generation ----------------------------------------------

    def number(rng):
        kind = rng.randrange(12)
        if kind == 0:
            return str(rng.randint(-500, 500))
        if kind == 1:
            return "%.*f" % (rng.randint(0, 5), rng.uniform(-1000, 1000))
        if kind == 2:
            return "-0.0"
        if kind == 3:
            return "0"
        if kind == 4:
            return "%d." % rng.randint(-9, 9)
        if kind == 5:
            return ".%d" % rng.randint(0, 99)
        if kind == 6:  # malformed
            return rng.choice(["1.2.3", "-", "--1", "1-2", ".", "-.", "5-"])
        if kind == 7:
            return "%.3f" % rng.uniform(-1, 1)
        if kind == 8:
            return "%08.3f" % rng.uniform(0, 300)
        return "%.2f" % rng.uniform(-300, 300)

    def marlin_position(rng):
        axes = ["X", "Y", "Z", "E"]
        if rng.random() < 0.5:
            rng.shuffle(axes)
        if rng.random() < 0.3:
            axes = axes[:rng.randint(1, 4)]
        if rng.random() < 0.2:
            axes.append(rng.choice("ABCxyz"))
        head = " ".join("%s:%s" % (a, number(rng)) for a in axes)
        count = " ".join("%s:%d" % (a, rng.randint(-99999, 99999))
                         for a in "XYZ")
        sep = rng.choice([" Count ", " Count", " count "])
        text = head + sep + count
        if rng.random() < 0.2:
            text = "ok " + text
        return text

    def marlin_temperature(rng):
        fields = ["T:%s /%s" % (number(rng), number(rng)),
                  "B:%s /%s" % (number(rng), number(rng))]
        if rng.random() < 0.4:
            fields.append("T0:%s /%s" % (number(rng), number(rng)))
        if rng.random() < 0.4:
            fields.append("T1:%s /%s" % (number(rng), number(rng)))
        if rng.random() < 0.5:
            fields.append("@:%d B@:%d" % (rng.randint(0, 127),
                                          rng.randint(0, 127)))
        if rng.random() < 0.3:
            rng.shuffle(fields)
        if rng.random() < 0.2:
            fields.append("T:%s" % number(rng))  # repeated letter
        text = " ".join(fields)
        prefix = rng.choice(["ok ", "", "ok", " ok ", "OK "])
        return prefix + text

    def grbl_status(rng):
        coords = ",".join(number(rng) for _ in range(rng.choice([3, 3, 4, 6, 2, 7])))
        fields = ["%s:%s" % (rng.choice(["MPos", "WPos", "mpos"]), coords)]
        fs = rng.randrange(5)
        if fs == 0:
            fields.append("FS:%s,%s" % (number(rng), number(rng)))
        elif fs == 1:
            fields.append("F:%s" % number(rng))
        elif fs == 2:
            fields.append("FS:%s" % number(rng))
        elif fs == 3:
            fields.append("FS:%s,%s,%s" % (number(rng), number(rng), number(rng)))
        if rng.random() < 0.4:
            fields.append("WCO:%s,%s,%s" % (number(rng), number(rng), number(rng)))
        if rng.random() < 0.3:
            fields.append("Bf:15,128")
        if rng.random() < 0.3:
            fields.append("Ov:100,100,100")
        if rng.random() < 0.3:
            rng.shuffle(fields)
        state = rng.choice(["Idle", "Run", "Hold:0", "Alarm", "Jog"])
        text = "<%s|%s>" % (state, "|".join(fields))
        if rng.random() < 0.1:
            text = text[1:]  # no leading '<'
        return text

    def grbl_probe(rng):
        coords = ",".join(number(rng) for _ in range(rng.choice([3, 3, 3, 4, 1])))
        return "[PRB:%s:%d]" % (coords, rng.randint(0, 1))

    OTHER = [
        "ok", "ok 12", "OK", "okay T:1", "start", "Grbl 1.1h ['$' for help]",
        "Grbl", "echo:busy: processing", "error:20", "ALARM:1", "!! kill",
        "Error:Line Number is not Last Line Number+1, Last Line: 5",
        "Error", "DEBUG_ X:99 Y:98", "DEBUG_", "Resend: 12", "resend:N:7",
        "Resend:N8 ok", "RESEND 31", "rs N2 Expected checksum 67", "rs abc",
        "rs", "rs N: x 1_0 5", "Resend:", "rsync 4 5", "resend -3", "rs +4",
        "rs 1.5 6", "Resend: N:N 0012", "rs N٣", "ok T:20 rs 5",
        "Resend:9:10", "", " ", "x", "T:", "T:5", "echo: X:1.0",
        "X:1 x:2 X:3", "a:1 A:2", "9:1 0:2", "FS:1,2", "<FS:1,2", "PRB:5,6",
        "[MSG:Pgm End]", "$0=10", "ok N:", "wait", "Resend: 0",
        "rs N0 Expected checksum 3", "resend 00 7", "rs x -0 4", "Resend:N:0",
    ]

    def report(rng):
        kind = rng.randrange(10)
        if kind < 2:
            return marlin_position(rng)
        if kind < 4:
            return marlin_temperature(rng)
        if kind < 6:
            return grbl_status(rng)
        if kind < 7:
            return grbl_probe(rng)
        return rng.choice(OTHER)

    def encoded_lines(rng, count):
        lines = []
        for _ in range(count):
            data = report(rng).encode("utf-8")
            roll = rng.random()
            if roll < 0.04:
                data = b"\xff\xfeX:1 " + data  # rubbish: UnicodeDecodeError
            data += rng.choice([b"\n", b"\n", b"\r\n", b" \n"])
            lines.append(data)
        return lines

    def chunk_script(rng, lines):
        """Cut the byte stream into reads, with AGAIN/EOF/errors mixed in."""
        stream = b"".join(lines)
        if rng.random() < 0.3:
            stream += rng.choice([b"X:77", b"ok T:1", b"\r", b"<Idle|MPos:1,2"])
        script = []
        position = 0
        big = rng.random() < 0.3
        while position < len(stream):
            size = rng.randint(1, 300 if big else 40)
            piece = stream[position:position + size]
            position += size
            roll = rng.random()
            if roll < 0.10:
                script.append(None)
                script.append(("select", []))       # timeout: no data
            elif roll < 0.25:
                script.append(None)
                script.append(("select", [("key", 1)]))  # data arrived
            elif roll < 0.27:
                script.append(None)
                script.append(("select", [("key", 1)]))
                script.append(None)                  # ... but still nothing
            elif roll < 0.29:
                script.append(OSError("connection reset"))
            elif roll < 0.30:
                script.append(None)
                script.append(("select", OSError("bad selector")))
            elif roll < 0.31:
                script.append(b"")                   # premature EOF
            elif roll < 0.32:
                piece = bytearray(piece)             # bytes-like chunk
            script.append(piece)
        return script

    # ---- scenarios -------------------------------------------------------

    def describe(value):
        if value is None or isinstance(value, (bool, int, float, str)):
            return repr(value)
        return "%s:%r" % (type(value).__name__, value)

    def device_state(dev):
        return {
            "buffer": [describe(c) for c in dev._read_buffer],
            "connected": dev._is_connected,
            "is_connected": dev.is_connected,
        }

    def scenario_device(rng):
        """Device.readline() on a scripted socket."""
        calls = []
        script = chunk_script(rng, encoded_lines(rng, rng.randint(0, 8)))
        dev = make_socket_device(script, calls)
        out = []
        errors = 0
        eofs = 0
        for _ in range(400):
            try:
                result = dev.readline()
                out.append(["ret", describe(result), device_state(dev)])
                if result is None:
                    eofs += 1
                    if eofs == 2:
                        break
            except Exception as e:
                cause = getattr(e, "cause", None)
                out.append(["exc", type(e).__name__, str(e),
                            type(cause).__name__, device_state(dev)])
                errors += 1
                if errors > 6:
                    break
        return {"out": out, "calls": calls, "left": len(dev._socketfile.script)}

    def scenario_buffer(rng):
        """_readline_buf() on arbitrary (also invalid) buffers."""
        def piece():
            kind = rng.randrange(12)
            body = bytes(rng.choice(b"ab\n\r :XY1.") for _ in range(rng.randint(0, 6)))
            if kind == 0:
                return "text\n"           # str: TypeError
            if kind == 1:
                return bytearray(body)
            if kind == 2:
                return None               # AttributeError
            if kind == 3:
                return b""
            if kind == 4:
                return b"\n"
            if kind == 5:
                return 7
            return body

        out = []
        dev = make_socket_device([], [])
        for _ in range(6):
            dev._read_buffer = [piece() for _ in range(rng.randint(0, 4))]
            before = [describe(c) for c in dev._read_buffer]
            for _ in range(3):
                try:
                    result = ["ret", describe(dev._readline_buf())]
                except Exception as e:
                    result = ["exc", type(e).__name__]
                out.append([before, result,
                            [describe(c) for c in dev._read_buffer]])
        # readline on a prepared, possibly invalid, buffer
        calls = []
        dev = make_socket_device([rng.choice([b"", None, b"Z:1\n", b"Z:2"])], calls)
        dev._read_buffer = [piece() for _ in range(rng.randint(0, 3))]
        for _ in range(4):
            try:
                out.append(["ret", describe(dev.readline()), device_state(dev)])
            except Exception as e:
                out.append(["exc", type(e).__name__, device_state(dev)])
        out.append(calls)
        return out

    LETTERS = ["X", "Y", "Z", "E", "A", "B", "C", "T", "F", "S", "x", "t",
               "T0", "MPos", "FS", "PRB", "0", "9", "@", "N", "W", "I"]

    def make_writer_and_core(rng, events, snapshots):
        writer = PrintrunWriter("socket", "localhost", "4444", 0)
        core = writer._create_device()
        assert isinstance(core, printcore)
        writer._device = core
        parse = core.recvcb

        def on_message(line):
            try:
                parse(line)
            finally:
                snapshots.append([
                    repr(line),
                    sorted((k, repr(v)) for k, v in writer._current_params.items()),
                    sorted(writer._reported_params),
                    type(writer._device_error).__name__,
                    str(writer._device_error),
                    writer._ack_event.is_set(),
                    writer._online_event.is_set(),
                ])
                writer._ack_event.clear()

        core.recvcb = on_message

        handlers = rng.randrange(5)
        if handlers >= 1:
            core.addEventHandler(Recorder("first", events))
        if handlers >= 2:
            core.addEventHandler(Recorder(
                "raiser", events,
                raising=rng.sample(["on_temp", "on_online", "on_recv",
                                    "on_error", "on_send"], rng.randint(0, 3))))
        if handlers >= 3:
            core.addEventHandler(Incomplete(events))
        if handlers >= 4:
            core.addEventHandler(Recorder("last", events))

        temp = rng.randrange(4)
        if temp == 1:
            core.tempcb = lambda line: events.append(["tempcb", repr(line)])
        elif temp == 2:
            def failing(line):
                events.append(["tempcb!", repr(line)])
                raise ValueError("tempcb failed")
            core.tempcb = failing

        online = rng.randrange(5)
        if online == 0:
            core.onlinecb = None
        elif online == 1:
            original = core.onlinecb

            def failing_online():
                original()
                events.append(["onlinecb!"])
                raise KeyError("onlinecb failed")
            core.onlinecb = failing_online

        greetings = rng.randrange(8)
        if greetings == 0:
            core.greetings = []
        elif greetings == 1:
            core.greetings = ("start", "Grbl ", "echo:", "<")
        elif greetings == 2:
            core.greetings = ["T:", "["]
        elif greetings == 3:
            core.greetings = "so"        # a plain string: letters
        elif greetings == 4 and rng.random() < 0.5:
            core.greetings = ["start", 5]   # TypeError in startswith

        core.printing = rng.random() < 0.3
        core.online = rng.random() < 0.15
        if rng.random() < 0.2:
            core.resendfrom = rng.randint(0, 50)
        return writer, core

    def final_state(writer, core):
        return {
            "params": [[n, repr(writer.get_parameter(n))] for n in LETTERS],
            "all": sorted((k, repr(v)) for k, v in writer._current_params.items()),
            "clear": repr(core.clear),
            "online": core.online,
            "printing": core.printing,
            "resendfrom": repr(core.resendfrom),
            "line_numbers": core._send_line_numbers,
            "stop_read": core.stop_read_thread,
            "writefailures": core.writefailures,
            "sent": list(core.sent),
            "log": list(core.log),
            "is_connected": writer.is_connected,
            "error": [type(writer._device_error).__name__,
                      str(writer._device_error)],
        }

    def run_listen(core):
        try:
            return ["ret", repr(core._listen())]
        except Exception as e:
            return ["exc", type(e).__name__, str(e)]

    def scenario_chain(rng):
        """chunks -> Device -> printcore._listen -> PrintrunWriter readings."""
        events, snapshots, calls = [], [], []
        writer, core = make_writer_and_core(rng, events, snapshots)
        script = chunk_script(rng, encoded_lines(rng, rng.randint(0, 10)))
        dev = make_socket_device(script, calls)
        core.printer = dev
        outcomes = []
        for _ in range(3):  # listen again after errors, as a reconnect would
            outcomes.append(run_listen(core))
            core.stop_read_thread = False
            if not dev._socketfile.script:
                break
        return {"outcomes": outcomes, "events": events,
                "snapshots": snapshots, "calls": calls,
                "device": device_state(dev),
                "final": final_state(writer, core)}

    def scenario_lines(rng):
        """lines -> printcore._listen -> PrintrunWriter readings."""
        events, snapshots, calls = [], [], []
        writer, core = make_writer_and_core(rng, events, snapshots)
        lines = []
        for data in encoded_lines(rng, rng.randint(0, 14)):
            roll = rng.random()
            if roll < 0.08:
                lines.append(device.READ_EMPTY)
            elif roll < 0.10:
                lines.append(device.DeviceError("gone", OSError("x")))
            elif roll < 0.12:
                lines.append(b"\n")
            lines.append(data)
        if rng.random() < 0.15:
            lines = [device.READ_EMPTY] * rng.choice([14, 15, 16, 31]) + lines
        fake = FakeLineDevice(lines, calls)
        if rng.random() < 0.1:
            fake.fail_writes = rng.randint(1, 6)
        core.printer = fake
        outcomes = []
        for _ in range(4):
            outcomes.append(run_listen(core))
            core.stop_read_thread = False
            if not fake.lines:
                break
        return {"outcomes": outcomes, "events": events,
                "snapshots": snapshots, "calls": calls,
                "final": final_state(writer, core)}

    def scenario_sequence(rng):
        """Several reports in a row: later ones keep unmentioned letters."""
        events, snapshots, calls = [], [], []
        writer, core = make_writer_and_core(rng, events, snapshots)
        core.greetings = ['start', 'Grbl ']
        makers = [marlin_position, marlin_temperature, grbl_status, grbl_probe]
        lines = [(rng.choice(makers)(rng) + "\n").encode()
                 for _ in range(rng.randint(2, 12))]
        if rng.random() < 0.5:
            dev = make_socket_device(chunk_script(rng, lines), calls)
        else:
            dev = FakeLineDevice(lines, calls)
        core.printer = dev
        outcome = run_listen(core)
        return {"outcome": outcome, "events": events, "snapshots": snapshots,
                "calls": calls, "final": final_state(writer, core)}

    scenarios = [scenario_device, scenario_buffer, scenario_chain,
                 scenario_lines, scenario_sequence]
    transcript = []
    for index in range(N_CASES):
        scenario = scenarios[index % len(scenarios)]
        rng = random.Random(SEED * 1000 + index)
        take_logs()
        try:
            result = scenario(rng)
        except Exception as e:  # harness-level failure must also match
            result = ["HARNESS-EXC", type(e).__name__, str(e)]
        transcript.append({"case": index, "scenario": scenario.__name__,
                           "result": result, "logs": take_logs()})

    json.dump(scrub(json.loads(json.dumps(transcript, default=repr))),
              sys.stdout, sort_keys=True)


# --------------------------------------------------------------------------
# Driver
# --------------------------------------------------------------------------

def run_tree(root):
    env = dict(os.environ)
    env["PYTHONPATH"] = root
    env["PYTHONHASHSEED"] = "0"
    env["PYTHONDONTWRITEBYTECODE"] = "1"
    proc = subprocess.run(
        [sys.executable, os.path.abspath(__file__), "--worker", root],
        env=env, cwd="/tmp", stdin=subprocess.DEVNULL,
        stdout=subprocess.PIPE, stderr=subprocess.PIPE, timeout=600)
    if proc.returncode != 0:
        sys.stderr.write(proc.stderr.decode("utf-8", "replace"))
        raise SystemExit("worker for %s failed (%d)" % (root, proc.returncode))
    return json.loads(proc.stdout.decode("utf-8"))


TRACEBACK = "Traceback (most recent call last)"


def scrub(value):
    """Reduce traceback texts (file paths, line numbers) to their last line.

    Tracebacks are forwarded verbatim to error callbacks and log records;
    they name the source tree and line numbers, which legitimately differ.
    """
    import re
    if isinstance(value, dict):
        return {key: scrub(item) for key, item in value.items()}
    if isinstance(value, list):
        return [scrub(item) for item in value]
    if isinstance(value, str) and TRACEBACK in value:
        head, _, tail = value.partition(TRACEBACK)
        lines = [line for line in re.split(r"\\n|\n", tail)
                 if line.strip(" '\"")]
        return head + "TB:" + lines[-1].replace("\\'", "'")
    return value


def differences(a, b, path="$"):
    """Yield (path, a, b) for the leaves where two JSON values differ."""
    if isinstance(a, dict) and isinstance(b, dict) and a.keys() == b.keys():
        for key in sorted(a):
            yield from differences(a[key], b[key], "%s.%s" % (path, key))
    elif isinstance(a, list) and isinstance(b, list) and len(a) == len(b):
        for index, (x, y) in enumerate(zip(a, b)):
            yield from differences(x, y, "%s[%d]" % (path, index))
    elif a != b:
        yield path, a, b


def main():
    reference = run_tree(REFERENCE)
    refactored = run_tree(REFACTORED)
    assert len(reference) == len(refactored) == N_CASES

    mismatches = 0
    for ref, new in zip(reference, refactored):
        if ref != new:
            mismatches += 1
            if mismatches <= 5:
                print("MISMATCH in case %d (%s)" % (ref["case"], ref["scenario"]))
                for path, a, b in list(differences(ref, new))[:6]:
                    print("  at %s\n    reference : %s\n    refactored: %s"
                          % (path, json.dumps(a)[:600], json.dumps(b)[:600]))

    # coverage statistics, to make sure the scenarios are not vacuous
    stats = {"harness_exc": 0, "snapshots": 0, "readings": 0, "on_temp": 0,
             "on_online": 0, "resend": 0, "device_errors": 0,
             "exceptions": 0}
    for entry in reference:
        result = entry["result"]
        if isinstance(result, list) and result and result[0] == "HARNESS-EXC":
            stats["harness_exc"] += 1
            continue
        if isinstance(result, dict):
            stats["snapshots"] += len(result.get("snapshots", []))
            final = result.get("final")
            if final:
                stats["readings"] += len(final["all"])
                if final["resendfrom"] != "-1":
                    stats["resend"] += 1
            for event in result.get("events", []):
                if len(event) > 1 and event[1] == "on_temp":
                    stats["on_temp"] += 1
                if len(event) > 1 and event[1] == "on_online":
                    stats["on_online"] += 1
            for item in result.get("out", []):
                if item[0] == "exc":
                    stats["device_errors"] += 1
            outcomes = result.get("outcomes", [])
            stats["exceptions"] += sum(1 for o in outcomes if o[0] == "exc")
    print("cases:", len(reference), "stats:", stats)

    assert stats["harness_exc"] == 0, "harness raised; scenarios are broken"
    assert stats["snapshots"] > 300 and stats["readings"] > 100
    assert stats["on_temp"] > 0 and stats["on_online"] > 0
    assert stats["resend"] > 0 and stats["device_errors"] > 0
    assert mismatches == 0, "%d cases differ" % mismatches
    print("OK: transcripts identical")


if __name__ == "__main__":
    if len(sys.argv) == 3 and sys.argv[1] == "--worker":
        worker(sys.argv[2])
    else:
        main()
