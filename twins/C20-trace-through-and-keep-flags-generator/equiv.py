#!/usr/bin/env python
"""Differential check for the C20 refactoring (tracer + builder move tracking).

Parent mode (no arguments): runs this same file as a worker in two
subprocesses, one with PYTHONPATH=/repo (reference tree) and one with
PYTHONPATH=/tmp/wtV-C20 (refactored tree), and asserts that the two
transcripts are identical. Exits 0 on success.

Worker mode ("worker" argument): drives the library with seeded random
scenarios and prints a JSON transcript of everything observable.
"""

import json
import os
import subprocess
import sys

REFERENCE = "/repo"
REFACTORED = "/tmp/wtV-C20"
SEED = 20200320
N_SCENARIOS = 420
N_FILTER = 320
N_DIRECT = 260


# ---------------------------------------------------------------------
# Worker
# ---------------------------------------------------------------------

def worker() -> None:
    import math
    import random

    import numpy as np

    import gscrib
    from gscrib import GCodeBuilder, ParamsDict
    from gscrib.geometry import Point
    from gscrib.hooks import extrusion_hook
    from gscrib.writers import BaseWriter

    tree = os.path.dirname(os.path.dirname(os.path.abspath(gscrib.__file__)))
    out = []  # the transcript

    def fr(value):
        """Exact, JSON friendly representation of any value."""

        if isinstance(value, (tuple, list)):
            return [fr(v) for v in value]
        if isinstance(value, dict):
            return {str(k): fr(v) for k, v in value.items()}
        if isinstance(value, np.ndarray):
            return ["ndarray", str(value.dtype), list(value.shape),
                    [fr(v) for v in value.ravel().tolist()]]
        return f"{type(value).__name__}:{value!r}"

    class RecWriter(BaseWriter):
        """In-process fake device; can be told to fail at the Nth write."""

        def __init__(self, log, fail_at=None, error=OSError):
            self.log = log
            self.count = 0
            self.fail_at = fail_at
            self.error = error

        def connect(self):
            return self

        def disconnect(self, wait=True):
            self.log.append(["disconnect", wait])

        def write(self, statement):
            self.count += 1
            if self.fail_at is not None and self.count == self.fail_at:
                self.log.append(["write-fails", self.count])
                raise self.error("fake device failure")
            self.log.append(["line", statement.decode("utf-8")])

        def flush(self):
            self.log.append(["flush"])

    def snapshot(g):
        s = g.state
        return {
            "pos": fr(tuple(g.position)),
            "spos": fr(tuple(s.position)),
            "params": fr(dict(g._current_params)),
            "sparams": fr(dict(s._current_params)),
            "same_params": s._current_params is g._current_params,
            "E": fr(g.get_parameter("E")),
            "sE": fr(s.get_parameter("e")),
            "F": fr(s.feed_rate),
            "S": fr(s.tool_power),
            "dm": str(g.distance_mode), "sdm": str(s.distance_mode),
            "em": str(s.extrusion_mode),
            "res": fr(s.resolution),
            "dir": str(s.direction),
            "hooks": len(g._hooks),
        }

    # -- random value pools --------------------------------------------

    def coord(rng):
        kind = rng.random()
        if kind < 0.55:
            return round(rng.uniform(-60, 60), rng.choice([0, 1, 3, 6]))
        if kind < 0.65:
            return rng.choice([0, 0.0, -0.0, 1, -1, 10, 1e-9, 1e6])
        if kind < 0.72:
            return None
        if kind < 0.76:
            return rng.choice([float("nan"), float("inf"), -float("inf")])
        if kind < 0.80:
            return np.float64(rng.uniform(-20, 20))
        return float(rng.randint(-30, 30))

    def good_coord(rng):
        return round(rng.uniform(-40, 40), rng.choice([0, 1, 3]))

    def word_value(rng):
        kind = rng.random()
        if kind < 0.45:
            return round(rng.uniform(0, 3000), rng.choice([0, 1, 2]))
        if kind < 0.55:
            return rng.choice([0, 0.0, -0.0, 1, 100, 1200])
        if kind < 0.63:
            return -round(rng.uniform(0.1, 500), 2)
        if kind < 0.69:
            return None
        if kind < 0.74:
            return rng.choice(["fast", "", "100"])
        if kind < 0.79:
            return rng.choice([float("nan"), float("inf"), -float("inf")])
        if kind < 0.84:
            return rng.choice([True, False])
        if kind < 0.90:
            return np.float64(rng.uniform(-10, 2000))
        if kind < 0.94:
            return np.int64(rng.randint(-5, 900))
        return rng.choice([[1], (2,), {"a": 1}])

    def move_kwargs(rng):
        kwargs = {}
        if rng.random() < 0.45:
            kwargs[rng.choice(["F", "f"])] = word_value(rng)
        if rng.random() < 0.35:
            kwargs[rng.choice(["S", "s"])] = word_value(rng)
        if rng.random() < 0.25:
            kwargs[rng.choice(["E", "e"])] = round(rng.uniform(-5, 50), 4)
        if rng.random() < 0.10:
            kwargs["comment"] = rng.choice(["seg", "", "a b"])
        if rng.random() < 0.06:
            kwargs[rng.choice(["A", "p", "Q"])] = rng.choice([1, 2.5, "x", None])
        if rng.random() < 0.02:
            kwargs["point"] = (1, 2, 3)  # clashes with the positional
        return kwargs

    def some_point(rng, good=False):
        pick = good_coord if good else coord
        kind = rng.random()
        if kind < 0.35:
            return (pick(rng), pick(rng))
        if kind < 0.75:
            return (pick(rng), pick(rng), pick(rng))
        if kind < 0.85:
            return Point(pick(rng), pick(rng), pick(rng))
        if kind < 0.92:
            return [pick(rng), pick(rng), pick(rng)]
        if kind < 0.96:
            return (pick(rng),)
        return rng.choice([(), (1, 2, 3, 4), "ab", None])

    # -- hooks ---------------------------------------------------------

    def make_hooks(rng, log):
        hooks = []

        def recorder(origin, target, params, state):
            log.append(["hook", fr(tuple(origin)), fr(tuple(target)),
                        fr(dict(params)), type(params).__name__,
                        str(state.extrusion_mode), fr(state.get_parameter("E")),
                        fr(tuple(state.position))])
            return params

        hooks.append(recorder)

        hooks.append(extrusion_hook(
            rng.choice([0.1, 0.2, 0.3, 0.25]),
            rng.choice([0.4, 0.6, 0.8]),
            rng.choice([1.75, 2.85, 3.0])))

        inject = {"n": 0}
        values = [word_value(rng) for _ in range(5)]

        def injector(origin, target, params, state):
            inject["n"] += 1
            value = values[inject["n"] % len(values)]
            params[rng.choice(["F", "S"]) if False else ("F" if inject["n"] % 2 else "S")] = value
            return params

        hooks.append(injector)

        def plain_dict(origin, target, params, state):
            plain = dict(params)
            plain["F"] = plain.get("F") if plain.get("F") is not None else 900
            return plain

        hooks.append(plain_dict)

        def fresh_params(origin, target, params, state):
            fresh = ParamsDict(params)
            fresh["s"] = 55.5
            return fresh

        hooks.append(fresh_params)

        boom = {"n": 0, "at": rng.randint(1, 9)}

        def exploding(origin, target, params, state):
            boom["n"] += 1
            if boom["n"] == boom["at"]:
                log.append(["hook-fails", boom["n"]])
                raise KeyError("hook failure")
            return params

        hooks.append(exploding)

        def returns_none(origin, target, params, state):
            return None

        hooks.append(returns_none)

        switch = {"n": 0}

        def mode_switcher(origin, target, params, state):
            # a hook cannot change modes, but it can look at them
            switch["n"] += 1
            params["Q"] = switch["n"]
            return params

        hooks.append(mode_switcher)
        return hooks

    # -- path functions ------------------------------------------------

    def path_functions(rng):
        a = rng.uniform(1, 15)
        b = rng.uniform(-8, 8)

        def circle(thetas):
            return np.column_stack((a * np.cos(2 * np.pi * thetas),
                                    a * np.sin(2 * np.pi * thetas),
                                    b * thetas))

        def line2d(thetas):
            return np.column_stack((a * thetas, b * thetas))

        def still(thetas):
            return np.column_stack((0 * thetas, 0 * thetas, 0 * thetas))

        def wide(thetas):
            return np.column_stack((thetas, thetas, thetas, thetas))

        def flat(thetas):
            return a * thetas

        def with_nan(thetas):
            pts = circle(thetas)
            pts[len(pts) // 2, 0] = np.nan
            return pts

        def as_list(thetas):
            return circle(thetas).tolist()

        def raises(thetas):
            raise ZeroDivisionError("bad path")

        return [circle, circle, circle, line2d, still, wide, flat,
                with_nan, as_list, raises]

    # -- operations ----------------------------------------------------

    def run_op(rng, g, hooks, log):
        kind = rng.random()
        t = g.trace

        if kind < 0.20:
            name = rng.choice(["move", "move", "move", "rapid",
                               "move_absolute", "rapid_absolute"])
            kwargs = move_kwargs(rng)
            if rng.random() < 0.5:
                point = some_point(rng, good=rng.random() < 0.7)
                desc = [name, fr(point), fr(kwargs)]
                call = lambda: getattr(g, name)(point, **kwargs)
            else:
                for axis in rng.sample(["x", "y", "z", "X"], rng.randint(0, 3)):
                    kwargs[axis] = coord(rng) if rng.random() < 0.3 else good_coord(rng)
                desc = [name, fr(kwargs)]
                call = lambda: getattr(g, name)(**kwargs)
        elif kind < 0.26:
            mode = rng.choice(["absolute", "relative", "relative", "bogus"])
            desc = ["set_distance_mode", mode]
            call = lambda: g.set_distance_mode(mode)
        elif kind < 0.32:
            mode = rng.choice(["absolute", "relative", "relative", "nope"])
            desc = ["set_extrusion_mode", mode]
            call = lambda: g.set_extrusion_mode(mode)
        elif kind < 0.38:
            kwargs = rng.choice([
                {"E": 0}, {"e": 0.0}, {"E": round(rng.uniform(-3, 30), 3)},
                {"x": good_coord(rng)}, {"x": 0, "y": 0, "z": 0, "E": 0},
                {"F": word_value(rng)}, {"E": 0, "S": word_value(rng)},
            ])
            desc = ["set_axis", fr(kwargs)]
            call = lambda: g.set_axis(**kwargs)
        elif kind < 0.43:
            which = rng.choice(["axes", "feed-rate", "tool-power", "axes"])
            if which == "axes":
                lo = (-rng.uniform(5, 80), -rng.uniform(5, 80), -rng.uniform(5, 80))
                hi = (rng.uniform(5, 80), rng.uniform(5, 80), rng.uniform(5, 80))
            else:
                lo = rng.choice([0, 10, 100.5])
                hi = rng.choice([500, 1500, 5000.0, 5])
            desc = ["set_bounds", which, fr(lo), fr(hi)]
            call = lambda: g.set_bounds(which, lo, hi)
        elif kind < 0.48:
            value = rng.choice([0.1, 0.5, 1.0, 2.0, 0.05, 5.0, 0.0, -1.0, 3])
            desc = ["set_resolution", fr(value)]
            call = lambda: g.set_resolution(value)
        elif kind < 0.52:
            value = rng.choice(["cw", "ccw", "sideways"])
            desc = ["set_direction", value]
            call = lambda: g.set_direction(value)
        elif kind < 0.57:
            hook = rng.choice(hooks)
            add = rng.random() < 0.6
            desc = ["add_hook" if add else "remove_hook", hooks.index(hook)]
            call = lambda: (g.add_hook if add else g.remove_hook)(hook)
        elif kind < 0.61:
            choice = rng.randint(0, 3)
            desc = ["transform", choice]
            if choice == 0:
                dx, dy = good_coord(rng), good_coord(rng)
                call = lambda: g.transform.translate(dx, dy, 0)
            elif choice == 1:
                angle = rng.choice([30, 45, 90, -60])
                call = lambda: g.transform.rotate(angle, rng.choice(["z", "z", "x"]))
            elif choice == 2:
                call = lambda: g.transform.scale(rng.choice([0.5, 2.0, 1.5]))
            else:
                call = lambda: g.transform.set_transform(np.eye(4)) \
                    if hasattr(g.transform, "set_transform") else None
        elif kind < 0.67:
            n = rng.randint(0, 6)
            targets = [some_point(rng, good=rng.random() < 0.85) for _ in range(n)]
            kwargs = move_kwargs(rng)
            desc = ["polyline", fr(targets), fr(kwargs)]
            call = lambda: t.polyline(targets, **kwargs)
        elif kind < 0.73:
            fn = rng.choice(path_functions(rng))
            length = rng.choice([rng.uniform(0.2, 40), 0.0, -1.0, 0.05, 7,
                                 float("nan"), rng.uniform(1, 15)])
            kwargs = move_kwargs(rng)
            desc = ["parametric", fn.__name__, fr(length), fr(kwargs)]
            call = lambda: t.parametric(fn, length, **kwargs)
        elif kind < 0.79:
            r = rng.uniform(1, 12)
            if rng.random() < 0.7:
                # a target that really lies on the circle
                angle = rng.uniform(0, 2 * math.pi)
                center = (good_coord(rng) or 1.0, good_coord(rng))
                cr = math.hypot(*center)
                target = (center[0] + cr * math.cos(angle),
                          center[1] + cr * math.sin(angle))
                if rng.random() < 0.4:
                    target = target + (good_coord(rng),)
                if g.distance_mode.is_relative is False:
                    pos = g.position.resolve()
                    target = (target[0] + pos.x, target[1] + pos.y) + target[2:]
            else:
                center = (good_coord(rng), good_coord(rng))
                target = some_point(rng, good=True)
            kwargs = move_kwargs(rng)
            desc = ["arc", fr(target), fr(center), fr(kwargs)]
            call = lambda: t.arc(target, center, **kwargs)
        elif kind < 0.83:
            target = some_point(rng, good=True)
            radius = rng.choice([rng.uniform(-60, 60), 0.0, 100.0, -100.0])
            kwargs = move_kwargs(rng)
            desc = ["arc_radius", fr(target), fr(radius), fr(kwargs)]
            call = lambda: t.arc_radius(target, radius, **kwargs)
        elif kind < 0.86:
            center = (good_coord(rng), good_coord(rng))
            kwargs = move_kwargs(rng)
            desc = ["circle", fr(center), fr(kwargs)]
            call = lambda: t.circle(center, **kwargs)
        elif kind < 0.90:
            n = rng.randint(0, 5)
            targets = [some_point(rng, good=True) for _ in range(n)]
            kwargs = move_kwargs(rng)
            desc = ["spline", fr(targets), fr(kwargs)]
            call = lambda: t.spline(targets, **kwargs)
        elif kind < 0.94:
            target = some_point(rng, good=True)
            center = (good_coord(rng), good_coord(rng))
            turns = rng.choice([1, 1, 2, 3, 0, -1])
            kwargs = move_kwargs(rng)
            desc = ["helix", fr(target), fr(center), turns, fr(kwargs)]
            call = lambda: t.helix(target, center, turns, **kwargs)
        elif kind < 0.97:
            target = some_point(rng, good=True)
            pitch = rng.choice([1, 0.5, 2.5, 0, -1.0])
            kwargs = move_kwargs(rng)
            desc = ["thread", fr(target), fr(pitch), fr(kwargs)]
            call = lambda: t.thread(target, pitch, **kwargs)
        else:
            target = some_point(rng, good=True)
            turns = rng.choice([1, 2, 0])
            kwargs = move_kwargs(rng)
            desc = ["spiral", fr(target), turns, fr(kwargs)]
            call = lambda: t.spiral(target, turns, **kwargs)

        log.append(["op"] + desc)

        try:
            result = call()
            log.append(["ok", fr(result) if not hasattr(result, "apply_transform")
                        else "transformer"])
        except Exception as error:  # pylint: disable=broad-except
            log.append(["raised", type(error).__name__])

        log.append(["state", snapshot(g)])

    # -- part 1: whole scenarios ----------------------------------------

    master = random.Random(SEED)

    for number in range(N_SCENARIOS):
        rng = random.Random(master.getrandbits(64))
        log = []
        out.append(["scenario", number, log])

        try:
            g = GCodeBuilder()
            fail_at = rng.randint(2, 60) if rng.random() < 0.2 else None
            error = rng.choice([OSError, ValueError, gscrib.excepts.DeviceError])
            g.add_writer(RecWriter(log, fail_at, error))

            if rng.random() < 0.3:
                g.add_writer(RecWriter(log))

            hooks = make_hooks(rng, log)

            # most scenarios start with the recorder and the extruder
            if rng.random() < 0.9:
                g.add_hook(hooks[0])
            if rng.random() < 0.75:
                g.add_hook(hooks[1])
            if rng.random() < 0.25:
                g.add_hook(hooks[2])
            if rng.random() < 0.5:
                g.add_hook(hooks[0]) if rng.random() < 0.5 else None

            g.set_resolution(rng.choice([0.5, 1.0, 2.0, 0.25, 4.0]))

            if rng.random() < 0.5:
                g.set_distance_mode("relative")
            if rng.random() < 0.5:
                g.set_extrusion_mode("relative")
            if rng.random() < 0.3:
                g.set_bounds("feed-rate", 0, rng.choice([1000, 2500]))
            if rng.random() < 0.3:
                g.set_bounds("axes", (-50, -50, -50), (50, 50, 50))

            log.append(["state", snapshot(g)])

            for _ in range(rng.randint(4, 16)):
                run_op(rng, g, hooks, log)

            g.teardown()
        except Exception as error:  # pylint: disable=broad-except
            log.append(["scenario-raised", type(error).__name__])

    # -- part 2: the segment filter on its own ---------------------------

    rng = random.Random(SEED + 1)
    nrng = np.random.default_rng(SEED + 1)
    flog = []
    out.append(["filter", flog])

    for number in range(N_FILTER):
        g = GCodeBuilder()
        g.set_resolution(rng.choice([0.1, 0.5, 1.0, 2.0, 10.0, 1e-6, 1e6]))
        kind = rng.random()

        if kind < 0.40:
            n = rng.randint(1, 60)
            steps = nrng.uniform(-1, 1, (n, 3)) * rng.choice([0.01, 0.1, 1, 5, 50])
            points = np.cumsum(steps, axis=0)
        elif kind < 0.50:
            n = rng.randint(1, 30)
            points = np.cumsum(nrng.uniform(0, 0.3, (n, 2)), axis=0)
        elif kind < 0.58:
            points = np.zeros((rng.randint(0, 12), 3))
        elif kind < 0.66:
            n = rng.randint(2, 25)
            points = np.cumsum(nrng.uniform(0, 1, (n, 3)), axis=0)
            points[rng.randrange(n), rng.randrange(3)] = rng.choice(
                [np.nan, np.inf, -np.inf])
        elif kind < 0.72:
            points = np.array(rng.choice([
                [], [[1.0, 2.0]], [[1.0]], [[1.0, 2.0, 3.0]],
                [[0.0, 0.0, 0.0], [0.0, 0.0, 0.0]],
            ]), dtype=float)
        elif kind < 0.78:
            points = np.arange(rng.randint(0, 9), dtype=float)  # 1-D
        elif kind < 0.84:
            n = rng.randint(2, 40)
            points = np.column_stack((np.arange(n), np.zeros(n), np.zeros(n)))
            points = points * rng.choice([0.1, 0.25, 0.5, 1, 1.0000001, 0.9999999])
        elif kind < 0.90:
            n = rng.randint(1, 20)
            points = nrng.integers(-5, 5, (n, 3))  # integer dtype
        elif kind < 0.95:
            points = nrng.uniform(-1, 1, (rng.randint(1, 4), rng.randint(1, 3), 3))
        else:
            points = rng.choice([[[0, 0, 0], [1, 1, 1]], None, "abc", 7])

        try:
            result = g.trace._filter_segments(points)
            flog.append([number, "ok", fr(result), result is points])
        except Exception as error:  # pylint: disable=broad-except
            flog.append([number, "raised", type(error).__name__])

    # -- part 3: the move validation / tracking on its own ---------------

    rng = random.Random(SEED + 2)
    dlog = []
    out.append(["direct", dlog])

    class CountingDict(dict):
        """Mapping that logs its look-ups (they must not be reordered)."""

        def __init__(self, log, *args):
            super().__init__(*args)
            self._log = log

        def get(self, key, default=None):
            self._log.append(["get", key])
            return super().get(key, default)

    for number in range(N_DIRECT):
        g = GCodeBuilder()
        log = []
        g.add_writer(RecWriter(log))

        if rng.random() < 0.4:
            g.set_bounds("feed-rate", rng.choice([0, 50]), rng.choice([800, 2000]))
        if rng.random() < 0.4:
            g.set_bounds("tool-power", rng.choice([0, 5]), rng.choice([100, 1000]))
        if rng.random() < 0.4:
            g.set_bounds("axes", (-20, -20, -20), (20, 20, 20))

        content = {}
        for word in rng.sample(["F", "S", "f", "s", "E", "X"], rng.randint(0, 4)):
            content[word] = word_value(rng)

        kind = rng.random()
        if kind < 0.5:
            params = ParamsDict(content)
        elif kind < 0.7:
            params = dict(content)
        elif kind < 0.9:
            params = CountingDict(log, content)
        else:
            params = rng.choice([None, 3, "F", [("F", 1)]])

        axes = Point(good_coord(rng), good_coord(rng), good_coord(rng))
        if rng.random() < 0.1:
            axes = rng.choice([Point(None, 1, 2), Point.unknown(), (1, 2, 3), None])

        for name, call in (
            ("validate", lambda: g._validate_move(axes, params)),
            ("track", lambda: g._track_move_params(params)),
            ("update", lambda: g._update_axes(axes, params)),
        ):
            try:
                log.append([name, "ok", fr(call())])
            except Exception as error:  # pylint: disable=broad-except
                log.append([name, "raised", type(error).__name__])
            log.append(["state", snapshot(g)])

        dlog.append([number, fr(content), type(params).__name__, log])

    json.dump({"tree": tree, "transcript": out}, sys.stdout)


# ---------------------------------------------------------------------
# Parent
# ---------------------------------------------------------------------

def run_worker(tree: str) -> dict:
    env = dict(os.environ)
    env["PYTHONPATH"] = tree
    env["PYTHONDONTWRITEBYTECODE"] = "1"
    env["PYTHONHASHSEED"] = "0"

    proc = subprocess.run(
        [sys.executable, os.path.abspath(__file__), "worker"],
        env=env, cwd="/tmp", stdin=subprocess.DEVNULL,
        stdout=subprocess.PIPE, stderr=subprocess.PIPE,
        timeout=1500, check=False)

    if proc.returncode != 0:
        sys.stderr.write(proc.stderr.decode("utf-8", "replace")[-4000:])
        raise SystemExit(f"worker for {tree} failed ({proc.returncode})")

    data = json.loads(proc.stdout)
    assert os.path.realpath(data["tree"]) == os.path.realpath(tree), data["tree"]
    return data


def summarize(transcript) -> dict:
    stats = {"scenarios": 0, "ops": 0, "lines": 0, "hook_calls": 0,
             "raised": {}, "filter_ok": 0, "filter_raised": 0, "direct": 0}

    def count_log(log):
        for entry in log:
            if entry[0] == "op":
                stats["ops"] += 1
            elif entry[0] == "line":
                stats["lines"] += 1
            elif entry[0] == "hook":
                stats["hook_calls"] += 1
            elif entry[0] == "raised" or (len(entry) > 1 and entry[1] == "raised"):
                name = entry[-1]
                stats["raised"][name] = stats["raised"].get(name, 0) + 1

    for block in transcript:
        if block[0] == "scenario":
            stats["scenarios"] += 1
            count_log(block[2])
        elif block[0] == "filter":
            for entry in block[1]:
                stats["filter_ok" if entry[1] == "ok" else "filter_raised"] += 1
        elif block[0] == "direct":
            for entry in block[1]:
                stats["direct"] += 1
                count_log(entry[3])

    return stats


def main() -> int:
    reference = run_worker(REFERENCE)
    refactored = run_worker(REFACTORED)

    a = reference["transcript"]
    b = refactored["transcript"]

    if a != b:
        for block_a, block_b in zip(a, b):
            if block_a != block_b:
                print("first differing block:", block_a[0],
                      block_a[1] if block_a[0] == "scenario" else "")
                logs_a = block_a[-1]
                logs_b = block_b[-1]
                for i, (x, y) in enumerate(zip(logs_a, logs_b)):
                    if x != y:
                        print("entry", i)
                        print("  reference :", json.dumps(x)[:1500])
                        print("  refactored:", json.dumps(y)[:1500])
                        break
                else:
                    print("lengths differ", len(logs_a), len(logs_b))
                break
        print("TRANSCRIPTS DIFFER")
        return 1

    assert json.dumps(a, sort_keys=True) == json.dumps(b, sort_keys=True)
    print("transcripts identical:", json.dumps(summarize(a), sort_keys=True))
    return 0


if __name__ == "__main__":
    if len(sys.argv) > 1 and sys.argv[1] == "worker":
        worker()
    else:
        sys.exit(main())
