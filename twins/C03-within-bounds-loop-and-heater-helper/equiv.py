#!/usr/bin/env python
"""Differential check: /repo (original) vs /tmp/wtV-C03 (refactored).

Driver mode (no arguments): runs this same file as a worker in two
subprocesses, one per tree (selected through PYTHONPATH), and asserts
that both print exactly the same transcript. Exits 0 when identical.

Worker mode (``--worker``): drives Point.within_bounds, and a
GCodeBuilder (set_bounds, moves of every kind, temperature setters,
feed/power words, halts, tool changes, interpolated paths, hooks) with
seeded random inputs and prints a JSON transcript of everything
observable: emitted lines (through a registered fake writer), state,
return values and exception type names / messages.
"""

import json
import math
import os
import random
import subprocess
import sys

TREES = {"orig": "/repo", "twin": "/tmp/wtV-C03"}
SEEDS = (3, 1003, 20261004)


# ---------------------------------------------------------------------
# Worker
# ---------------------------------------------------------------------

def worker():
    import logging
    import numpy as np

    logging.disable(logging.CRITICAL)

    import gscrib
    from gscrib import GCodeBuilder
    from gscrib.geometry import Point
    from gscrib.geometry.bounds import BoundManager
    from gscrib.writers.base_writer import BaseWriter
    from gscrib.params import ParamsDict

    assert os.path.dirname(os.path.dirname(gscrib.__file__)) \
        == os.environ["EQUIV_TREE"], gscrib.__file__

    transcript = []

    def show(value):
        """Type-revealing representation of any value"""

        if isinstance(value, Point):
            return "Point(%s)" % ", ".join(show(v) for v in value)
        if isinstance(value, tuple):
            return "(%s)" % ", ".join(show(v) for v in value)
        if isinstance(value, (dict,)):
            items = ", ".join(f"{k!r}: {show(v)}" for k, v in value.items())
            return "%s{%s}" % (type(value).__name__, items)
        if callable(value) and hasattr(value, "__name__"):
            return f"callable:{value.__name__}"
        text = repr(value)
        assert " at 0x" not in text, text
        return f"{type(value).__name__}:{text}"

    def attempt(label, function, *args, **kwargs):
        try:
            result = function(*args, **kwargs)
            outcome = ["ok", show(result)]
        except BaseException as e:  # pylint: disable=broad-except
            outcome = ["raise", type(e).__name__, str(e)]
        transcript.append([label, outcome])
        return outcome

    # ---------------- values ----------------

    def ulp_up(v):
        return math.nextafter(v, math.inf)

    def ulp_down(v):
        return math.nextafter(v, -math.inf)

    SPECIAL = [
        None, 0, 0.0, -0.0, 1, -1, True, False,
        math.nan, math.inf, -math.inf,
        np.float64(2.5), np.float64("nan"), np.int64(3), np.float32(1.5),
        1e308, -1e308, 5e-324,
    ]

    def number(rng, lo=-50.0, hi=50.0):
        kind = rng.random()
        if kind < 0.45:
            return round(rng.uniform(lo, hi), rng.choice((0, 1, 3, 6)))
        if kind < 0.6:
            return rng.randint(int(lo), int(hi))
        if kind < 0.7:
            return rng.choice((lo, hi, ulp_down(lo), ulp_up(hi),
                               ulp_up(lo), ulp_down(hi)))
        if kind < 0.95:
            return rng.choice(SPECIAL)
        return rng.choice(("7", b"1", [1], (2,), object, {}))

    def coordinate(rng, lo=-50.0, hi=50.0):
        return None if rng.random() < 0.25 else number(rng, lo, hi)

    # ---------------- part 1: Point.within_bounds ----------------

    class Spy:
        """Point look-alike that logs the order of attribute reads"""

        def __init__(self, name, log, **values):
            object.__setattr__(self, "_name", name)
            object.__setattr__(self, "_log", log)
            object.__setattr__(self, "_values", values)

        def __getattr__(self, key):
            self._log.append(f"{self._name}.{key}")
            try:
                return self._values[key]
            except KeyError:
                raise AttributeError(key) from None

    def part_within_bounds(rng):
        for i in range(400):
            p = Point(coordinate(rng), coordinate(rng), coordinate(rng))
            lo = Point(coordinate(rng, -60, 0), coordinate(rng, -60, 0),
                       coordinate(rng, -60, 0))
            hi = Point(coordinate(rng, 0, 60), coordinate(rng, 0, 60),
                       coordinate(rng, 0, 60))
            roll = rng.random()
            if roll < 0.06:
                lo = tuple(lo)       # no .x attribute
            elif roll < 0.12:
                hi = list(hi)
            elif roll < 0.16:
                lo = None
            elif roll < 0.20:
                hi = "xyz"
            transcript.append(["wb-args", show(p), repr(lo), repr(hi)])
            attempt("wb", p.within_bounds, lo, hi)

        # boundary and ulp cases on every axis
        lo, hi = Point(-10.0, 0.0, 5.0), Point(10.0, 20.5, 5.5)
        for axis in range(3):
            for base in (lo[axis], hi[axis]):
                for v in (base, ulp_up(base), ulp_down(base), math.nan,
                          np.float64(base), np.float64(ulp_up(base)),
                          np.float64(ulp_down(base)), int(base)):
                    coords = [0.0, 10.0, 5.25]
                    coords[axis] = v
                    attempt("wb-edge", Point(*coords).within_bounds, lo, hi)
                    coords2 = [None, None, None]
                    coords2[axis] = v
                    attempt("wb-edge1", Point(*coords2).within_bounds, lo, hi)

        # the order in which attributes are read, including laziness
        for i in range(120):
            log = []
            names = ("x", "y", "z")
            def values(lo_, hi_):
                d = {}
                for n in names:
                    if rng.random() < 0.9:
                        d[n] = coordinate(rng, lo_, hi_)
                return d
            lo_spy = Spy("min", log, **values(-60, 0))
            hi_spy = Spy("max", log, **values(0, 60))
            p = Point(coordinate(rng), coordinate(rng), coordinate(rng))
            attempt("wb-spy", p.within_bounds, lo_spy, hi_spy)
            transcript.append(["wb-spy-log", log])
            log2 = []
            self_spy = Spy("self", log2, **values(-60, 60))
            attempt("wb-spy-self", Point.within_bounds, self_spy,
                    Spy("min", log2, **values(-60, 0)),
                    Spy("max", log2, **values(0, 60)))
            transcript.append(["wb-spy-log2", log2])

        # through the bounds manager
        for i in range(150):
            m = BoundManager()
            lo = Point(coordinate(rng, -60, 0), coordinate(rng, -60, 0),
                       coordinate(rng, -60, 0))
            hi = Point(coordinate(rng, 0, 60), coordinate(rng, 0, 60),
                       coordinate(rng, 0, 60))
            attempt("bm-set", m.set_bounds, "axes", lo, hi)
            for j in range(4):
                p = Point(coordinate(rng), coordinate(rng), coordinate(rng))
                attempt("bm-validate", m.validate, "axes", p)

    # ---------------- part 2: the builder ----------------

    class FakeWriter(BaseWriter):
        def __init__(self):
            self.lines = []
            self.fail_next = None

        def connect(self):
            return self

        def disconnect(self, wait=True):
            self.lines.append(f"<disconnect {wait}>")

        def write(self, statement):
            if self.fail_next is not None:
                error, self.fail_next = self.fail_next, None
                raise error
            self.lines.append(repr(statement))

        def flush(self):
            self.lines.append("<flush>")

    PROPERTIES = (
        "axes", "bed-temperature", "chamber-temperature",
        "hotend-temperature", "feed-rate", "tool-number", "tool-power",
    )

    STATE_PROPERTIES = (
        "position", "is_coolant_active", "is_tool_active", "tool_number",
        "tool_power", "feed_rate", "spin_mode", "power_mode",
        "coolant_mode", "distance_mode", "extrusion_mode", "feed_mode",
        "tool_swap_mode", "halt_mode", "length_units", "time_units",
        "temperature_units", "plane", "direction", "resolution",
        "target_hotend_temperature", "target_bed_temperature",
        "target_chamber_temperature",
    )

    def snapshot(g, writer):
        state = {name: show(getattr(g.state, name))
                 for name in STATE_PROPERTIES}
        state["bounds"] = {name: show(g.state.get_bounds(name))
                           for name in PROPERTIES}
        state["params"] = show(dict(g.state._current_params))
        state["core.params"] = show(dict(g._current_params))
        state["core.position"] = show(g.position)
        state["core.mode"] = show(g.distance_mode)
        state["hooks"] = len(g._hooks)
        lines, writer.lines = writer.lines, []
        return [state, lines]

    def random_axes_bound(rng, lo, hi):
        roll = rng.random()
        coords = [coordinate(rng, lo, hi) for _ in range(3)]
        if roll < 0.45:
            return tuple(coords)
        if roll < 0.6:
            return list(coords)
        if roll < 0.75:
            return Point(*coords)
        if roll < 0.8:
            return np.array([c if isinstance(c, (int, float)) and
                             not isinstance(c, bool) else 0.0
                             for c in coords], dtype=float)
        if roll < 0.85:
            return tuple(coords[:rng.randint(0, 2)])
        if roll < 0.9:
            return tuple(coords) + (1.0,)
        return rng.choice((None, 5, "abc", math.nan, {"x": 1}))

    def random_bound_call(rng):
        name = rng.choice(PROPERTIES + PROPERTIES + ("axis", "", None, 7))
        if name == "axes" or rng.random() < 0.05:
            lo = random_axes_bound(rng, -60, 0)
            hi = random_axes_bound(rng, 0, 60)
            if name != "axes" and rng.random() < 0.5:
                name = rng.choice(PROPERTIES)
        else:
            if rng.random() < 0.8:
                a = rng.choice((0, 1, 10, 50.5, 100, 180.0, 200))
                b = a + rng.choice((0.5, 5, 40, 250.0, 1000))
                lo, hi = (a, b) if rng.random() < 0.85 else (b, a)
                if rng.random() < 0.05:
                    hi = lo
            else:
                lo, hi = number(rng, 0, 100), number(rng, 100, 300)
        return name, lo, hi

    def bounded_value(rng, g, name, lo=-50.0, hi=300.0):
        """A value that is often right on, or next to, a bound"""

        try:
            lower, upper = g.state.get_bounds(name)
        except ValueError:
            lower = upper = None
        roll = rng.random()
        if lower is None or roll < 0.35:
            return number(rng, lo, hi)
        if roll < 0.75:
            return rng.choice((
                lower, upper, ulp_down(float(lower)), ulp_up(float(upper)),
                ulp_up(float(lower)), ulp_down(float(upper)),
                float(lower), float(upper),
            ))
        if roll < 0.9:
            return rng.uniform(float(lower), float(upper))
        return rng.choice((math.nan, math.inf, -math.inf, None,
                           np.float64(lower), np.float64("nan")))

    def axis_value(rng, g, index):
        lower, upper = g.state.get_bounds("axes")
        roll = rng.random()
        if roll < 0.2:
            return None
        if lower is None or roll < 0.5:
            return number(rng, -70, 70)
        lo, hi = lower[index], upper[index]
        if g.distance_mode.is_relative and rng.random() < 0.7:
            current = g.position[index] or 0
            try:
                return rng.choice((lo - current, hi - current,
                                   ulp_up(hi) - current,
                                   ulp_down(lo) - current,
                                   (lo + hi) / 2 - current))
            except TypeError:
                return 0.5
        if roll < 0.85:
            return rng.choice((lo, hi, ulp_down(float(lo)),
                               ulp_up(float(hi)), ulp_up(float(lo)),
                               ulp_down(float(hi)), (lo + hi) / 2))
        return rng.choice((math.nan, np.float64(lo), np.float64("nan"),
                           math.inf))

    def move_kwargs(rng, g):
        kwargs = {}
        for index, name in enumerate("xyz"):
            value = axis_value(rng, g, index)
            if value is not None or rng.random() < 0.3:
                kwargs[name if rng.random() < 0.8 else name.upper()] = value
        if rng.random() < 0.5:
            kwargs[rng.choice("Ff")] = bounded_value(rng, g, "feed-rate", -5, 3000)
        if rng.random() < 0.4:
            kwargs[rng.choice("Ss")] = bounded_value(rng, g, "tool-power", -5, 3000)
        if rng.random() < 0.2:
            kwargs["E"] = number(rng, 0, 5)
        if rng.random() < 0.1:
            kwargs["comment"] = "note"
        return kwargs

    def as_point_call(rng, kwargs):
        """Optionally pass the coordinates as a point-like"""

        if rng.random() < 0.3:
            coords = [kwargs.pop(k, kwargs.pop(k.upper(), None))
                      for k in "xyz"]
            kind = rng.random()
            if kind < 0.4:
                return (Point(*coords),), kwargs
            if kind < 0.7:
                return (tuple(coords),), kwargs
            if kind < 0.9:
                return (list(coords[:2]),), kwargs
            return (rng.choice((5, "ab", math.nan)),), kwargs
        return (), kwargs

    def make_hooks(rng):
        def add_power(origin, target, params, state):
            params.update(S=123.5)
            return params

        def plain_dict(origin, target, params, state):
            return {"F": 42, "X": params.get("X"), "Y": params.get("Y"),
                    "Z": params.get("Z")}

        def lower_dict(origin, target, params, state):
            return {**params, "f": 77}

        def nan_feed(origin, target, params, state):
            params["F"] = math.nan
            return params

        def none_words(origin, target, params, state):
            params["F"] = None
            params["S"] = None
            return params

        def broken(origin, target, params, state):
            return None

        def raising(origin, target, params, state):
            raise KeyError("hook")

        return [add_power, plain_dict, lower_dict, nan_feed, none_words,
                broken, raising]

    def part_builder(rng, steps):
        g = GCodeBuilder()
        writer = FakeWriter()
        g.add_writer(writer)
        hooks = make_hooks(rng)
        transcript.append(["new-builder", snapshot(g, writer)])

        def do(label, function, *args, **kwargs):
            transcript.append(["call", label, show(args), show(kwargs)])
            attempt(label, function, *args, **kwargs)
            transcript.append(["after", snapshot(g, writer)])

        def circle(thetas):
            x = 4 * np.cos(2 * np.pi * thetas)
            y = 4 * np.sin(2 * np.pi * thetas)
            return np.column_stack((x, y, np.zeros(thetas.shape)))

        for step in range(steps):
            op = rng.random()

            if op < 0.14:
                name, lo, hi = random_bound_call(rng)
                if rng.random() < 0.5:
                    do("set_bounds", g.set_bounds, name, lo, hi)
                else:
                    do("set_bounds", g.set_bounds, name, min=lo, max=hi)
            elif op < 0.17:
                do("set_distance_mode", g.set_distance_mode,
                   rng.choice(("absolute", "relative", "bogus")))
            elif op < 0.45:
                method = rng.choice(("move", "rapid", "move", "rapid",
                                     "move_absolute", "rapid_absolute",
                                     "set_axis", "auto_home"))
                args, kwargs = as_point_call(rng, move_kwargs(rng, g))
                do(method, getattr(g, method), *args, **kwargs)
            elif op < 0.50:
                mode = rng.choice(("away", "towards", "away-no-error",
                                   "towards-no-error", "nope"))
                args, kwargs = as_point_call(rng, move_kwargs(rng, g))
                do("probe", g.probe, mode, *args, **kwargs)
            elif op < 0.56:
                do("set_feed_rate", g.set_feed_rate,
                   bounded_value(rng, g, "feed-rate", -5, 3000))
            elif op < 0.61:
                do("set_tool_power", g.set_tool_power,
                   bounded_value(rng, g, "tool-power", -5, 3000))
            elif op < 0.73:
                heater = rng.choice(("bed", "hotend", "chamber"))
                value = bounded_value(rng, g, f"{heater}-temperature", -5, 400)
                method = f"set_{heater}_temperature"
                if rng.random() < 0.1:
                    do(method, getattr(g, method), temperature=value)
                elif rng.random() < 0.05:
                    do(method, getattr(g, method))
                else:
                    do(method, getattr(g, method), value)
            elif op < 0.75:
                do("set_temperature_units", g.set_temperature_units,
                   rng.choice(("celsius", "kelvin", "rankine")))
            elif op < 0.80:
                mode = rng.choice(("wait-for-bed", "wait-for-hotend",
                                   "wait-for-chamber", "pause", "off",
                                   "wait-for-motion"))
                kwargs = {}
                heater = mode.rpartition("-")[2]
                for key in "SRsr":
                    if rng.random() < 0.35:
                        kwargs[key] = bounded_value(
                            rng, g, f"{heater}-temperature", -5, 400)
                do("halt", g.halt, mode, **kwargs)
            elif op < 0.84:
                do("tool_change", g.tool_change,
                   rng.choice(("manual", "automatic", "off")),
                   rng.choice((bounded_value(rng, g, "tool-number", -2, 30),
                               rng.randint(-1, 12), 1, 2, 10)))
            elif op < 0.87:
                if rng.random() < 0.5:
                    do("tool_on", g.tool_on, rng.choice(("cw", "ccw", "off")),
                       bounded_value(rng, g, "tool-power", -5, 3000))
                else:
                    do("power_on", g.power_on,
                       rng.choice(("constant", "dynamic", "off")),
                       bounded_value(rng, g, "tool-power", -5, 3000))
            elif op < 0.89:
                do(*rng.choice((("tool_off", g.tool_off),
                                ("power_off", g.power_off),
                                ("coolant_off", g.coolant_off))))
            elif op < 0.90:
                do("coolant_on", g.coolant_on, rng.choice(("flood", "mist")))
            elif op < 0.94:
                kind = rng.random()
                kwargs = {}
                if rng.random() < 0.4:
                    kwargs["F"] = bounded_value(rng, g, "feed-rate", -5, 3000)
                if kind < 0.3:
                    targets = [(rng.uniform(-20, 20), rng.uniform(-20, 20))
                               for _ in range(rng.randint(1, 4))]
                    do("polyline", g.trace.polyline, targets, **kwargs)
                elif kind < 0.6:
                    r = rng.choice((2.0, 5.0, 30.0))
                    do("arc", g.trace.arc, (2 * r, 0.0), (r, 0.0), **kwargs)
                elif kind < 0.8:
                    do("circle", g.trace.circle,
                       (rng.uniform(-8, 8), rng.uniform(-8, 8)), **kwargs)
                else:
                    do("parametric", g.trace.parametric, circle,
                       float(8 * math.pi), **kwargs)
            elif op < 0.96:
                roll = rng.random()
                if roll < 0.4:
                    do("translate", g.transform.translate,
                       rng.choice((1.0, -3.0, 10.0)), rng.choice((0.0, 2.0)),
                       rng.choice((0.0, 0.5)))
                elif roll < 0.6:
                    do("rotate", g.transform.rotate, rng.choice((90, 45, 180)))
                elif roll < 0.8:
                    do("scale", g.transform.scale, rng.choice((2.0, 0.5)))
                else:
                    do("reset-transform", g.transform.restore_state)
            elif op < 0.985:
                hook = rng.choice(hooks)
                if rng.random() < 0.6:
                    do("add_hook:" + hook.__name__, g.add_hook, hook)
                else:
                    do("remove_hook:" + hook.__name__, g.remove_hook, hook)
            elif op < 0.992:
                writer.fail_next = rng.choice((OSError("io"), ValueError("v")))
                do("failing-write-move", g.move, x=0.25)
                writer.fail_next = None
            else:
                do("set_resolution", g.set_resolution,
                   rng.choice((0.1, 0.5, 1.0, 0, -1)))

        do("teardown", g.teardown)

    # direct calls of the private helpers that were rewritten
    def part_private(rng):
        for i in range(150):
            g = GCodeBuilder()
            writer = FakeWriter()
            g.add_writer(writer)
            for _ in range(rng.randint(0, 3)):
                name, lo, hi = random_bound_call(rng)
                attempt("p-set_bounds", g.set_bounds, name, lo, hi)
            axes = Point(coordinate(rng), coordinate(rng), coordinate(rng))
            maker = rng.choice((ParamsDict, dict))
            raw = {}
            for key in ("F", "S", "f", "s", "E"):
                if rng.random() < 0.5:
                    raw[key] = bounded_value(
                        rng, g, "feed-rate" if key in "Ff" else "tool-power",
                        -5, 3000)
            params = maker(raw)
            transcript.append(["p-args", show(axes), show(params)])
            attempt("p-validate_move", g._validate_move, axes, params)
            transcript.append(["p-after", snapshot(g, writer)])
            attempt("p-track", g._track_move_params, params)
            transcript.append(["p-after", snapshot(g, writer)])
            attempt("p-update", g._update_axes, axes, params)
            transcript.append(["p-after", snapshot(g, writer)])
            attempt("p-validate-bad", g._validate_move, axes,
                    rng.choice((None, [], 5)))

    seed = int(os.environ["EQUIV_SEED"])
    part_within_bounds(random.Random(seed))
    for k in range(6):
        part_builder(random.Random(seed * 31 + k), 140)
    part_private(random.Random(seed + 7))

    json.dump(transcript, sys.stdout, allow_nan=True)


# ---------------------------------------------------------------------
# Driver
# ---------------------------------------------------------------------

def run_worker(tree, seed):
    env = {
        "PATH": os.environ.get("PATH", ""),
        "PYTHONPATH": tree,
        "PYTHONHASHSEED": "0",
        "PYTHONDONTWRITEBYTECODE": "1",
        "EQUIV_TREE": tree,
        "EQUIV_SEED": str(seed),
    }
    done = subprocess.run(
        [sys.executable, os.path.abspath(__file__), "--worker"],
        env=env, stdin=subprocess.DEVNULL, capture_output=True,
        text=True, timeout=600, cwd="/tmp", check=False,
    )
    if done.returncode != 0:
        sys.stderr.write(done.stderr[-4000:])
        raise SystemExit(f"worker failed for {tree}")
    return json.loads(done.stdout)


def main():
    total = 0
    stats = {}
    for seed in SEEDS:
        orig = run_worker(TREES["orig"], seed)
        twin = run_worker(TREES["twin"], seed)
        for index, (a, b) in enumerate(zip(orig, twin)):
            if json.dumps(a) != json.dumps(b):
                print("MISMATCH at entry", index, "seed", seed)
                for entry in orig[max(0, index - 3):index]:
                    print("   context:", json.dumps(entry)[:600])
                print("   orig:", json.dumps(a)[:3000])
                print("   twin:", json.dumps(b)[:3000])
                raise SystemExit(1)
        assert len(orig) == len(twin), (len(orig), len(twin))
        assert json.dumps(orig) == json.dumps(twin)
        total += len(orig)
        for entry in orig:
            if len(entry) == 2 and isinstance(entry[1], list) \
                    and entry[1] and entry[1][0] in ("ok", "raise"):
                key = entry[1][0] if entry[1][0] == "ok" else entry[1][1]
                stats[key] = stats.get(key, 0) + 1
        emitted = sum(len(e[1][1]) for e in orig if e[0] in ("after", "p-after"))
        print(f"seed {seed}: {len(orig)} transcript entries, "
              f"{emitted} emitted lines, identical")
    print("outcomes:", dict(sorted(stats.items())))
    print(f"EQUIVALENT: {total} transcript entries identical in both trees")


if __name__ == "__main__":
    if "--worker" in sys.argv:
        worker()
    else:
        main()
