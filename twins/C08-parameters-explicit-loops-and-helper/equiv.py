#!/usr/bin/env python
"""Differential check for the C08 refactoring (DefaultFormatter.command /
DefaultFormatter.parameters).

Parent mode (no arguments): runs this same file as a worker in two
subprocesses, one with PYTHONPATH=/repo (original tree) and one with
PYTHONPATH=/tmp/wtT-C08 (refactored tree), and asserts that the two
transcripts are byte-for-byte identical.  Exit status 0 means identical.

Worker mode (argument "worker"): drives the formatter and the builder
with seeded pseudo-random inputs and prints a transcript to stdout.
"""

import os
import subprocess
import sys

TREES = (("orig", "/repo"), ("twin", "/tmp/wtT-C08"))
SEED = 80808


# ---------------------------------------------------------------------------
# worker
# ---------------------------------------------------------------------------

def worker():
    import random
    import logging
    from decimal import Decimal
    from fractions import Fraction

    import numpy as np

    import gscrib
    from gscrib import GCodeBuilder, GCodeCore
    from gscrib.formatters import DefaultFormatter
    from gscrib.writers.base_writer import BaseWriter

    logging.disable(logging.CRITICAL)
    rng = random.Random(SEED)
    out = []

    def emit(*items):
        out.append(" | ".join(repr(i) for i in items))

    def outcome(fn, *args, **kwargs):
        try:
            return ("ok", fn(*args, **kwargs))
        except BaseException as e:  # noqa: BLE001 - we want everything
            cause = e.__cause__
            return (
                "exc", type(e).__name__, str(e),
                type(cause).__name__ if cause is not None else None,
                str(cause) if cause is not None else None,
            )

    # ----- value pools ----------------------------------------------------

    special_floats = [
        0.0, -0.0, 1.0, -1.0, 0.5, -0.5, 1.5, 2.5, 0.05, 0.15, 0.25,
        0.000005, 0.0000049999, 0.0000050001, 1e-12, 5e-13, 4.9e-13,
        5e-324, -5e-324, 2.2250738585072014e-308, 1e15, -1e15,
        999999999999999.9, 123456789.123456789, 1e-7, 1e16, 1e22,
        0.1 + 0.2, 1 / 3, -2 / 3, 99.999995, 99.9999949, 0.9999999999995,
        float("nan"), float("inf"), float("-inf"),
    ]

    def rand_number():
        k = rng.randrange(14)
        if k == 0:
            return rng.choice(special_floats)
        if k == 1:
            return rng.randint(-10**6, 10**6)
        if k == 2:
            return rng.uniform(-1000, 1000)
        if k == 3:
            return rng.uniform(-1, 1) * 10 ** rng.randint(-14, 15)
        if k == 4:
            return np.float64(rng.choice(special_floats))
        if k == 5:
            return np.float32(rng.uniform(-100, 100))
        if k == 6:
            return np.int64(rng.randint(-10**9, 10**9))
        if k == 7:
            return np.int32(rng.randint(-1000, 1000))
        if k == 8:
            return rng.choice([True, False, np.bool_(True), np.uint8(7)])
        if k == 9:
            # value at a rounding tie for some number of places
            p = rng.randint(0, 12)
            return (rng.randint(-10**4, 10**4) + 0.5) / 10 ** p
        if k == 10:
            return rng.choice([
                Fraction(1, 3), Fraction(-7, 2), Decimal("1.25"),
                Decimal("NaN"), Decimal("Infinity"), Decimal("0"),
                np.float16(1.5), np.longdouble(0.1),
            ])
        if k == 11:
            return rng.choice([complex(1, 2), complex(0, 0), 0j, np.complex128(3)])
        if k == 12:
            return round(rng.uniform(-500, 500), rng.randint(0, 6))
        return rng.randint(-5, 5)

    def rand_other():
        return rng.choice([
            None, "", "abc", "1e5", " x ", "nan", [1, 2], (3,), {"a": 1},
            b"bytes", object, "T1", "$", "\n", "P1 (x)",
        ])

    def rand_value():
        return rand_number() if rng.random() < 0.8 else rand_other()

    key_pool = [
        "x", "y", "z", "X", "Y", "Z", "e", "E", "f", "F", "s", "S", "p",
        "P", "i", "j", "k", "I", "J", "K", "a", "A", "b", "c", "t", "T",
        "xy", "Xx", "", " ", "ß", "e1", "comment", "ǆ",
    ]

    def rand_params():
        n = rng.choice([0, 0, 1, 1, 2, 3, 4, 5, 8])
        d = {}
        for _ in range(n):
            key = rng.choice(key_pool)
            if rng.random() < 0.03:
                key = rng.choice([1, None, 2.5, ("x",), b"x"])
            d[key] = rand_value()
        return d

    comment_symbols = [
        ";", "(", "[", "{", "<", '"', "'", "/*", "//", "#", " ; ", ";;",
        "{x", "}", "{}", "{0}", "%", "", "   ",
    ]
    line_endings = ["os", "\n", "\r\n", "\\n", "\\r\\n", "", "|", "\\t\\n", "\\x"]
    labels = ["X", "Y", "Z", "a", " b ", "U", "xx", "", " ", "E", "Y", "é"]

    def rand_comment():
        return rng.choice([
            None, None, "", "  ", "hello", " padded ", "a\nb", "a\r\nb",
            "x) y", "close ] } > \" ' */", "{}", "{0}", "ünï", "\t", "a;b",
            "line\x0bfeed", "tail\n",
        ])

    class LoggedFormatter(DefaultFormatter):
        """Records the order of the calls made by the refactored code."""

        __slots__ = ("calls",)

        def __init__(self):
            self.calls = []
            super().__init__()

        def number(self, number):
            self.calls.append(("number", repr(number)))
            return super().number(number)

        def comment(self, text):
            self.calls.append(("comment", text))
            return super().comment(text)

        def parameters(self, params):
            self.calls.append(("parameters", repr(params)))
            return super().parameters(params)

    def configure(fmt):
        emit("cfg-dp", outcome(fmt.set_decimal_places,
            rng.choice([0, 1, 2, 3, 4, 5, 6, 8, 10, 12, -1, 3.0, None])))
        emit("cfg-cs", outcome(fmt.set_comment_symbols, rng.choice(comment_symbols)))
        emit("cfg-le", outcome(fmt.set_line_endings, rng.choice(line_endings)))
        for _ in range(rng.randrange(3)):
            emit("cfg-ax", outcome(fmt.set_axis_label,
                rng.choice(["x", "y", "z", "X", "w", ""]), rng.choice(labels)))

    # ----- part A: formatter driven directly -------------------------------

    for case in range(700):
        fmt = LoggedFormatter() if case % 2 else DefaultFormatter()
        configure(fmt)

        for _ in range(4):
            params = rand_params()
            emit("A-params", case, repr(params), outcome(fmt.parameters, params))

            cmd = rng.choice(["G0", "G1", "M104", "", " G1 ", "g92", "T"])
            pkind = rng.randrange(6)
            p = (None if pkind == 0 else {} if pkind == 1 else
                 [1] if pkind == 5 and rng.random() < 0.2 else rand_params())
            c = rand_comment()
            if rng.random() < 0.03:
                c = rng.choice([5, b"x", ["a"]])
            if rng.random() < 0.03:
                cmd = rng.choice([None, 5])
            r = outcome(fmt.command, cmd, p, c)
            emit("A-command", case, cmd, repr(p), c, r)

            # positional / keyword call shapes
            emit("A-command-kw", case, outcome(fmt.command, command=cmd, comment=c))
            emit("A-command-1", case, outcome(fmt.command, cmd))

            if r[0] == "ok" and isinstance(r[1], str):
                emit("A-line", case, outcome(fmt.line, r[1]))

        if isinstance(fmt, LoggedFormatter):
            emit("A-calls", case, fmt.calls)

        emit("A-state", case, fmt._labels, fmt._decimal_places,
             fmt._line_endings, fmt._comment_template, fmt._comment_ending)

    # subclass-visible surface must not have changed names we rely on
    emit("A-api", sorted(n for n in dir(DefaultFormatter) if not n.startswith("_")))

    # ----- part B: through the builders, with a fake writer -----------------

    class FakeWriter(BaseWriter):
        def __init__(self):
            self.lines = []

        def connect(self):
            return self

        def disconnect(self, wait=True):
            self.lines.append(("disconnect", wait))

        def write(self, statement):
            self.lines.append(statement)

        def flush(self):
            self.lines.append("flush")

    def rand_coord():
        k = rng.randrange(8)
        if k == 0:
            return rng.choice(special_floats)
        if k == 1:
            return None
        if k == 2:
            return np.float64(rng.uniform(-100, 100))
        if k == 3:
            return rng.randint(-100, 100)
        return round(rng.uniform(-300, 300), rng.randint(0, 7))

    def rand_kwargs():
        kw = {}
        for ax in "xyz":
            if rng.random() < 0.6:
                kw[rng.choice([ax, ax.upper()])] = rand_coord()
        for _ in range(rng.randrange(3)):
            kw[rng.choice(["E", "e", "F", "f", "S", "I", "J", "a", "T", "P"])] = rand_value()
        if rng.random() < 0.4:
            kw["comment"] = rand_comment()
        return kw

    def snapshot(g):
        items = [repr(g.position), repr(g.distance_mode),
                 repr(dict(g._current_params))]
        state = getattr(g, "state", None)
        if state is not None:
            for name in sorted(n for n in dir(type(state)) if not n.startswith("_")):
                try:
                    value = getattr(state, name)
                    if callable(value):
                        continue  # bound methods: repr holds an address
                    items.append((name, repr(value)))
                except BaseException as e:  # noqa: BLE001
                    items.append((name, type(e).__name__))
        return items

    for case in range(160):
        cfg = {
            "decimal_places": rng.choice([0, 1, 2, 3, 5, 5, 8, 12]),
            "comment_symbols": rng.choice([";", "(", "[", "/*", "//", "#", "{", "'"]),
            "line_endings": rng.choice(["os", "\n", "\r\n", "\\n", "\\r\\n"]),
            "x_axis": rng.choice(["X", "X", "U", "a", "Y"]),
            "y_axis": rng.choice(["Y", "Y", "V", "b"]),
            "z_axis": rng.choice(["Z", "Z", "W", "zz"]),
        }
        cls = GCodeBuilder if case % 4 else GCodeCore
        made = outcome(cls, cfg)
        emit("B-new", case, cls.__name__, cfg, made[0] if made[0] == "ok" else made)
        if made[0] != "ok":
            continue
        g = made[1]
        w = FakeWriter()
        g.add_writer(w)

        for step in range(14):
            ops = ["move", "rapid", "set_axis", "comment", "write", "rename_axis",
                   "move_absolute", "rapid_absolute", "set_distance_mode"]
            if cls is GCodeBuilder:
                ops += ["auto_home", "probe", "set_feed_rate", "tool_on", "tool_off",
                        "sleep", "set_fan_speed", "set_bed_temperature",
                        "set_hotend_temperature", "set_tool_power", "power_on",
                        "tool_change", "coolant_on", "halt", "query", "pause",
                        "stop", "wait", "set_length_units", "set_plane",
                        "emergency_halt", "set_chamber_temperature"]
            op = rng.choice(ops)
            fn = getattr(g, op)
            if op in ("move", "rapid", "set_axis", "auto_home",
                      "move_absolute", "rapid_absolute"):
                if rng.random() < 0.2:
                    args = ((rand_coord(), rand_coord(), rand_coord()),)
                    kw = {k: v for k, v in rand_kwargs().items() if k.lower() not in "xyz"}
                else:
                    args, kw = (), rand_kwargs()
            elif op == "probe":
                args = (rng.choice(["towards", "away", "towards-no-error", "bogus"]),)
                kw = rand_kwargs()
            elif op == "comment":
                args, kw = (rand_comment() or "text",), {}
            elif op == "write":
                args, kw = (rng.choice(["G1 X1", "M0  ", "", "a\nb", 5]),), {}
            elif op == "rename_axis":
                args, kw = (rng.choice(["x", "y", "z", "q"]), rng.choice(labels)), {}
            elif op == "set_distance_mode":
                args, kw = (rng.choice(["absolute", "relative", "bogus"]),), {}
            elif op in ("set_feed_rate", "sleep", "set_bed_temperature",
                        "set_hotend_temperature", "set_tool_power",
                        "set_chamber_temperature"):
                args, kw = (rng.choice([rand_number(), abs(rng.uniform(0, 3000)),
                                        float(rng.randint(0, 300))]),), {}
            elif op == "set_fan_speed":
                args, kw = (float(rng.randint(-5, 260)), rng.randint(-1, 3)), {}
            elif op == "tool_on":
                args, kw = (rng.choice(["clockwise", "counter", "cw", "bogus"]),
                            rng.choice([rand_number(), 1000.0, 12000.5])), {}
            elif op == "power_on":
                args, kw = (rng.choice(["constant", "dynamic", "bogus"]),
                            rng.choice([rand_number(), 50.0, 0.5])), {}
            elif op == "tool_change":
                args, kw = (rng.choice(["automatic", "manual", "bogus"]),
                            rng.randint(-1, 9)), {}
            elif op == "coolant_on":
                args, kw = (rng.choice(["flood", "mist", "bogus"]),), {}
            elif op == "halt":
                args = (rng.choice(["pause", "optional-pause", "end-with-reset",
                                    "wait-for-bed", "wait-for-hotend", "bogus"]),)
                kw = {k: v for k, v in rand_kwargs().items() if k in ("S", "P", "T")}
            elif op == "query":
                args, kw = (rng.choice(["position", "temperature", "bogus"]),), {}
            elif op == "pause":
                args, kw = (rng.choice([True, False]),), {}
            elif op == "stop":
                args, kw = (rng.choice([True, False]),), {}
            elif op == "emergency_halt":
                args, kw = (rand_comment() or "msg", rng.choice([True, False])), {}
            elif op == "set_length_units":
                args, kw = (rng.choice(["mm", "in", "bogus"]),), {}
            elif op == "set_plane":
                args, kw = (rng.choice(["xy", "zx", "yz", "bogus"]),), {}
            else:
                args, kw = (), {}

            before = len(w.lines)
            r = outcome(fn, *args, **kw)
            emit("B-op", case, step, op, repr(args), repr(kw), r,
                 w.lines[before:], snapshot(g))

        emit("B-teardown", case, outcome(g.teardown), w.lines[-3:])

    sys.stdout.write("\n".join(out) + "\n")
    sys.stdout.write("TRANSCRIPT-LINES %d\n" % len(out))


# ---------------------------------------------------------------------------
# parent
# ---------------------------------------------------------------------------

def run_tree(path):
    env = dict(os.environ)
    env["PYTHONPATH"] = path
    env["PYTHONHASHSEED"] = "0"
    env["PYTHONDONTWRITEBYTECODE"] = "1"
    proc = subprocess.run(
        [sys.executable, os.path.abspath(__file__), "worker"],
        env=env, cwd="/tmp/twin-C08", stdin=subprocess.DEVNULL,
        stdout=subprocess.PIPE, stderr=subprocess.PIPE, timeout=600,
    )
    if proc.returncode != 0:
        sys.stderr.write(proc.stderr.decode("utf-8", "replace")[-4000:])
        raise SystemExit("worker failed for %s (rc=%s)" % (path, proc.returncode))
    return proc.stdout.decode("utf-8", "replace")


def main():
    transcripts = {}
    for name, path in TREES:
        text = run_tree(path)
        # make sure each worker really imported its own tree
        probe = subprocess.run(
            [sys.executable, "-c", "import gscrib; print(gscrib.__file__)"],
            env={**os.environ, "PYTHONPATH": path}, cwd="/tmp/twin-C08",
            stdin=subprocess.DEVNULL, stdout=subprocess.PIPE, timeout=120,
        ).stdout.decode().strip()
        assert probe.startswith(path + "/"), (name, probe)
        transcripts[name] = text.splitlines()
        print("%s: %s -> %d transcript lines" % (name, probe, len(transcripts[name])))

    a, b = transcripts["orig"], transcripts["twin"]
    for i, (la, lb) in enumerate(zip(a, b)):
        if la != lb:
            print("FIRST DIFFERENCE at line %d" % i)
            print("  orig:", la[:2000])
            print("  twin:", lb[:2000])
            raise SystemExit(1)
    assert len(a) == len(b), (len(a), len(b))
    assert len(a) > 1000 and a[-1].startswith("TRANSCRIPT-LINES")

    oks = sum(1 for l in a if "('ok'," in l)
    excs = sum(1 for l in a if "('exc'," in l)
    print("identical transcripts: %d lines (%d ok outcomes, %d exception outcomes)"
          % (len(a), oks, excs))


if __name__ == "__main__":
    if len(sys.argv) > 1 and sys.argv[1] == "worker":
        worker()
    else:
        main()
