#!/usr/bin/env python
"""Differential check: /repo (reference) vs /tmp/wtU-C10 (refactored).

The parent process starts one child per tree (PYTHONPATH selects the
tree), every child runs the same seeded scenarios and dumps a JSON
transcript, the parent asserts that both transcripts are identical.

Refactored code that is driven here:
  - gscrib.enums.Direction.enforce
  - GCodeCore.to_absolute_list / GCodeCore.to_distance_mode
  - PathTracer.spline / polyline / parametric (+ the new private helpers)
and, through them, every tracer entry point (arc, arc_radius, circle,
helix, thread, spiral).
"""

import json
import os
import subprocess
import sys

TREES = {"reference": "/repo", "refactored": "/tmp/wtU-C10"}
SEED = 20261004


# ---------------------------------------------------------------------
# Child: run the scenarios against whichever tree is on PYTHONPATH
# ---------------------------------------------------------------------

def child(out_path):
    import logging
    import math
    import random
    import warnings

    import numpy as np

    import gscrib
    from gscrib import GCodeBuilder
    from gscrib.enums import Direction
    from gscrib.geometry import Point
    from gscrib.writers.base_writer import BaseWriter

    warnings.simplefilter("ignore")
    logging.disable(logging.CRITICAL)      # keep the console quiet
    tree = os.path.dirname(os.path.dirname(os.path.abspath(gscrib.__file__)))
    rng = random.Random(SEED)
    transcript = []

    class RecordingWriter(BaseWriter):
        """In-process fake device: records bytes, may fail on demand."""

        def __init__(self, fail_at=None, error=OSError):
            self.lines = []
            self.fail_at = fail_at
            self.error = error
            self.calls = 0

        def connect(self):
            return self

        def disconnect(self, wait=True):
            pass

        def write(self, statement):
            self.calls += 1
            if self.fail_at is not None and self.calls == self.fail_at:
                raise self.error("fake device failure")
            self.lines.append(repr(statement))

    def show(value):
        if isinstance(value, np.ndarray):
            return "ndarray%s%s" % (value.shape, [repr(v) for v in value.ravel().tolist()])
        if isinstance(value, list):
            return [show(v) for v in value]
        return "%s:%r" % (type(value).__name__, value)

    def rnd(scale=50.0):
        kind = rng.random()
        if kind < 0.08:
            return float(rng.randint(-5, 5))
        if kind < 0.12:
            return rng.randint(-5, 5)
        if kind < 0.14:
            return 0.0
        if kind < 0.16:
            return -0.0
        return rng.uniform(-scale, scale)

    def rnd_point(dims=None, allow_none=False):
        dims = dims or rng.choice([2, 3, 3])
        values = [rnd() for _ in range(dims)]
        if allow_none and rng.random() < 0.2:
            values[rng.randrange(dims)] = None
        kind = rng.random()
        if kind < 0.3:
            return tuple(values)
        if kind < 0.5:
            return list(values)
        return Point(*values)

    def make_builder(entry):
        fail_at = rng.choice([None] * 12 + [1, 2, 3, 7])
        error = rng.choice([OSError, ValueError, RuntimeError])
        writer = RecordingWriter(None, error)     # armed after the setup
        places = rng.choice([5, 5, 3, 1, 0, 8])
        g = GCodeBuilder(decimal_places=places, line_endings="\n")
        g.add_writer(writer)
        hook_calls = []

        if rng.random() < 0.25:
            def hook(origin, target, params, state):
                hook_calls.append(show([origin, target, dict(params)]))
                return params
            g.add_hook(hook)

        setup = []
        start = rng.random()
        if start < 0.15:
            setup.append("unknown-start")
        elif start < 0.3:
            value = rnd()
            g.move(x=value)
            setup.append("partial-start")
        else:
            g.move(rnd_point(3))

        if rng.random() < 0.3:
            angle = rng.uniform(-180, 180)
            axis = rng.choice(["x", "y", "z"])
            g.transform.rotate(angle, axis)
            setup.append("rotate")
        if rng.random() < 0.2:
            g.transform.translate(rnd(), rnd(), rnd())
            setup.append("translate")

        mode = rng.choice(["absolute", "relative"])
        g.set_distance_mode(mode)
        direction = rng.choice(["cw", "ccw", "clockwise", "counter"])
        g.set_direction(direction)
        resolution = rng.choice([0.1, 0.5, 1.0, 2.5, 10.0, 0.37, 100.0])
        g.set_resolution(resolution)

        writer.calls = 0
        writer.fail_at = fail_at
        entry["setup"] = [setup, mode, direction, resolution, places,
                          fail_at, error.__name__]
        return g, writer, hook_calls

    def rnd_kwargs():
        kind = rng.random()
        if kind < 0.5:
            return {}
        if kind < 0.7:
            return {"F": rng.choice([100, 1500.5, 3000])}
        if kind < 0.8:
            return {"comment": "trace"}
        if kind < 0.85:
            return {"points": 3, "params": 1.5}     # must pass through
        if kind < 0.9:
            return {"E": rng.uniform(0, 2), "F": 600}
        if kind < 0.95:
            return {"point": (1, 2)}                # duplicate argument
        return {"x": 1.0}                           # duplicate coordinate

    def on_circle(g, center, radius_scale=1.0):
        """Absolute target at the same distance from the centre."""
        o = g.position.resolve()
        cx, cy = o.x + center[0], o.y + center[1]
        radius = math.hypot(o.x - cx, o.y - cy) * radius_scale
        angle = rng.uniform(-math.pi, math.pi)
        return (cx + radius * math.cos(angle), cy + radius * math.sin(angle))

    def as_target(g, absolute_xy, z=None):
        """Express an absolute XY(Z) target in the current distance mode."""
        o = g.position.resolve()
        values = list(absolute_xy) + ([z] if z is not None else [])
        if g.distance_mode.is_relative:
            origin = [o.x, o.y, o.z]
            values = [v - origin[i] for i, v in enumerate(values)]
        return tuple(values)

    # -- operations -----------------------------------------------------

    def op_arc(g):
        center = (rnd(20), rnd(20))
        if rng.random() < 0.75:
            z = rnd(10) if rng.random() < 0.4 else None
            target = as_target(g, on_circle(g, center), z)
        else:
            target = rnd_point()
        return lambda: g.trace.arc(target, center, **rnd_kwargs()), [target, center]

    def op_arc_radius(g):
        o = g.position.resolve()
        dx, dy = rnd(20), rnd(20)
        z = rnd(10) if rng.random() < 0.4 else None
        target = as_target(g, (o.x + dx, o.y + dy), z)
        half = math.hypot(dx, dy) / 2
        radius = rng.choice([
            half * rng.uniform(1.0, 4.0), -half * rng.uniform(1.0, 4.0),
            half, -half, half + 0.005, half - 0.005, half - 0.5, 0.0, -0.0,
            float("nan"), float("inf"), 3,
        ])
        return lambda: g.trace.arc_radius(target, radius, **rnd_kwargs()), [target, radius]

    def op_circle(g):
        center = rng.choice([(rnd(20), rnd(20)), (0.0, 0.0), (rnd(20), rnd(20), rnd(5)),
                             (1.0,), "ab", None])
        return lambda: g.trace.circle(center, **rnd_kwargs()), [center]

    def op_spline(g):
        kind = rng.random()
        count = rng.choice([0, 1, 2, 3, 4, 6, 9])
        dims = rng.choice([2, 3])
        targets = [rnd_point(dims, allow_none=True) for _ in range(count)]
        if kind < 0.2 and targets:                   # consecutive duplicates
            index = rng.randrange(len(targets))
            targets.insert(index, targets[index])
            targets.insert(index, targets[index])
        elif kind < 0.3:                             # nothing but the origin
            zero = (0.0, 0.0, 0.0)
            o = g.position.resolve()
            same = zero if g.distance_mode.is_relative else (o.x, o.y, o.z)
            targets = [same] * rng.choice([1, 2, 3])
        elif kind < 0.36 and targets:                # non finite control
            bad = rng.choice([float("nan"), float("inf")])
            targets[rng.randrange(len(targets))] = (bad, 1.0, 2.0)
        elif kind < 0.42 and targets:                # malformed element
            targets[rng.randrange(len(targets))] = rng.choice(
                [(1, 2, 3, 4), "xy", None, (), ("a", "b")])
        elif kind < 0.46:
            targets = tuple(targets)
        elif kind < 0.48:
            targets = rng.choice([None, 5, "abc"])
        return lambda: g.trace.spline(targets, **rnd_kwargs()), [targets]

    def op_helix(g):
        center = (rnd(20), rnd(20))
        target = rnd_point()
        turns = rng.choice([1, 1, 2, 3, 5, 0, -1, 2.5, True])
        return lambda: g.trace.helix(target, center, turns, **rnd_kwargs()), [target, center, turns]

    def op_thread(g):
        target = rnd_point(3)
        pitch = rng.choice([1, 0.5, 2.0, 7.3, 0, -1.0, float("nan"), float("inf")])
        return lambda: g.trace.thread(target, pitch, **rnd_kwargs()), [target, pitch]

    def op_spiral(g):
        target = rnd_point()
        turns = rng.choice([1, 2, 4, 0, -3])
        return lambda: g.trace.spiral(target, turns, **rnd_kwargs()), [target, turns]

    def op_polyline(g):
        count = rng.choice([0, 1, 2, 5, 12])
        targets = [rnd_point(allow_none=True) for _ in range(count)]
        kind = rng.random()
        if kind < 0.2 and targets:                   # fails half way
            targets[rng.randrange(len(targets))] = rng.choice(
                [(1, 2, 3, 4), "xy", None, ("a", 1.0), (float("nan"), 0.0)])
        elif kind < 0.25:
            targets = tuple(targets)
        elif kind < 0.3:
            targets = rng.choice([None, 7, "abc", {1: 2}])
        return lambda: g.trace.polyline(targets, **rnd_kwargs()), [targets]

    def op_parametric(g):
        a, b, c = rnd(30), rnd(30), rnd(10)
        kind = rng.choice(["line", "wave", "four", "two", "one-row", "flat",
                           "raises", "list", "const", "nan"])

        def function(thetas):
            zeros = np.zeros(thetas.shape)
            if kind == "line":
                return np.column_stack((a * thetas, b * thetas, c * thetas))
            if kind == "wave":
                return np.column_stack((a * thetas, b * np.sin(6 * thetas), zeros))
            if kind == "four":
                return np.column_stack((a * thetas, zeros, zeros, zeros))
            if kind == "two":
                return np.column_stack((a * thetas, b * thetas))
            if kind == "one-row":
                return np.array([[a, b, c]])
            if kind == "flat":
                return a * thetas
            if kind == "raises":
                raise KeyError("user function failed")
            if kind == "list":
                return [[a, b, c], [b, c, a]]
            if kind == "const":
                return np.column_stack((zeros + a, zeros + b, zeros + c))
            return np.column_stack((a * thetas, zeros * np.nan, zeros))

        length = rng.choice([1.0, 5.5, 40.0, 250.0, 0.0, -3.0, 0.01,
                             float("nan"), 12])
        return lambda: g.trace.parametric(function, length, **rnd_kwargs()), [kind, a, b, c, length]

    def op_estimate(g):
        a, b = rnd(30), rnd(30)
        samples = rng.choice([2, 3, 50, 500, 1, 0])

        def function(thetas):
            return np.column_stack((a * thetas, b * thetas ** 2, thetas))

        return lambda: g.trace.estimate_length(samples, function), [a, b, samples]

    def op_to_absolute_list(g):
        count = rng.choice([0, 1, 3, 6])
        points = [rnd_point(allow_none=True) for _ in range(count)]
        kind = rng.random()
        if kind < 0.2 and points:
            points[rng.randrange(len(points))] = rng.choice(
                [(1, 2, 3, 4), None, "xy", (), (None, None, None)])
        elif kind < 0.3:
            points = tuple(points)
        elif kind < 0.35:
            points = rng.choice([None, 3, "ab"])
        return lambda: g.to_absolute_list(points), [points]

    def op_to_distance_mode(g):
        point = rng.choice([
            Point(rnd(), rnd(), rnd()), Point(x=rnd()), Point.unknown(),
            Point(None, rnd(), None), (1.0, 2.0, 3.0), [1.0, 2.0], None, "ab",
            Point(float("nan"), float("inf"), -0.0), Point(np.float64(rnd()), 2, 3),
        ])
        return lambda: g.to_distance_mode(point), [point]

    def op_to_absolute(g):
        point = rng.choice([rnd_point(allow_none=True), (1.0,), (), None, (1, 2, 3, 4)])
        return lambda: g.to_absolute(point), [point]

    operations = [
        op_arc, op_arc, op_arc_radius, op_arc_radius, op_circle, op_spline,
        op_spline, op_spline, op_helix, op_helix, op_thread, op_spiral,
        op_polyline, op_polyline, op_polyline, op_parametric, op_parametric,
        op_estimate, op_to_absolute_list, op_to_absolute_list,
        op_to_distance_mode, op_to_absolute,
    ]

    def run(entry, call):
        try:
            entry["result"] = show(call())
        except BaseException as error:           # noqa: transcript records it
            entry["raised"] = [type(error).__name__, str(error)]
            cause = error.__cause__
            if cause is not None:
                entry["cause"] = [type(cause).__name__, str(cause)]

    for index in range(700):
        entry = {"index": index}
        g, writer, hook_calls = make_builder(entry)
        for step in range(rng.choice([1, 1, 2, 3])):
            operation = rng.choice(operations)
            call, args = operation(g)
            record = {"op": operation.__name__, "args": show(args)}
            run(record, call)
            record["position"] = show(g.position)
            record["mode"] = str(g.distance_mode)
            record["feed"] = show(g.get_parameter("F"))
            record["emitted"] = len(writer.lines)
            entry.setdefault("steps", []).append(record)
        entry["lines"] = writer.lines
        entry["writer_calls"] = writer.calls
        entry["hooks"] = hook_calls
        entry["state"] = [str(g.state.direction), repr(g.state.resolution),
                          str(g.state.distance_mode)]
        transcript.append(entry)

    # -- Direction.enforce / full_turn, driven directly -------------------

    angles = [0, 0.0, -0.0, 1, -1, math.pi, -math.pi, 2 * math.pi, -2 * math.pi,
              7.5, -7.5, float("nan"), float("inf"), float("-inf"), 1e-320,
              -1e-320, True, False, None, "1.0", 1 + 0j, [1.0], (0.0,)]
    angles += [rng.uniform(-10, 10) for _ in range(150)]
    angles += [np.float64(rng.uniform(-7, 7)) for _ in range(40)]
    angles += [np.float32(rng.uniform(-7, 7)) for _ in range(10)]
    angles += [np.int64(rng.randint(-7, 7)) for _ in range(10)]

    for direction in (Direction.CLOCKWISE, Direction.COUNTER):
        for angle in angles:
            entry = {"enforce": [str(direction), show(angle)]}
            run(entry, lambda: direction.enforce(angle))
            transcript.append(entry)

        for values in ([0.5], [-0.5], [0.0], [1.0, -1.0], [], [[2.0]], [float("nan")]):
            array = np.array(values, dtype=float)
            entry = {"enforce-array": [str(direction), show(array)]}
            run(entry, lambda: direction.enforce(array))
            entry["argument-after"] = show(array)     # in-place update visible
            transcript.append(entry)

        transcript.append({"full_turn": show(direction.full_turn())})

    with open(out_path, "w") as stream:
        json.dump({"tree": tree, "transcript": transcript}, stream)


# ---------------------------------------------------------------------
# Parent
# ---------------------------------------------------------------------

def main():
    here = os.path.dirname(os.path.abspath(__file__))
    results = {}

    for name, tree in TREES.items():
        out_path = os.path.join(here, "transcript-%s.json" % name)
        env = dict(os.environ, PYTHONPATH=tree, PYTHONHASHSEED="0")
        subprocess.run(
            [sys.executable, os.path.abspath(__file__), "--child", out_path],
            env=env, cwd="/tmp", stdin=subprocess.DEVNULL, timeout=600,
            check=True, stdout=subprocess.DEVNULL)
        with open(out_path) as stream:
            results[name] = json.load(stream)
        assert results[name]["tree"] == tree, (name, results[name]["tree"])

    reference = results["reference"]["transcript"]
    refactored = results["refactored"]["transcript"]
    assert len(reference) == len(refactored), (len(reference), len(refactored))

    for expected, actual in zip(reference, refactored):
        assert expected == actual, "MISMATCH\n%s\n%s" % (
            json.dumps(expected)[:3000], json.dumps(actual)[:3000])

    scenarios = [e for e in reference if "steps" in e]
    steps = [s for e in scenarios for s in e["steps"]]
    raised = {}
    for step in steps:
        key = step.get("raised", ["-"])[0]
        raised[key] = raised.get(key, 0) + 1
    per_op = {}
    for step in steps:
        ok, bad = per_op.get(step["op"], (0, 0))
        per_op[step["op"]] = (ok + ("raised" not in step), bad + ("raised" in step))

    print("entries compared :", len(reference))
    print("builder scenarios:", len(scenarios), "steps:", len(steps))
    print("lines emitted    :", sum(len(e["lines"]) for e in scenarios))
    print("outcomes         :", dict(sorted(raised.items())))
    print("per op (ok, exc) :", dict(sorted(per_op.items())))
    print("IDENTICAL")


if __name__ == "__main__":
    if len(sys.argv) == 3 and sys.argv[1] == "--child":
        child(sys.argv[2])
    else:
        main()
