#!/venv/bin/python
"""Differential check for the C14 refactoring (twin 2).

Runs the same seeded scenarios against the pristine tree (/repo) and
the refactored tree (/tmp/wtU-C14), each in its own subprocess, and
asserts that the transcripts (and everything printed to stdout by the
console writer) are identical.

Refactored code that is driven here:
  * GCodeCore._initialize_writers (+ new private _configured_writers)
  * GCodeCore.comment
  * DefaultFormatter._to_comment_template (via set_comment_symbols,
    the constructor option comment_symbols, and directly)
"""

import io
import json
import os
import subprocess
import sys
import tempfile

TREES = {"old": "/repo", "new": "/tmp/wtU-C14"}
PYTHON = "/venv/bin/python"
SEED = 20261004


# --------------------------------------------------------------------------
# Worker (runs inside one tree)
# --------------------------------------------------------------------------

def worker(transcript_path: str) -> None:
    import random
    import numpy as np

    import gscrib
    import gscrib.gcode_core as core_module
    from gscrib import GCodeCore, GCodeBuilder
    from gscrib.config import GConfig
    from gscrib.enums import DirectWrite
    from gscrib.formatters import DefaultFormatter
    from gscrib.formatters import default_formatter as fmt_module
    from gscrib.writers import (
        BaseWriter, ConsoleWriter, FileWriter, SocketWriter, SerialWriter)

    expected_root = os.environ["EXPECTED_ROOT"]
    assert os.path.realpath(gscrib.__file__).startswith(
        os.path.realpath(expected_root) + os.sep), gscrib.__file__

    rng = random.Random(SEED)
    out = []  # transcript

    def rec(*items):
        out.append(list(items))

    def hexs(data):
        if isinstance(data, str):
            data = data.encode("utf-8", "surrogatepass")
        return bytes(data).hex()

    def attempt(label, func, *args, **kwargs):
        try:
            value = func(*args, **kwargs)
        except BaseException as e:  # noqa
            rec(label, "raised", type(e).__name__)
            return None
        rec(label, "ok", describe(value))
        return value

    def describe(value):
        if value is None or isinstance(value, (bool, int, float)):
            return repr(value)
        if isinstance(value, str):
            return ["str", type(value).__name__, hexs(value)]
        if isinstance(value, bytes):
            return ["bytes", value.hex()]
        return type(value).__name__

    class Recorder(BaseWriter):
        def __init__(self, name, fail_on=None):
            self.name = name
            self.lines = []
            self.events = []
            self.fail_on = fail_on

        def connect(self):
            self.events.append("connect")
            return self

        def disconnect(self, wait=True):
            self.events.append("disconnect:%r" % (wait,))

        def write(self, statement):
            self.events.append("write")
            if self.fail_on is not None and len(self.lines) == self.fail_on:
                self.lines.append(["fail", type(statement).__name__])
                raise OSError("fake failure")
            self.lines.append([type(statement).__name__, bytes(statement).hex()])

        def flush(self):
            self.events.append("flush")

    class BadStr:
        def __str__(self):
            raise KeyError("no str")

    class SubStr(str):
        pass

    class OddStr:
        def __str__(self):
            return SubStr("oddé")

    # -------------------------------------------------------- generators

    CHARS = [
        "a", "B", "7", " ", "  ", "\t", "\n", "\r", "\r\n", " ", "\x0b",
        "\x0c", "\x1c", "\x85", ";", "(", ")", "[", "]", "{", "}", "<", ">",
        '"', "'", "/*", "*/", "*", "/", "é", "ñ", "中",
        "\U0001f600", "{}", "{0}", "%s", "\\n", "\\", "\x00", " ", "=",
    ]

    def rand_text(maxlen=8):
        return "".join(rng.choice(CHARS) for _ in range(rng.randint(0, maxlen)))

    SYMBOLS = list(fmt_module.COMMENT_OPENINGS) + list(
        fmt_module.COMMENT_ENDINGS) + [
        ";", ";;", "#", "//", " ( ", "\t[\n", " ; ", "", "   ", "\n",
        "( ", "((", "(*", "/* ", "/", "*", "{}", "{0}", "{x}", "{", "}",
        "§", "中", "%", " (", " ", "()", "<!--",
    ]

    LINE_ENDINGS = [
        "os", "\n", "\r\n", "\r", "", "\\n", "\\r\\n", "\\t\\n", " \n",
        "é\n", "\\x41\\n", "\\", "\\x", "\\u00e9", "OS", "os ", ";\n",
        "\\N{BULLET}\\n", "中",
    ]

    def rand_symbols():
        roll = rng.random()
        if roll < 0.7:
            return rng.choice(SYMBOLS)
        if roll < 0.9:
            return rand_text(3)
        return rng.choice([None, 5, b";", ["("], ("(",), 1.5, SubStr("("),
                           SubStr(" [ "), SubStr("#")])

    def rand_args():
        pool = [
            0, 1, -1, 2.5, -0.0, float("nan"), float("inf"), None, True,
            "", " ", "x", "é中", "a\nb", ")", "*/", b"raw", (1, 2),
            [], {}, np.float64(1.25), np.int32(7), np.float32(0.1),
            np.array([1, 2]), Ellipsis, 10 ** 30, 1e-9, OddStr(), SubStr("s"),
        ]
        count = rng.choice([0, 0, 1, 1, 2, 3, 5])
        args = [rng.choice(pool) for _ in range(count)]
        if count and rng.random() < 0.08:
            args[rng.randrange(count)] = BadStr()
        return args

    def rand_message():
        roll = rng.random()
        if roll < 0.85:
            return rand_text(10)
        if roll < 0.9:
            return SubStr(rand_text(5))
        return rng.choice([None, 5, b"bytes", 1.5, ["x"], BadStr()])

    def describe_arg(a):
        try:
            text = repr(a)
        except BaseException as e:  # noqa
            return [type(a).__name__, "repr-raised"]
        if " at 0x" in text:  # addresses differ between processes
            text = "<object>"
        return [type(a).__name__, text]

    # ------------------------------------------------ 1. formatter direct

    for i in range(300):
        fmt = DefaultFormatter()
        symbols = rand_symbols()
        rec("fmt", i, describe_arg(symbols))
        attempt("fmt.set_comment_symbols", fmt.set_comment_symbols, symbols)
        rec("fmt.state", describe(fmt._comment_template),
            describe(fmt._comment_ending))
        direct = rand_symbols()
        rec("fmt.direct", describe_arg(direct))
        attempt("fmt._to_comment_template", fmt._to_comment_template, direct)
        rec("fmt.state", describe(fmt._comment_template),
            describe(fmt._comment_ending))
        for _ in range(3):
            text = rand_message()
            attempt("fmt.comment", fmt.comment, text)
            attempt("fmt.command", fmt.command, "G1", {"x": 1}, text)
        # restoring valid symbols after a failure
        attempt("fmt.set_comment_symbols", fmt.set_comment_symbols,
                rng.choice(SYMBOLS))
        rec("fmt.state", describe(fmt._comment_template),
            describe(fmt._comment_ending))
        attempt("fmt.comment", fmt.comment, "tail ) ] } > */ \" ' end")

    # ------------------------------ 2. constructor: writers from a config

    log = []

    def make_logging(base, label, fail=False):
        class Logged(base):
            def __init__(self, *args, **kwargs):
                log.append([label, "init", [describe_arg(a) for a in args]])
                if fail:
                    raise RuntimeError("factory failed")
                super().__init__(*args, **kwargs)
        Logged.__name__ = "Logged" + base.__name__
        return Logged

    class LoggedCore(GCodeCore):
        def add_writer(self, writer):
            log.append(["add_writer", type(writer).__name__,
                        [type(w).__name__ for w in self._writers]])
            super().add_writer(writer)

    class LoggedBuilder(GCodeBuilder):
        def add_writer(self, writer):
            log.append(["add_writer", type(writer).__name__,
                        [type(w).__name__ for w in self._writers]])
            super().add_writer(writer)

    PRINT_LINES = [False, True, True, "true", 1, 0, None, "True"]
    DIRECT = ["off", "socket", "serial", DirectWrite.OFF, DirectWrite.SOCKET,
              DirectWrite.SERIAL, "SOCKET", "Serial", None, 0, "", "tcp"]
    PORTS = [8000, "8000", "abc", 0, 70000, -1, "/dev/ttyFake", None, 1.5,
             "65535", 65536, " 80 ", True]
    BAUDS = [250000, 115200, 0, -1, "9600", None, 1.5, True]
    HOSTS = ["localhost", "127.0.0.1", "", None, 5]

    originals = {name: getattr(core_module, name) for name in (
        "ConsoleWriter", "FileWriter", "SocketWriter", "SerialWriter")}

    def rand_output(index):
        roll = rng.random()
        if roll < 0.35:
            return None, None
        if roll < 0.55:
            name = "ctor_%d/sub/out.gcode" % index
            return name, ("path", name)
        if roll < 0.7:
            f = io.StringIO()
            return f, ("text", f)
        if roll < 0.85:
            f = io.BytesIO()
            return f, ("binary", f)
        if roll < 0.9:
            return "", ("path", "")
        return rng.choice([5, b"x.gcode", ["a"]]), None

    for i in range(260):
        del log[:]
        instrument = rng.random() < 0.6
        failing = rng.choice([None, None, None, "ConsoleWriter", "FileWriter",
                              "SocketWriter", "SerialWriter"])
        if instrument:
            for name, cls in originals.items():
                setattr(core_module, name,
                        make_logging(cls, name, fail=(name == failing)))
        else:
            for name, cls in originals.items():
                setattr(core_module, name, cls)

        output, handle = rand_output(i)
        kwargs = {}
        if rng.random() < 0.8:
            kwargs["print_lines"] = rng.choice(PRINT_LINES)
        if output is not None or rng.random() < 0.2:
            kwargs["output"] = output
        if rng.random() < 0.7:
            kwargs["direct_write"] = rng.choice(DIRECT)
        if rng.random() < 0.7:
            kwargs["port"] = rng.choice(PORTS)
        if rng.random() < 0.4:
            kwargs["baudrate"] = rng.choice(BAUDS)
        if rng.random() < 0.4:
            kwargs["host"] = rng.choice(HOSTS)
        if rng.random() < 0.5:
            kwargs["comment_symbols"] = rand_symbols()
        if rng.random() < 0.5:
            kwargs["line_endings"] = rng.choice(LINE_ENDINGS)

        cls = rng.choice([LoggedCore, LoggedBuilder, GCodeCore, GCodeBuilder])
        style = rng.choice(["kwargs", "dict", "config"])
        rec("ctor", i, cls.__name__, style, instrument, failing,
            sorted((k, describe_arg(v)) for k, v in kwargs.items()))

        g = None
        try:
            if style == "kwargs":
                g = cls(**kwargs)
            elif style == "dict":
                g = cls(dict(kwargs))
            else:
                g = cls(GConfig(**kwargs))
        except BaseException as e:  # noqa
            rec("ctor.raised", type(e).__name__)
        rec("ctor.log", json.loads(json.dumps(log)))

        for name, original in originals.items():
            setattr(core_module, name, original)

        if g is None:
            continue

        names = [type(w).__name__ for w in g._writers]
        rec("ctor.writers", names)
        for index in (0, 1, 2, 3, -1):
            attempt("get_writer", g.get_writer, index)

        # never talk to devices: drop the (unconnected) device writers
        for w in list(g._writers):
            if isinstance(w, (SocketWriter, SerialWriter)):
                rec("device", type(w).__name__,
                    w._writer_delegate._mode.name
                    if hasattr(w._writer_delegate, "_mode") else "?",
                    repr(getattr(w._writer_delegate, "_host", None)),
                    repr(getattr(w._writer_delegate, "_port", None)),
                    repr(getattr(w._writer_delegate, "_baudrate", None)))
                g.remove_writer(w)

        recorder = Recorder("r")
        g.add_writer(recorder)
        sys.stdout.flush()
        attempt("comment", g.comment, "ctor é ) */", i, None)
        attempt("write", g.write, "G1 X1  ")
        attempt("move", g.move, x=1, comment="m ] > 中\nG28")
        attempt("flush", g.flush)
        rec("recorder", recorder.lines, recorder.events)
        snapshot(rec, hexs, handle, "after-flush")
        attempt("teardown", g.teardown)
        rec("writers-after", len(g._writers), recorder.events)
        snapshot(rec, hexs, handle, "after-teardown")

    # ------------------------------------- 3. comment() through a builder

    for i in range(320):
        kwargs = {}
        symbols = rng.choice(SYMBOLS)
        if symbols.strip():
            kwargs["comment_symbols"] = symbols
        ending = rng.choice(LINE_ENDINGS)
        kwargs["line_endings"] = ending
        cls = rng.choice([GCodeCore, GCodeBuilder])
        try:
            g = cls(**kwargs)
        except BaseException as e:  # noqa
            rec("c.ctor.raised", i, type(e).__name__)
            continue
        rec("c.ctor", i, cls.__name__, hexs(symbols), hexs(ending))

        first = Recorder("first")
        failing = Recorder("failing", fail_on=rng.choice([None, None, 1, 2]))
        text_file = io.StringIO(newline="")
        bin_file = io.BytesIO()
        path = "comments_%d.gcode" % i
        writers = [first, FileWriter(text_file), failing,
                   FileWriter(bin_file), FileWriter(path)]
        for w in writers:
            g.add_writer(w)

        for _ in range(rng.randint(1, 6)):
            roll = rng.random()
            message = rand_message()
            args = rand_args()
            rec("c.call", describe_arg(message),
                [describe_arg(a) for a in args])
            if roll < 0.75:
                attempt("c.comment", g.comment, message, *args)
            elif roll < 0.85:
                attempt("c.annotate", g.annotate,
                        rng.choice(["key", "k1", "1k", "", "é"]),
                        message)
            elif roll < 0.95:
                attempt("c.move", g.move, x=rng.randint(0, 5),
                        comment=message)
            else:
                late = rand_symbols()
                rec("c.symbols", describe_arg(late))
                attempt("c.set_comment_symbols",
                        g.format.set_comment_symbols, late)
            if rng.random() < 0.15:
                victim = rng.choice(writers)
                attempt("c.remove", g.remove_writer, victim)
            if rng.random() < 0.15:
                attempt("c.add", g.add_writer, rng.choice(writers))
            if rng.random() < 0.2:
                attempt("c.flush", g.flush)

        attempt("c.flush", g.flush)
        rec("c.first", first.lines, first.events)
        rec("c.failing", failing.lines, failing.events)
        rec("c.text", hexs(text_file.getvalue()))
        rec("c.bin", bin_file.getvalue().hex())
        rec("c.path", read_path(path))
        attempt("c.teardown", g.teardown, rng.choice([True, False]))
        rec("c.after", len(g._writers), first.events, failing.events,
            text_file.closed, bin_file.closed, read_path(path))

    sys.stdout.flush()

    with open(transcript_path, "w", encoding="utf-8") as handle:
        json.dump(out, handle, ensure_ascii=True)


def read_path(path):
    try:
        with open(path, "rb") as handle:
            return handle.read().hex()
    except OSError as e:
        return "unreadable:" + type(e).__name__


def snapshot(rec, hexs, handle, label):
    if handle is None:
        return
    kind, target = handle
    if kind == "path":
        rec("file", label, kind, read_path(target) if target else "none")
    elif target.closed:
        rec("file", label, kind, "closed")
    else:
        rec("file", label, kind, hexs(target.getvalue()))


# --------------------------------------------------------------------------
# Driver
# --------------------------------------------------------------------------

def run_tree(name: str, root: str, workdir: str):
    cwd = os.path.join(workdir, name)
    os.makedirs(cwd)
    transcript = os.path.join(workdir, name + ".json")
    env = dict(os.environ)
    env["PYTHONPATH"] = root
    env["EXPECTED_ROOT"] = root
    env["PYTHONHASHSEED"] = "0"
    env["PYTHONDONTWRITEBYTECODE"] = "1"
    proc = subprocess.run(
        [PYTHON, os.path.abspath(__file__), "--worker", transcript],
        cwd=cwd, env=env, stdin=subprocess.DEVNULL,
        stdout=subprocess.PIPE, stderr=subprocess.PIPE, timeout=600)
    if proc.returncode != 0:
        sys.stderr.write(proc.stderr.decode("utf-8", "replace")[-4000:])
        raise SystemExit("worker for %s failed (%d)" % (name, proc.returncode))
    with open(transcript, encoding="utf-8") as handle:
        return json.load(handle), proc.stdout


def main() -> int:
    with tempfile.TemporaryDirectory(prefix="equiv-C14-") as workdir:
        results = {n: run_tree(n, r, workdir) for n, r in TREES.items()}

    old, old_stdout = results["old"]
    new, new_stdout = results["new"]

    for index, (a, b) in enumerate(zip(old, new)):
        if a != b:
            print("first difference at entry", index)
            print("  old:", json.dumps(a)[:600])
            print("  new:", json.dumps(b)[:600])
            for ctx in old[max(0, index - 3):index]:
                print("  ctx:", json.dumps(ctx)[:300])
            return 1

    assert len(old) == len(new), (len(old), len(new))
    assert old == new
    assert old_stdout == new_stdout, "console output differs"

    raised = sum(1 for e in old if len(e) > 1 and e[1] == "raised")
    raised += sum(1 for e in old if e[0].endswith(".raised"))
    print("entries: %d, of which exceptions: %d, console bytes: %d" % (
        len(old), raised, len(old_stdout)))
    print("EQUIVALENT")
    return 0


if __name__ == "__main__":
    if len(sys.argv) == 3 and sys.argv[1] == "--worker":
        worker(sys.argv[2])
    else:
        sys.exit(main())
