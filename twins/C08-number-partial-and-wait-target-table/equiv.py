#!/usr/bin/env python
"""Differential check: /repo (reference) vs /tmp/wtV-C08 (refactored).

Run without arguments it spawns one subprocess per tree (each with its
own PYTHONPATH), collects a JSON transcript from each and asserts that
both are identical. With ``--drive <expected root>`` it is the driver
that produces the transcript of the tree it finds on its PYTHONPATH.
"""

import json
import os
import re
import subprocess
import sys

TREES = {"reference": "/repo", "refactored": "/tmp/wtV-C08"}
SEED = 80808


# ----------------------------------------------------------------------
# Driver (runs inside each subprocess)
# ----------------------------------------------------------------------

def drive(expected_root: str) -> None:
    import logging
    import math
    import random
    from decimal import Decimal
    from fractions import Fraction

    import numpy as np

    import gscrib
    from gscrib import GCodeBuilder, GCodeCore
    from gscrib.enums import DistanceMode, HaltMode
    from gscrib.excepts import DeviceError
    from gscrib.formatters import DefaultFormatter
    from gscrib.geometry import Point
    from gscrib.writers import BaseWriter

    assert os.path.realpath(gscrib.__file__).startswith(
        os.path.realpath(expected_root) + os.sep), gscrib.__file__

    logging.disable(logging.CRITICAL)
    rng = random.Random(SEED)
    transcript = []

    def clean(text):
        return re.sub(r"0x[0-9a-fA-F]+", "0x?", str(text))

    def show(value):
        if isinstance(value, Point):
            return ["Point"] + [show(c) for c in value]
        if isinstance(value, (list, tuple)):
            return [show(v) for v in value]
        if isinstance(value, dict):
            return {str(k): show(v) for k, v in value.items()}
        return f"{type(value).__name__}:{value!r}"

    def attempt(fn, *args, **kwargs):
        try:
            return ["ok", show(fn(*args, **kwargs))]
        except BaseException as e:  # pylint: disable=broad-except
            cause = type(e.__cause__).__name__ if e.__cause__ else None
            return ["raise", type(e).__name__, clean(e), cause]

    class Recorder(BaseWriter):
        """In-process fake device that records the bytes it is given."""

        def __init__(self):
            self.chunks = []
            self.fail_on = None

        def connect(self):
            return self

        def disconnect(self, wait=True):
            self.chunks.append(f"<disconnect {wait}>")

        def write(self, statement):
            if self.fail_on is not None and self.fail_on in statement:
                raise DeviceError("fake device refused the line")
            self.chunks.append(statement.decode("utf-8", "backslashreplace"))

        def flush(self):
            self.chunks.append("<flush>")

    # -- 1. DefaultFormatter.number ---------------------------------------

    specials = [
        0, -0.0, 0.0, 1, -1, True, False, 0.5, 1.5, 2.5, -2.5, 0.125,
        1e-5, 5e-6, 4.9999999e-6, 1e-12, 5e-13, 1e-13, 5e-324, -5e-324,
        2.2250738585072014e-308, 1e15, -1e15, 999999999999999.9,
        123456789012345678, 1e16, 1e22, 1.7976931348623157e308,
        0.1 + 0.2, 1 / 3, -2 / 3, 1.00000049999, 0.000005, 0.0000149999,
        float("inf"), float("-inf"), float("nan"),
        10 ** 400, -(10 ** 400), 10 ** 20,
        np.float64(1.25), np.float32(0.1), np.float16(0.333), np.int64(-7),
        np.int8(0), np.uint8(255), np.float64("nan"), np.float32("inf"),
        np.float64(-0.0), np.float32(1e-30), np.longdouble(1) / 3,
        np.bool_(True), np.float64(1e15), np.int32(2 ** 31 - 1),
        Fraction(1, 3), Fraction(0), Fraction(-7, 2), Fraction(10 ** 30, 7),
        Decimal("1.5"), Decimal("0"), Decimal("-0.000001"), Decimal("NaN"),
        Decimal("Infinity"), Decimal("1e-20"), Decimal("sNaN"),
        1j, 0j, complex(2, 0), np.complex128(1 + 2j),
        "1.0", None, [1], b"1", np.array(1.0), np.array([1.0, 2.0]),
    ]

    fmt = DefaultFormatter()

    for places in list(range(0, 13)) + [15, 20, -1, 2.0, None, True]:
        transcript.append(["places", repr(places),
            attempt(fmt.set_decimal_places, places), fmt._decimal_places])

        for value in specials:
            transcript.append(["number", repr(value), attempt(fmt.number, value)])

        for _ in range(25):
            kind = rng.randrange(6)

            if kind == 0:
                value = rng.uniform(-1000, 1000)
            elif kind == 1:
                value = rng.uniform(-1, 1) * 10 ** rng.randint(-14, 15)
            elif kind == 2:  # rounding ties at the configured place
                scale = 10 ** rng.randint(0, 12)
                value = (rng.randint(-10 ** 6, 10 ** 6) + 0.5) / scale
            elif kind == 3:
                value = rng.randint(-10 ** 15, 10 ** 15)
            elif kind == 4:
                value = np.float32(rng.uniform(-100, 100))
            else:
                value = np.float64(rng.uniform(-1e-6, 1e-6))

            transcript.append(["number", repr(value), attempt(fmt.number, value)])

    # -- 2. DefaultFormatter.set_line_endings / line -----------------------

    endings = [
        "os", "\\n", "\\r\\n", "\n", "\r\n", "\\x", "\\", "abc", "", "OS",
        " os", "\\u00e9", "é", "\\N{BULLET}", "\\N{nope}", "\\t\\n",
        "\ud800", "\\777", "\\x0a", "\\U0010ffff", "\\U00110000", "a\\",
        "os\\n", None, 10, b"\\n", ["\\n"],
    ]

    fmt = DefaultFormatter()

    for ending in endings + endings[::-1]:
        transcript.append([
            "line_endings", repr(ending),
            attempt(fmt.set_line_endings, ending),
            repr(fmt._line_endings),
            attempt(fmt.line, "G1 X1 \t "),
            attempt(fmt.line, ""),
        ])

    # -- 3. Builders ----------------------------------------------------

    def snapshot(g, rec):
        out = {
            "lines": list(rec.chunks),
            "position": show(g.position),
            "mode": show(g.distance_mode),
            "params": show(dict(g._current_params)),
        }

        rec.chunks.clear()

        if isinstance(g, GCodeBuilder):
            s = g.state
            out["state"] = show([
                s.position, s.distance_mode, s.halt_mode, s.feed_rate,
                s.tool_power, s.target_bed_temperature,
                s.target_hotend_temperature, s.target_chamber_temperature,
                dict(s._current_params),
            ])

        return out

    def rand_number():
        return rng.choice([
            rng.uniform(-50, 50), rng.randint(-20, 20), 0, -0.0, 0.5,
            rng.uniform(-1, 1) * 10 ** rng.randint(-9, 9),
            np.float64(rng.uniform(-5, 5)), np.float32(rng.uniform(-5, 5)),
            np.int64(rng.randint(-5, 5)), 1e15, 5e-324, 2.5e-6,
        ])

    def rand_bad():
        return rng.choice([
            float("nan"), float("inf"), float("-inf"), "7", "abc", None,
            [1], 1j, np.float64("nan"), True,
        ])

    def rand_coord(bad=0.08):
        roll = rng.random()
        if roll < 0.2:
            return None
        if roll < 0.2 + bad:
            return rand_bad()
        return rand_number()

    def rand_point():
        roll = rng.random()
        coords = [rand_coord() for _ in range(rng.choice([0, 1, 2, 3, 3, 3, 4]))]

        if roll < 0.3:
            return coords
        if roll < 0.5:
            return tuple(coords)
        if roll < 0.7:
            return Point(*coords[:3])
        if roll < 0.85:
            try:
                return np.array([c for c in coords if isinstance(c, (int, float))], dtype=float)
            except Exception:  # pylint: disable=broad-except
                return np.array([1.0, 2.0, 3.0])
        return rng.choice([None, "xyz", 5, {"x": 1}, [[1, 2, 3]], b"abc"])

    def rand_move_kwargs():
        kwargs = {}

        for key in rng.sample(
                ["x", "y", "z", "X", "Y", "Z", "F", "f", "S", "s", "E", "e",
                 "comment", "A", "i", "P"], rng.randint(0, 5)):
            if key == "comment":
                kwargs[key] = rng.choice([
                    "hello", "", "  ", "two\nlines", "close ) paren",
                    None, 5, "café", "semi ; colon",
                ])
            elif key in "FfSs":
                kwargs[key] = rng.choice([
                    rng.uniform(0, 3000), rng.randint(1, 500), 0, -1,
                    float("nan"), float("inf"), "fast", None, 1e-9,
                ])
            else:
                kwargs[key] = rand_coord()

        return kwargs

    halt_modes = [m for m in HaltMode] + [
        "pause", "wait-for-bed", "wait-for-hotend", "wait-for-chamber",
        "WAIT-FOR-BED", "off", "nope", "", None, 3,
    ]

    def rand_halt_kwargs():
        kwargs = {}

        for key in rng.sample(["S", "R", "s", "r", "P", "T", "comment", "x"],
                rng.randint(0, 4)):
            kwargs[key] = rng.choice([
                rng.uniform(-20, 320), rng.randint(0, 300), 0, 60, 200,
                float("nan"), float("inf"), "hot", None, True,
                np.float64(55.5), np.int64(40), 1e15, 123.456789012345,
            ])

        return kwargs

    class Boom(Exception):
        pass

    def body_exception():
        return rng.choice([
            None, None, Boom("body"), ValueError("body"), StopIteration("s"),
            KeyboardInterrupt(), GeneratorExit(), RuntimeError("r"),
        ])

    def scoped(g, rec, names, inner, exc, fail_on):
        """Nested distance mode contexts with an optional failing body."""

        def run(depth):
            if depth == len(names):
                rec.fail_on = fail_on
                inner()
                if exc is not None:
                    raise exc
                return

            with getattr(g, names[depth])():
                run(depth + 1)

        try:
            return attempt(run, 0)
        finally:
            rec.fail_on = None

    styles = [";", "(", "[", "/*", "#", "//", '"', "<", " ; "]
    line_endings = ["os", "\\n", "\\r\\n", "\\r", ";\\n"]

    for session in range(60):
        cls = GCodeBuilder if session % 3 else GCodeCore
        config = {
            "decimal_places": rng.choice(list(range(13))),
            "comment_symbols": rng.choice(styles),
            "line_endings": rng.choice(line_endings),
            "x_axis": rng.choice(["X", "a", "U", "x"]),
            "y_axis": rng.choice(["Y", "b", "V"]),
            "z_axis": rng.choice(["Z", "c", "W"]),
        }

        built = attempt(cls, config)
        transcript.append(["session", session, cls.__name__, show(config), built[0]])

        if built[0] != "ok":
            continue

        g = cls(config)
        rec = Recorder()
        g.add_writer(rec)
        is_builder = isinstance(g, GCodeBuilder)

        if is_builder and rng.random() < 0.6:
            for name, lo, hi in [
                ("bed-temperature", 0, 120), ("hotend-temperature", 0, 280),
                ("chamber-temperature", 0, 80), ("feed-rate", 1, 2000),
                ("tool-power", 0, 1000),
                ("axes", (-40, -40, -40), (40, 40, 40)),
            ]:
                if rng.random() < 0.6:
                    transcript.append(["bounds", name,
                        attempt(g.set_bounds, name, lo, hi)])

        for step in range(28):
            roll = rng.random()

            if roll < 0.30:
                name = rng.choice([
                    "move", "rapid", "move_absolute", "rapid_absolute",
                    "set_axis"] + (["auto_home", "probe"] if is_builder else []))
                args = []

                if name == "probe":
                    args.append(rng.choice(["towards", "away", "towards-no-error", "zz"]))

                if rng.random() < 0.5:
                    args.append(rand_point())

                kwargs = rand_move_kwargs()
                result = attempt(getattr(g, name), *args, **kwargs)
                label = [name, show(args), show(kwargs)]

            elif roll < 0.40:
                point = rand_point() if rng.random() < 0.6 else None
                kwargs = rand_move_kwargs()
                result = attempt(g._process_move_params, point, **kwargs)
                label = ["_process_move_params", show(point), show(kwargs)]

            elif roll < 0.62 and is_builder:
                mode = rng.choice(halt_modes)
                kwargs = rand_halt_kwargs()
                result = attempt(g.halt, mode, **kwargs)
                label = ["halt", show(mode), show(kwargs)]

            elif roll < 0.72:
                mode = rng.choice(["absolute", "relative", DistanceMode.RELATIVE,
                    DistanceMode.ABSOLUTE, "RELATIVE", "bogus", None, 1])
                result = attempt(g.set_distance_mode, mode)
                label = ["set_distance_mode", show(mode)]

            elif roll < 0.92:
                names = [rng.choice(["absolute_mode", "relative_mode"])
                    for _ in range(rng.randint(1, 3))]
                exc = body_exception()
                fail_on = rng.choice([None, None, None, None, b"G90", b"G91", b"G1 "])
                flip = rng.choice([None, "absolute", "relative"])
                kwargs = rand_move_kwargs()

                if rng.random() < 0.6:  # a body that is sure to be valid
                    kwargs = {
                        key: rng.choice([rng.uniform(-9, 9), rng.randint(-9, 9)])
                        for key in rng.sample(["x", "y", "z", "E"], rng.randint(1, 3))
                    }

                def inner(flip=flip, kwargs=kwargs):
                    if flip is not None:
                        g.set_distance_mode(flip)
                    g.move(**kwargs)

                result = scoped(g, rec, names, inner, exc, fail_on)
                label = ["scoped", names, show(exc), show(fail_on), show(flip), show(kwargs)]

            elif roll < 0.96 and is_builder:
                name, args = rng.choice([
                    ("wait", []), ("pause", [True]), ("pause", [False]),
                    ("stop", [True]), ("stop", [False]),
                    ("emergency_halt", ["fire\nG1 X0"]),
                    ("set_bed_temperature", [rng.choice([60, 500, float("nan")])]),
                    ("sleep", [rng.choice([1, 0.5, -1, float("inf")])]),
                ])
                result = attempt(getattr(g, name), *args)
                label = [name, show(args)]

            else:
                ending = rng.choice(endings)
                result = attempt(g.format.set_line_endings, ending)
                label = ["set_line_endings", repr(ending)]

            transcript.append([session, step, label, result, snapshot(g, rec)])

        # the context managers driven by hand, without a with statement

        for name in ("absolute_mode", "relative_mode"):
            manager = getattr(g, name)()
            transcript.append(["manual", name, type(manager).__name__,
                attempt(manager.__enter__), snapshot(g, rec),
                attempt(manager.__exit__, None, None, None), snapshot(g, rec),
                attempt(manager.__exit__, None, None, None)])

            gen = getattr(g, name).__wrapped__(g)
            transcript.append(["generator", name,
                attempt(next, gen), attempt(gen.close), snapshot(g, rec),
                attempt(next, gen)])

            gen = getattr(g, name).__wrapped__(g)
            transcript.append(["generator-throw", name,
                attempt(next, gen), attempt(gen.throw, Boom("thrown")),
                snapshot(g, rec)])

        transcript.append(["teardown", attempt(g.teardown), snapshot(g, rec)])

    json.dump(transcript, sys.stdout)


# ----------------------------------------------------------------------
# Parent
# ----------------------------------------------------------------------

def collect(root: str):
    env = dict(os.environ, PYTHONPATH=root, PYTHONHASHSEED="0")
    proc = subprocess.run(
        [sys.executable, os.path.abspath(__file__), "--drive", root],
        env=env, capture_output=True, text=True, timeout=600,
        stdin=subprocess.DEVNULL, cwd="/tmp", check=False,
    )

    if proc.returncode != 0:
        sys.stderr.write(proc.stderr[-4000:])
        raise SystemExit(f"driver failed for {root}")

    return json.loads(proc.stdout)


def main() -> int:
    reference = collect(TREES["reference"])
    refactored = collect(TREES["refactored"])

    assert len(reference) == len(refactored), (len(reference), len(refactored))

    for index, (a, b) in enumerate(zip(reference, refactored)):
        assert a == b, f"entry {index} differs:\n  {a}\n  {b}"

    raised = sum(1 for e in reference if '"raise"' in json.dumps(e))
    lines = sum(len(x["lines"]) for e in reference for x in e
        if isinstance(x, dict) and "lines" in x)

    print(f"identical transcripts: {len(reference)} entries, "
          f"{raised} with exceptions, {lines} emitted lines")

    return 0


if __name__ == "__main__":
    if len(sys.argv) == 3 and sys.argv[1] == "--drive":
        drive(sys.argv[2])
    else:
        sys.exit(main())
