#!/usr/bin/env python
"""Differential equivalence check for the C02 twin refactoring.

Runs the same seeded scenario generator against /repo (reference) and
/tmp/wtU-C02 (refactored) in two separate subprocesses and asserts the
two transcripts are byte-identical. Exit status 0 means identical.

Usage: /venv/bin/python /tmp/twin2-C02/equiv.py
"""

import hashlib
import json
import os
import subprocess
import sys

REFERENCE = "/repo"
REFACTORED = "/tmp/wtU-C02"
SEED = 20261004
SCENARIOS = 400


# --------------------------------------------------------------------------
# Worker (runs inside one tree)
# --------------------------------------------------------------------------

def worker(expected_root: str) -> None:
    import logging
    import math
    import random

    import numpy as np

    import gscrib
    from gscrib import GCodeBuilder
    from gscrib.enums import (
        CoolantMode, HaltMode, PowerMode, SpinMode, ToolSwapMode,
        DistanceMode, TemperatureUnits, TimeUnits,
    )
    from gscrib.writers import BaseWriter

    root = os.path.realpath(os.path.dirname(os.path.dirname(gscrib.__file__)))
    assert root == os.path.realpath(expected_root), (root, expected_root)

    logging.disable(logging.CRITICAL)

    class RecordingWriter(BaseWriter):
        """In-process fake device that records every line it is given."""

        def __init__(self, fail_at=None, fail_with=None):
            self.lines = []
            self.calls = 0
            self.fail_at = fail_at
            self.fail_with = fail_with

        def connect(self):
            return self

        def disconnect(self, wait=True):
            pass

        def write(self, statement):
            self.calls += 1

            if self.fail_at is not None and self.calls == self.fail_at:
                raise self.fail_with("fake failure")

            self.lines.append(statement.decode("utf-8"))

    def show(value):
        if isinstance(value, float) and math.isnan(value):
            return "nan"
        return f"{type(value).__name__}:{value!r}"

    STATE_PROPS = (
        "position", "is_coolant_active", "is_tool_active", "tool_number",
        "tool_power", "feed_rate", "spin_mode", "power_mode",
        "coolant_mode", "distance_mode", "extrusion_mode", "feed_mode",
        "tool_swap_mode", "halt_mode", "length_units", "time_units",
        "temperature_units", "plane", "direction", "resolution",
        "target_hotend_temperature", "target_bed_temperature",
        "target_chamber_temperature",
    )

    def snapshot(g):
        state = g.state
        items = [f"{name}={show(getattr(state, name))}" for name in STATE_PROPS]
        items.append(f"core_pos={g.position!r}")
        items.append(f"core_dist={g.distance_mode!r}")
        items.append(f"params={sorted(g._current_params.items())!r}")
        items.append(f"state_params={sorted(state._current_params.items())!r}")
        return "|".join(items)

    def call(transcript, g, writers, label, func, *args, **kwargs):
        before = [len(w.lines) for w in writers]

        try:
            result = func(*args, **kwargs)
            outcome = f"ok:{show(result)}"
        except BaseException as e:  # pylint: disable=broad-except
            if isinstance(e, (KeyboardInterrupt, SystemExit)):
                raise
            outcome = f"raise:{type(e).__name__}"

        emitted = [w.lines[n:] for w, n in zip(writers, before)]
        transcript.append([label, outcome, emitted, snapshot(g)])

    rng = random.Random(SEED)

    numbers = [
        0, 1, 2, 5, 9, 10, 12, 99, 100, 255, 1000, 12345, 10 ** 9,
        10 ** 20, -1, -3, 0.0, -0.0, 0.5, 1.5, 24000.0, 1e-9, 1e21,
        float("nan"), float("inf"), float("-inf"), True, False, None,
        "5", "", np.int64(7), np.float64(3.25), np.float32(2.5),
        np.int32(-2), np.bool_(True), 3 + 0j, [1], (2,),
    ]

    spin_modes = [
        SpinMode.CLOCKWISE, SpinMode.COUNTER, SpinMode.OFF, "clockwise",
        "counter", "off", "cw", "ccw", "bogus", "", None, 3,
        PowerMode.CONSTANT, CoolantMode.OFF,
    ]

    power_modes = [
        PowerMode.CONSTANT, PowerMode.DYNAMIC, PowerMode.OFF, "constant",
        "dynamic", "off", "bogus", None, 1.5, SpinMode.CLOCKWISE,
    ]

    coolant_modes = [
        CoolantMode.MIST, CoolantMode.FLOOD, CoolantMode.OFF, "mist",
        "flood", "off", "MIST", "bogus", None, 0, HaltMode.OFF,
        SpinMode.OFF,
    ]

    swap_modes = [
        ToolSwapMode.MANUAL, ToolSwapMode.AUTOMATIC, ToolSwapMode.OFF,
        "manual", "automatic", "off", "bogus", None, 2,
    ]

    halt_modes = list(HaltMode) + [
        "pause", "optional-pause", "end-with-reset", "wait-for-bed",
        "wait-for-hotend", "wait-for-chamber", "wait-for-motion", "off",
        "bogus", None, 7,
    ]

    flags = [True, False, True, False, 1, 0, None, "yes", "", np.bool_(True),
             np.bool_(False), 2.0, []]

    messages = ["tool crash", "", "a\nb", "x) y", "ünïcode", None, 5,
                "line1\r\nM3 S100"]

    halt_kwargs = [
        {}, {}, {"S": 60}, {"R": 50}, {"S": 200, "R": 150}, {"s": 70},
        {"r": 80, "S": 90}, {"S": None}, {"R": None, "S": 210},
        {"S": float("nan")}, {"S": float("inf")}, {"S": "hot"},
        {"P": 1}, {"S": -5}, {"S": 1000}, {"R": 1000, "S": 10},
        {"s": 10, "S": 20}, {"S": np.float64(55.5)}, {"comment": "x"},
    ]

    bound_names = [
        "bed-temperature", "hotend-temperature", "chamber-temperature",
        "tool-number", "tool-power", "feed-rate", "axes", "bogus",
    ]

    def pick(options):
        return rng.choice(options)

    def random_op(g):
        kind = rng.randrange(30)

        if kind == 0:
            a = (pick(spin_modes), pick(numbers))
            return f"tool_on{a!r}", g.tool_on, a, {}
        if kind == 1:
            return "tool_off()", g.tool_off, (), {}
        if kind == 2:
            a = (pick(power_modes), pick(numbers))
            return f"power_on{a!r}", g.power_on, a, {}
        if kind == 3:
            return "power_off()", g.power_off, (), {}
        if kind in (4, 5):
            a = (pick(coolant_modes),)
            return f"coolant_on{a!r}", g.coolant_on, a, {}
        if kind == 6:
            return "coolant_off()", g.coolant_off, (), {}
        if kind in (7, 8, 9):
            a = (pick(swap_modes), pick(numbers))
            return f"tool_change{a!r}", g.tool_change, a, {}
        if kind in (10, 11):
            a = (pick(halt_modes),)
            k = pick(halt_kwargs)
            return f"halt{a!r}{k!r}", g.halt, a, dict(k)
        if kind in (12, 13):
            if rng.random() < 0.3:
                return "pause()", g.pause, (), {}
            if rng.random() < 0.5:
                k = {"optional": pick(flags)}
                return f"pause{k!r}", g.pause, (), k
            a = (pick(flags),)
            return f"pause{a!r}", g.pause, a, {}
        if kind in (14, 15):
            if rng.random() < 0.3:
                return "stop()", g.stop, (), {}
            if rng.random() < 0.5:
                k = {"reset": pick(flags)}
                return f"stop{k!r}", g.stop, (), k
            a = (pick(flags),)
            return f"stop{a!r}", g.stop, a, {}
        if kind == 16:
            return "wait()", g.wait, (), {}
        if kind in (17, 18):
            if rng.random() < 0.4:
                a = (pick(messages),)
            else:
                a = (pick(messages), pick(flags))
            return f"emergency_halt{a!r}", g.emergency_halt, a, {}
        if kind in (19, 20):
            k = {}
            for axis in "xyz":
                if rng.random() < 0.6:
                    k[axis] = round(rng.uniform(-50, 50), 3)
            if rng.random() < 0.4:
                k["F"] = pick([100, 1500.0, 0, -1, float("nan"), None, "f"])
            if rng.random() < 0.3:
                k["S"] = pick([10, 0, -2, 300.5, None])
            func = pick([g.move, g.rapid, g.move_absolute, g.rapid_absolute])
            return f"{func.__name__}{k!r}", func, (), k
        if kind == 21:
            a = (pick([DistanceMode.ABSOLUTE, DistanceMode.RELATIVE,
                       "absolute", "relative", "bogus"]),)
            return f"set_distance_mode{a!r}", g.set_distance_mode, a, {}
        if kind == 22:
            func = pick([g.set_bed_temperature, g.set_hotend_temperature,
                         g.set_chamber_temperature])
            a = (pick([0, 60, 210.5, -10, 1000, float("nan"), None, "x"]),)
            return f"{func.__name__}{a!r}", func, a, {}
        if kind == 23:
            a = (pick(bound_names), pick([0, 1, -5, None, 10]),
                 pick([5, 100, 250, None, 2]))
            return f"set_bounds{a!r}", g.set_bounds, a, {}
        if kind == 24:
            a = (pick([TemperatureUnits.CELSIUS, TemperatureUnits.KELVIN,
                       "celsius", "kelvin", "bogus"]),)
            return (f"set_temperature_units{a!r}",
                    g.set_temperature_units, a, {})
        if kind == 25:
            a = (pick(numbers),)
            func = pick([g.set_tool_power, g.set_feed_rate, g.sleep])
            return f"{func.__name__}{a!r}", func, a, {}
        if kind == 26:
            a = (pick(["G4 P1", "M3 S100", "", "; c", None, 5]),)
            return f"write{a!r}", g.write, a, {}
        if kind == 27:
            a = (pick(messages),)
            return f"comment{a!r}", g.comment, a, {}
        if kind == 28:
            # Private state setter, called the way the builder calls it
            a = (pick(coolant_modes),)
            return (f"state._set_coolant_mode{a!r}",
                    g.state._set_coolant_mode, a, {})

        keys = pick([["S"], ["R"], ["R", "S"], ["S", "R"], [], ["s"],
                     ["X", "S"], ("S",), "RS", [1], None, [None, "S"],
                     [["S"]]])
        params = pick(halt_kwargs + [None, {1: 2}, {"ß": 1, "SS": 2}, []])
        return (f"_get_user_param({keys!r},{params!r})",
                g._get_user_param, (keys, params), {})

    def new_builder():
        config = {
            "decimal_places": pick([5, 5, 0, 3, 8]),
            "comment_symbols": pick([";", ";", "(", "#", "/*"]),
            "line_endings": pick(["os", "\\n", "\\r\\n"]),
        }

        g = GCodeBuilder(config)
        writers = [RecordingWriter()]
        roll = rng.random()

        if roll < 0.15:
            error = pick([RuntimeError, ValueError, OSError,
                          gscrib.excepts.DeviceError])
            writers.append(RecordingWriter(rng.randrange(1, 12), error))
        elif roll < 0.25:
            writers.append(RecordingWriter())

        if rng.random() < 0.1:
            rng.shuffle(writers)

        for writer in writers:
            g.add_writer(writer)

        return g, writers, config

    transcript = []

    # Part 1: random call histories

    for index in range(SCENARIOS):
        g, writers, config = new_builder()
        scenario = [f"scenario {index} {sorted(config.items())!r}"]

        # Drive the machine into a random reachable state first

        if rng.random() < 0.5:
            call(scenario, g, writers, "pre tool", g.tool_on,
                 pick(["clockwise", "counter"]), pick([100, 2000.5]))
        elif rng.random() < 0.4:
            call(scenario, g, writers, "pre power", g.power_on,
                 pick(["constant", "dynamic"]), pick([10, 75.5]))
        if rng.random() < 0.5:
            call(scenario, g, writers, "pre coolant", g.coolant_on,
                 pick(["mist", "flood"]))

        for _ in range(rng.randrange(10, 40)):
            label, func, args, kwargs = random_op(g)
            call(scenario, g, writers, label, func, *args, **kwargs)

        transcript.append(scenario)

    # Part 2: exhaustive grids over the refactored entry points from
    # each of the four (tool, coolant) activity combinations

    def machine(tool, coolant):
        g = GCodeBuilder()
        writer = RecordingWriter()
        g.add_writer(writer)
        if tool == "spin":
            g.tool_on("clockwise", 1000)
        if tool == "power":
            g.power_on("constant", 50)
        if coolant:
            g.coolant_on(coolant)
        return g, [writer]

    grid = []

    for tool in (None, "spin", "power"):
        for coolant in (None, "mist", "flood"):
            tag = f"[{tool},{coolant}]"

            for mode in swap_modes:
                for number in numbers:
                    g, w = machine(tool, coolant)
                    call(grid, g, w, f"{tag} tool_change({mode!r},{number!r})",
                         g.tool_change, mode, number)
                    call(grid, g, w, f"{tag} again", g.tool_change, mode, number)

            for flag in flags:
                for name in ("pause", "stop"):
                    g, w = machine(tool, coolant)
                    call(grid, g, w, f"{tag} {name}({flag!r})",
                         getattr(g, name), flag)
                for message in messages:
                    g, w = machine(tool, coolant)
                    call(grid, g, w,
                         f"{tag} emergency_halt({message!r},{flag!r})",
                         g.emergency_halt, message, flag)

            for mode in coolant_modes:
                g, w = machine(tool, coolant)
                call(grid, g, w, f"{tag} coolant_on({mode!r})",
                     g.coolant_on, mode)
                call(grid, g, w, f"{tag} coolant_on again({mode!r})",
                     g.coolant_on, mode)
                call(grid, g, w, f"{tag} coolant_off", g.coolant_off)
                g, w = machine(tool, coolant)
                call(grid, g, w, f"{tag} _set_coolant_mode({mode!r})",
                     g.state._set_coolant_mode, mode)
                call(grid, g, w, f"{tag} _set_coolant_mode again({mode!r})",
                     g.state._set_coolant_mode, mode)

            for mode in halt_modes:
                for kwargs in halt_kwargs:
                    g, w = machine(tool, coolant)
                    call(grid, g, w, f"{tag} halt({mode!r},{kwargs!r})",
                         g.halt, mode, **kwargs)

    transcript.append(grid)

    # Tool word padding for a long run of tool numbers

    g, w = machine(None, None)
    padding = []

    for number in list(range(-2, 300)) + [999, 1000, 9999, 10000, 65535,
                                           10 ** 7, 10 ** 8, 10 ** 16]:
        call(padding, g, w, f"tool_change(auto,{number})",
             g.tool_change, "automatic", number)

    transcript.append(padding)

    data = json.dumps(transcript, ensure_ascii=True, sort_keys=True)
    sys.stdout.write(data)


# --------------------------------------------------------------------------
# Driver
# --------------------------------------------------------------------------

def run_tree(root: str) -> str:
    env = dict(os.environ)
    env["PYTHONPATH"] = root
    env["PYTHONHASHSEED"] = "0"
    env["PYTHONDONTWRITEBYTECODE"] = "1"

    process = subprocess.run(
        [sys.executable, os.path.abspath(__file__), "--worker", root],
        env=env, stdin=subprocess.DEVNULL, stdout=subprocess.PIPE,
        stderr=subprocess.PIPE, timeout=600, check=False, cwd="/tmp",
    )

    if process.returncode != 0:
        sys.stderr.write(process.stderr.decode("utf-8", "replace"))
        raise SystemExit(f"worker failed for {root}")

    return process.stdout.decode("utf-8")


def main() -> int:
    reference = run_tree(REFERENCE)
    refactored = run_tree(REFACTORED)

    ref_data = json.loads(reference)
    new_data = json.loads(refactored)

    records = sum(len(group) for group in ref_data)
    raised = sum(
        1 for group in ref_data for record in group
        if isinstance(record, list) and record[1].startswith("raise:")
    )
    emitted = sum(
        len(lines) for group in ref_data for record in group
        if isinstance(record, list) for lines in record[2]
    )

    print(f"groups={len(ref_data)} records={records} "
          f"raised={raised} emitted_lines={emitted}")
    print("reference  sha256", hashlib.sha256(reference.encode()).hexdigest())
    print("refactored sha256", hashlib.sha256(refactored.encode()).hexdigest())

    if reference != refactored:
        for gi, (a, b) in enumerate(zip(ref_data, new_data)):
            for ri, (x, y) in enumerate(zip(a, b)):
                if x != y:
                    print(f"first difference at group {gi} record {ri}")
                    print(" reference :", x)
                    print(" refactored:", y)
                    return 1
        print("transcripts differ in length")
        return 1

    assert ref_data == new_data
    print("IDENTICAL")
    return 0


if __name__ == "__main__":
    if len(sys.argv) == 3 and sys.argv[1] == "--worker":
        worker(sys.argv[2])
    else:
        sys.exit(main())
