#!/usr/bin/env python
"""Differential check: /repo (reference) vs /tmp/wtU-C01 (refactored).

Parent mode (no arguments): runs this file twice as a child process, once
with PYTHONPATH=/repo and once with PYTHONPATH=/tmp/wtU-C01, and asserts
that the two JSON transcripts are identical. Exits 0 on success.

Child mode (--drive): drives the refactored code paths

  * DefaultFormatter.parameters / DefaultFormatter.command
  * GCodeCore._prepare_move / _prepare_rapid (+ GCodeBuilder overrides)
  * GCodeCore._transform_move

directly and through the public motion API (move, rapid, *_absolute,
set_axis, auto_home, probe, distance modes, mode contexts, transforms,
hooks, tracer shapes) with seeded random inputs (valid, boundary and
invalid) and prints a transcript of everything observable.
"""

import json
import os
import subprocess
import sys

REFERENCE = "/repo"
REFACTORED = "/tmp/wtU-C01"
SEED = 20261004


# ---------------------------------------------------------------------------
# Child
# ---------------------------------------------------------------------------

def drive():
    import math
    import random
    from fractions import Fraction
    from decimal import Decimal

    import numpy as np

    import gscrib
    from gscrib import GCodeBuilder, GCodeCore
    from gscrib.formatters import DefaultFormatter
    from gscrib.geometry import Point
    from gscrib.params import ParamsDict
    from gscrib.writers.base_writer import BaseWriter

    root = os.path.dirname(os.path.dirname(os.path.abspath(gscrib.__file__)))
    rng = random.Random(SEED)
    log = []

    # Log records of the library are observable too: capture them

    import logging
    records = []

    class Capture(logging.Handler):
        def emit(self, record):
            try:
                message = re.sub(r" at 0x[0-9a-fA-F]+", "", record.getMessage())
                records.append("%s %s" % (record.levelname, message))
            except BaseException as e:
                records.append("%s <%s>" % (record.levelname, type(e).__name__))

    library_logger = logging.getLogger("gscrib")
    library_logger.setLevel(logging.DEBUG)
    library_logger.addHandler(Capture())
    library_logger.propagate = False

    import re
    ADDRESS = re.compile(r" at 0x[0-9a-fA-F]+")

    def show(value):
        """Stable textual form of any observed value."""

        if isinstance(value, Point):
            return "Point(%s)" % ", ".join(show(c) for c in value)
        if isinstance(value, (tuple, list)):
            name = type(value).__name__
            return "%s[%s]" % (name, ", ".join(show(v) for v in value))
        if isinstance(value, dict):
            name = type(value).__name__
            items = ("%s: %s" % (show(k), show(v)) for k, v in value.items())
            return "%s{%s}" % (name, ", ".join(items))
        if isinstance(value, (float, np.floating)):
            return "%s:%r" % (type(value).__name__, float(value))
        if isinstance(value, (bool, int, np.integer, str, bytes)) or value is None:
            return "%s:%r" % (type(value).__name__, value)
        if hasattr(value, "name") and hasattr(value, "value"):
            return "%s.%s" % (type(value).__name__, value.name)
        return "%s:%s" % (type(value).__name__, ADDRESS.sub("", str(value)))

    def attempt(label, function, *args, **kwargs):
        try:
            result = function(*args, **kwargs)
            log.append([label, "ok", show(result)])
        except BaseException as e:  # noqa: transcript records the type
            log.append([label, "raise", type(e).__name__])

    class Recorder(BaseWriter):
        """In-process fake device that records the emitted bytes."""

        def __init__(self, fail_every=0):
            self.lines = []
            self.fail_every = fail_every
            self.count = 0

        def connect(self):
            return self

        def disconnect(self, wait=True):
            pass

        def write(self, statement):
            self.count += 1
            if self.fail_every and self.count % self.fail_every == 0:
                raise OSError("fake device failure")
            self.lines.append(statement.decode("utf-8", "backslashreplace"))

        def take(self):
            lines, self.lines = self.lines, []
            return lines

    # -- value pools --------------------------------------------------------

    FINITE = [
        0, 0.0, -0.0, 1, -1, 1.5, -2.25, 10, 1e-7, -1e-7, 5e-6, 4.9999e-6,
        0.000005, 123456.789, -99999.99999, 1e15, 1e21, -1e21, 2**53,
        0.1 + 0.2, 1/3, -2/3, 1e-300, 5e-324,
    ]
    NUMPY = [
        np.float64(1.25), np.float32(0.1), np.int64(7), np.int32(-3),
        np.float64(-0.0), np.float64("nan"), np.float64("inf"),
        np.uint8(200), np.float16(0.333),
    ]
    EXOTIC = [
        True, False, Fraction(1, 3), Decimal("2.50"), Decimal("NaN"),
        1 + 2j, 0j, 10**30, -10**400,
    ]
    NONFINITE = [float("nan"), float("inf"), float("-inf")]
    NONNUMBERS = [None, "", "abc", "1.5", b"x", [1], (2, 3), {}, object]

    def any_value():
        pick = rng.random()
        if pick < 0.45:
            return rng.choice(FINITE)
        if pick < 0.60:
            return round(rng.uniform(-1000, 1000), rng.randint(0, 9))
        if pick < 0.72:
            return rng.choice(NUMPY)
        if pick < 0.80:
            return rng.choice(EXOTIC)
        if pick < 0.87:
            return rng.choice(NONFINITE)
        return rng.choice(NONNUMBERS)

    def coord(valid_bias=0.9):
        pick = rng.random()
        if pick < valid_bias * 0.5:
            return round(rng.uniform(-500, 500), rng.randint(0, 7))
        if pick < valid_bias * 0.8:
            return rng.choice(FINITE)
        if pick < valid_bias:
            return rng.choice([np.float64(2.5), np.int64(4), np.float32(1.1), True])
        return rng.choice(NONFINITE + ["7", None, [1], 1j])

    KEYS = [
        "X", "x", "Y", "y", "Z", "z", "F", "f", "S", "E", "e", "I", "J",
        "K", "P", "T", "A", "xy", "", " ", "x ", "comment", "ß", "ı",
    ]
    ODDKEYS = [b"x", b"F", 1, None, (1, 2), 2.5]

    def random_params(allow_odd_keys=True):
        params = {}
        for _ in range(rng.choice([0, 1, 1, 2, 3, 4, 6])):
            if allow_odd_keys and rng.random() < 0.06:
                key = rng.choice(ODDKEYS)
            else:
                key = rng.choice(KEYS)
            params[key] = any_value()
        return params

    # -- 1. formatter -------------------------------------------------------

    def formatter_cases():
        for n in range(450):
            fmt = DefaultFormatter()
            if rng.random() < 0.5:
                attempt("fmt%d.places" % n, fmt.set_decimal_places,
                        rng.choice([0, 1, 2, 3, 5, 8, 12, 20, -1]))
            if rng.random() < 0.3:
                attempt("fmt%d.label" % n, fmt.set_axis_label,
                        rng.choice(["x", "y", "z", "X", "w"]),
                        rng.choice(["A", "b", " u ", "XY", "", " ", "F"]))
            if rng.random() < 0.3:
                attempt("fmt%d.symbols" % n, fmt.set_comment_symbols,
                        rng.choice([";", "(", "[", "/*", "#", "'", " "]))

            params = random_params()
            if rng.random() < 0.25:
                params = ParamsDict({
                    k: v for k, v in params.items() if isinstance(k, str)
                })
            attempt("fmt%d.parameters %s" % (n, show(params)),
                    fmt.parameters, params)
            comment = rng.choice(
                [None, "", " ", "note", "a\nb", "end ) here", "x */ y"])
            attempt("fmt%d.command" % n, fmt.command,
                    rng.choice(["G0", "G1", "G92", "M3", ""]),
                    rng.choice([params, params, None, {}, ParamsDict()]),
                    comment)

        fmt = DefaultFormatter()
        for bad in (None, [], "X1", 3, (("X", 1),), ParamsDict(x=1, f=2)):
            attempt("fmt.bad %s" % show(bad), fmt.parameters, bad)

        # Error precedence inside parameters(): which raises first
        ordered = [
            {"F": float("nan"), b"a": 1},
            {b"a": 1, "F": float("nan")},
            {"x": float("inf"), "F": float("nan"), 1: 2},
            {"F": "s", "X": "t", "Y": None, "Z": 3},
            {"Z": 1, "Y": 2, "X": 3, "z": 4},
            {"x": 1, "X": 2},
            {"F": 1j, "X": float("nan")},
            {b"x": 1, b"y": 2},
        ]
        for params in ordered:
            attempt("fmt.order %s" % show(params), fmt.parameters, params)

    # -- 2. private helpers called directly ----------------------------------

    class Silly:
        """Mapping-like object a careless hook could return."""

        def keys(self):
            return ["F", "x"]

        def __getitem__(self, key):
            return 12

    def random_point(p_none=0.3, valid_bias=0.93):
        return Point(*[
            None if rng.random() < p_none else coord(valid_bias)
            for _ in range(3)
        ])

    def transform_randomly(g, label):
        t = g.transform
        for _ in range(rng.choice([0, 1, 1, 2, 3])):
            kind = rng.choice(
                ["translate", "scale", "rotate", "mirror", "reflect", "pivot"])
            if kind == "translate":
                attempt(label + ".translate", t.translate,
                        coord(), coord(), coord())
            elif kind == "scale":
                attempt(label + ".scale", t.scale,
                        *[rng.choice([2, 0.5, -1, 1e-3, 3.0])
                          for _ in range(rng.choice([1, 3]))])
            elif kind == "rotate":
                attempt(label + ".rotate", t.rotate,
                        rng.choice([90, 45, -30, 180, 0.001, 360]),
                        rng.choice(["x", "y", "z"]))
            elif kind == "mirror":
                attempt(label + ".mirror", t.mirror,
                        rng.choice(["xy", "yz", "zx"]))
            elif kind == "reflect":
                attempt(label + ".reflect", t.reflect,
                        [rng.choice([0, 1, -1, 0.5]) for _ in range(3)])
            else:
                attempt(label + ".pivot", t.set_pivot,
                        (coord(), coord(), coord()))

    def snapshot(g, recorder):
        taken = records[:]
        del records[:]
        entry = {
            "lines": recorder.take(),
            "records": taken,
            "position": show(g.position),
            "mode": show(g.distance_mode),
            "axes": show(g._current_axes),
            "params": show(g._current_params),
        }
        if isinstance(g, GCodeBuilder):
            s = g.state
            entry["state"] = [
                show(s.position), show(s.distance_mode), show(s.feed_rate),
                show(s.tool_power), show(s.halt_mode),
                show(s.get_parameter("F")), show(s.get_parameter("E")),
            ]
        return entry

    def helper_cases():
        for n in range(300):
            cls = rng.choice([GCodeCore, GCodeBuilder])
            g = cls(decimal_places=rng.choice([0, 2, 5, 9]))
            recorder = Recorder()
            g.add_writer(recorder)
            label = "helper%d" % n

            if rng.random() < 0.5:
                attempt(label + ".seed", g.set_axis, random_point(0.2, 1.0))
            if rng.random() < 0.5:
                attempt(label + ".mode", g.set_distance_mode,
                        rng.choice(["relative", "absolute"]))
            if rng.random() < 0.4:
                transform_randomly(g, label)
            if cls is GCodeBuilder and rng.random() < 0.4:
                returns = rng.choice(["same", "dict", "none", "silly", "extra"])

                def hook(origin, target, params, state, returns=returns):
                    log.append([label + ".hook", show(origin), show(target),
                                show(params)])
                    if returns == "dict":
                        return dict(params)
                    if returns == "none":
                        return None
                    if returns == "silly":
                        return Silly()
                    if returns == "extra":
                        params["E"] = 0.5
                        params["x"] = 99
                    return params

                g.add_hook(hook)

            point = random_point()
            params = rng.choice([
                ParamsDict(random_params(False)),
                ParamsDict(random_params(False)),
                random_params(True),
                None, Silly(), 5,
            ])
            comment = rng.choice([None, "", "c", "l1\nl2"])

            attempt(label + ".transform_move %s" % show(point),
                    g._transform_move, point)
            attempt(label + ".prepare_move %s %s" % (show(point), show(params)),
                    g._prepare_move, point, params, comment)
            attempt(label + ".prepare_rapid", g._prepare_rapid,
                    point, params, comment)
            if rng.random() < 0.5:
                attempt(label + ".prepare_move/2", g._prepare_move, point, params)
                attempt(label + ".prepare_rapid/2", g._prepare_rapid, point, params)

            # The params object must be handed back untouched (identity)
            try:
                _, back = g._prepare_rapid(point, params, comment)
                log.append([label + ".identity", back is params])
            except BaseException as e:
                log.append([label + ".identity", type(e).__name__])

            log.append([label + ".snapshot", snapshot(g, recorder)])

    # -- 3. public motion API -------------------------------------------------

    def motion_kwargs(valid_bias):
        kwargs = {}
        for axis in "xyz":
            if rng.random() < 0.55:
                key = axis.upper() if rng.random() < 0.2 else axis
                kwargs[key] = coord(valid_bias)
        pick = rng.random()
        if pick < 0.25:
            kwargs[rng.choice(["F", "f"])] = rng.choice(
                [100, 1500.5, 0, -5, float("nan"), "fast", None, np.int64(300)])
        if 0.2 < pick < 0.35:
            kwargs["S"] = rng.choice([0, 255, 1000.0, -1, float("inf"), "s"])
        if 0.3 < pick < 0.45:
            kwargs[rng.choice(["E", "e", "I", "P", "q"])] = any_value()
        if rng.random() < 0.15:
            kwargs["comment"] = rng.choice(["", "go", "a\nb", "x ) y", None, 7])
        return kwargs

    def motion_call(g, label, valid_bias):
        names = ["move", "rapid", "move_absolute", "rapid_absolute",
                 "set_axis", "auto_home", "probe"]
        weights = [30, 20, 10, 10, 8, 5, 6]
        if not isinstance(g, GCodeBuilder):
            names, weights = names[:5], weights[:5]
        name = rng.choices(names, weights)[0]
        function = getattr(g, name)
        args = []
        if name == "probe":
            args.append(rng.choice(
                ["towards", "away", "towards-no-error", "away-no-error", "x"]))
        kwargs = motion_kwargs(valid_bias)
        if rng.random() < 0.3:
            point = rng.choice([
                (coord(valid_bias), coord(valid_bias), coord(valid_bias)),
                [coord(valid_bias), None, coord(valid_bias)],
                Point(x=coord(valid_bias)),
                (None, None, None), (1, 2), (1, 2, 3, 4), (), "abc", 5,
                np.array([1.5, 2.5, 3.5]),
            ])
            args.append(point)
            if rng.random() < 0.7:
                kwargs = {k: v for k, v in kwargs.items()
                          if k.lower() not in "xyz"}
        attempt("%s.%s %s %s" % (label, name, show(args), show(kwargs)),
                function, *args, **kwargs)

    def tracer_call(g, label):
        trace = g.trace
        kind = rng.choice(["arc", "arc_radius", "circle", "spline", "helix",
                           "thread", "spiral", "polyline", "parametric"])
        c = lambda: round(rng.uniform(-4, 4), 3)  # noqa: E731

        # Paths start at the current position: re-anchor it at the origin
        # (G92) so the interpolated paths stay short.

        attempt(label + ".anchor", g.set_axis, x=0, y=0, z=0)

        if tuple(g.position) != (0, 0, 0):
            log.append([label + ".anchor", "skipped"])
            return

        if kind == "arc":
            attempt(label + ".arc", trace.arc, (c(), c()), (c(), c()))
        elif kind == "arc_radius":
            attempt(label + ".arc_radius", trace.arc_radius,
                    (c(), c()), rng.choice([9, -9, 1, 0]))
        elif kind == "circle":
            attempt(label + ".circle", trace.circle, (c(), c()))
        elif kind == "spline":
            attempt(label + ".spline", trace.spline,
                    [(c(), c(), c()) for _ in range(rng.choice([1, 2, 3, 5]))])
        elif kind == "helix":
            attempt(label + ".helix", trace.helix,
                    (c(), c(), c()), (c(), c()), rng.choice([1, 0]))
        elif kind == "thread":
            attempt(label + ".thread", trace.thread,
                    (c(), c(), c()), rng.choice([2, 1, 0]))
        elif kind == "spiral":
            attempt(label + ".spiral", trace.spiral,
                    (c(), c()), rng.choice([1, 2, 0]))
        elif kind == "polyline":
            attempt(label + ".polyline", trace.polyline,
                    [(c(), c(), c()) for _ in range(rng.choice([0, 1, 3]))],
                    **rng.choice([{}, {"F": 500}, {"e": 1.0}]))
        else:
            attempt(label + ".parametric", trace.parametric,
                    lambda t: np.stack([t * 5, t ** 2, 0 * t]), 8.0)

    def program_cases():
        for n in range(260):
            cls = GCodeBuilder if rng.random() < 0.7 else GCodeCore
            config = {"decimal_places": rng.choice([0, 1, 3, 5, 5, 8])}
            if rng.random() < 0.2:
                config["comment_symbols"] = rng.choice(["(", ";", "["])
            if rng.random() < 0.15:
                config["x_axis"] = rng.choice(["A", "u"])
                config["z_axis"] = rng.choice(["C", "w"])
            if rng.random() < 0.2:
                config["line_endings"] = rng.choice(["\\n", "\\r\\n"])
            g = cls(config)
            recorder = Recorder(fail_every=rng.choice([0, 0, 0, 0, 7]))
            g.add_writer(recorder)
            label = "prog%d" % n
            valid_bias = rng.choice([1.0, 1.0, 0.97, 0.85])
            builder = isinstance(g, GCodeBuilder)

            if builder and rng.random() < 0.25:
                attempt(label + ".bounds", g.set_bounds, "axes",
                        (-100, -100, -50), (200, 200, 50))
            if builder and rng.random() < 0.2:
                attempt(label + ".fbounds", g.set_bounds, "feed-rate", 50, 1200)
            if builder and rng.random() < 0.3:
                def hook(origin, target, params, state):
                    delta = target - origin
                    params.update(E=abs(delta.x) + abs(delta.y))
                    return params
                g.add_hook(hook)

            def steps(depth, budget):
                for i in range(budget):
                    where = "%s.%d.%d" % (label, depth, i)
                    pick = rng.random()
                    if pick < 0.62:
                        motion_call(g, where, valid_bias)
                    elif pick < 0.72:
                        attempt(where + ".set_distance_mode",
                                g.set_distance_mode, rng.choice(
                                    ["relative", "absolute", "bogus",
                                     "RELATIVE", None]))
                    elif pick < 0.82 and depth < 3:
                        context = rng.choice(
                            [g.absolute_mode, g.relative_mode])
                        log.append([where, "enter", context.__name__])
                        try:
                            with context():
                                log.append([where + ".in",
                                            snapshot(g, recorder)])
                                steps(depth + 1, rng.choice([1, 2, 3]))
                                if rng.random() < 0.1:
                                    raise KeyError("abort context")
                        except BaseException as e:
                            log.append([where, "raise", type(e).__name__])
                    elif pick < 0.88:
                        transform_randomly(g, where)
                    elif pick < 0.91:
                        attempt(where + ".rename", g.rename_axis,
                                rng.choice(["x", "y", "z"]),
                                rng.choice(["A", "B", "U"]))
                    elif pick < 0.97 and builder:
                        tracer_call(g, where)
                    else:
                        attempt(where + ".to_absolute", g.to_absolute,
                                random_point(0.4, 1.0))
                        attempt(where + ".to_distance_mode",
                                g.to_distance_mode, random_point(0.4, 1.0))
                    log.append([where + ".after", snapshot(g, recorder)])

            steps(0, rng.choice([4, 8, 12, 20]))

    import time
    for phase in (formatter_cases, helper_cases, program_cases):
        started = time.time()
        phase()
        sys.stderr.write("%s: %.1fs, %d entries\n"
                         % (phase.__name__, time.time() - started, len(log)))

    json.dump({"root": root, "log": log}, sys.stdout)


# ---------------------------------------------------------------------------
# Parent
# ---------------------------------------------------------------------------

def run_child(tree):
    env = dict(os.environ)
    env["PYTHONPATH"] = tree
    env["PYTHONHASHSEED"] = "0"
    env["PYTHONDONTWRITEBYTECODE"] = "1"
    process = subprocess.run(
        [sys.executable, os.path.abspath(__file__), "--drive"],
        env=env, cwd="/tmp", stdin=subprocess.DEVNULL,
        stdout=subprocess.PIPE, stderr=subprocess.PIPE, timeout=600,
    )
    if process.returncode != 0:
        sys.stderr.write(process.stderr.decode("utf-8", "replace")[-4000:])
        raise SystemExit("child for %s failed (%d)" % (tree, process.returncode))
    sys.stderr.write("[%s] %s" % (
        tree, process.stderr.decode("utf-8", "replace")[-600:]))
    data = json.loads(process.stdout.decode("utf-8"))
    assert data["root"] == tree, (data["root"], tree)
    return data["log"]


def main():
    reference = run_child(REFERENCE)
    refactored = run_child(REFACTORED)

    for index, (a, b) in enumerate(zip(reference, refactored)):
        if a != b:
            print("MISMATCH at entry %d" % index)
            print("  reference :", json.dumps(a)[:2000])
            print("  refactored:", json.dumps(b)[:2000])
            raise SystemExit(1)

    assert len(reference) == len(refactored), (len(reference), len(refactored))

    raised = sum(1 for e in reference if len(e) > 1 and e[1] == "raise")
    emitted = sum(
        len(e[1]["lines"]) for e in reference
        if len(e) == 2 and isinstance(e[1], dict) and "lines" in e[1]
    )
    kinds = sorted({e[2] for e in reference if len(e) > 2 and e[1] == "raise"})
    print("transcripts identical: %d entries, %d raised, %d emitted lines"
          % (len(reference), raised, emitted))
    print("exception types seen:", ", ".join(kinds))
    return 0


if __name__ == "__main__":
    if "--drive" in sys.argv:
        drive()
    else:
        sys.exit(main())
