#!/usr/bin/env python
"""Differential check for the C18 refactoring of PrintrunWriter report parsing.

Parent mode (default): runs this same file as a child in two subprocesses,
one with PYTHONPATH=/repo (pristine tree) and one with PYTHONPATH=/tmp/wtT-C18
(refactored tree), and asserts that the two JSON transcripts are identical.

Child mode (--child): builds a seeded list of device reports (valid, boundary
and invalid), feeds them to a PrintrunWriter through the same callbacks the
printrun core uses, and records everything observable after each step.
No real device is ever opened: printcore is replaced by an in-process fake.
"""

import json
import os
import subprocess
import sys

TREES = {"base": "/repo", "twin": "/tmp/wtT-C18"}
SEED = 180018
QUERY = ["X", "Y", "Z", "A", "B", "C", "E", "T", "F", "S", "x", "e", "t",
         "0", "1", "T0", "FS", "MPos", "PRB", "Count", "W", "ok"]


# --------------------------------------------------------------------------
# Input generation (pure, depends only on the seed)
# --------------------------------------------------------------------------

def gen_inputs():
    import random
    rng = random.Random(SEED)

    def num():
        kind = rng.randrange(12)
        if kind == 0:
            return str(rng.randint(-500, 500))
        if kind == 1:
            return "%.*f" % (rng.randint(0, 6), rng.uniform(-1000, 1000))
        if kind == 2:
            return rng.choice(["0", "-0", "0.0", "-0.0", "0.000", "-0.00"])
        if kind == 3:
            return rng.choice([".5", "-.5", "5.", "-5.", "00012.500", "-007"])
        if kind == 4:
            return "%d" % rng.randint(-10**12, 10**12)
        if kind == 5:
            return "%.3f" % rng.uniform(-1e-3, 1e-3)
        if kind == 6:   # malformed but matched by the value pattern
            return rng.choice(["1.2.3", "--5", "-", ".", "..", "5-", "1-2",
                               "-.", "3.-1", "----", "1..0"])
        return "%.2f" % rng.uniform(-300, 300)

    def good():
        while True:
            text = num()
            try:
                float(text)
                return text
            except ValueError:
                pass

    def marlin_pos():
        letters = ["X", "Y", "Z", "E"]
        if rng.random() < 0.3:
            rng.shuffle(letters)
        if rng.random() < 0.2:
            letters = letters[:rng.randint(1, 4)]
        if rng.random() < 0.2:
            letters += rng.sample(["A", "B", "C", "x", "e"], rng.randint(1, 2))
        head = " ".join("%s:%s" % (k, num()) for k in letters)
        tail = " ".join("%s:%s" % (k, rng.randint(-99999, 99999))
                        for k in ["X", "Y", "Z"])
        sep = rng.choice([" Count ", " Count: ", "  Count  "])
        return head + sep + tail

    def marlin_temp():
        parts = []
        fields = ["T", "B"]
        if rng.random() < 0.3:
            fields += rng.sample(["T0", "T1", "C", "@", "B@", "W"],
                                 rng.randint(1, 3))
        if rng.random() < 0.2:
            rng.shuffle(fields)
        for name in fields:
            if name in ("@", "B@"):
                parts.append("%s:%s" % (name, rng.randint(0, 127)))
            elif name == "W":
                parts.append("W:%s" % rng.choice(["?", "3", "0"]))
            else:
                parts.append("%s:%s /%s" % (name, num(), num()))
        text = " ".join(parts)
        lead = rng.choice(["", "ok ", "ok", "OK ", " ok ", "Ok  "])
        return lead + text

    def grbl_status():
        state = rng.choice(["Idle", "Run", "Hold:0", "Hold:1", "Jog",
                            "Alarm", "Door:2", "Home", "Check", "Sleep"])
        fields = []
        ncoord = rng.choice([3, 3, 3, 1, 2, 4, 6, 7, 8])
        coords = [num() for _ in range(ncoord)]
        if ncoord >= 7 and rng.random() < 0.5:
            coords[6] = "1.2.3"
        fields.append("%s:%s" % (rng.choice(["MPos", "MPos", "WPos", "mpos"]),
                                 ",".join(coords)))
        if rng.random() < 0.8:
            nfs = rng.choice([2, 2, 2, 1, 3])
            fields.append("%s:%s" % (rng.choice(["FS", "FS", "F", "fs"]),
                                     ",".join(num() for _ in range(nfs))))
        if rng.random() < 0.4:
            fields.append("WCO:%s" % ",".join(num() for _ in range(3)))
        if rng.random() < 0.3:
            fields.append("Bf:%d,%d" % (rng.randint(0, 15), rng.randint(0, 128)))
        if rng.random() < 0.3:
            fields.append("Ov:100,100,100")
        if rng.random() < 0.2:
            fields.append("Pn:XYZ")
        if rng.random() < 0.2:
            fields.append("Ln:%d" % rng.randint(0, 9999))
        if rng.random() < 0.2:
            fields.append("MPos:%s" % ",".join(good() for _ in range(3)))
        if rng.random() < 0.15:
            fields.append("S:%s" % num())
        if rng.random() < 0.4:
            rng.shuffle(fields)
        text = "<" + "|".join([state] + fields) + ">"
        if rng.random() < 0.1:
            text = text[1:]          # not a status report: FS is ignored
        if rng.random() < 0.1:
            text = " " + text + " \r\n"
        return text

    def probe():
        ncoord = rng.choice([3, 3, 3, 2, 4, 6, 7])
        body = ",".join(num() for _ in range(ncoord))
        return rng.choice(["[PRB:%s:1]", "[PRB:%s:0]", "[PRB:%s]", "PRB:%s:1",
                           "[prb:%s:1]", "ok [PRB:%s:1]"]) % body

    def errors():
        return rng.choice([
            "error:%d" % rng.randint(1, 40),
            "ALARM:%d" % rng.randint(1, 9),
            "!! Printer halted X:%s" % num(),
            "Error:Printer halted. kill() called! T:%s" % num(),
            "alarm X:1 Y:2", "error", "!!", "  error: checksum mismatch  ",
        ])

    def misc():
        return rng.choice([
            "", " ", "ok", "OK", "ok\n", "okay T:5", "okX:1.5", "start",
            "echo:busy: processing", "Grbl 1.1h ['$' for help]",
            "[GC:G0 G54 G17 G21 G90 G94 M5 M9 T0 F0 S0]",
            "[G54:0.000,0.000,0.000]", "[TLO:0.000]", "[MSG:Caution: Unlocked]",
            "X:1 X:2 X:3", "x:1 X:2", "X:1 x:2", "FS:100,200",
            "<Idle|FS:100,1.2.3>", "<Idle|FS:1.2.3,100>", "<Idle|FS:5>",
            "<Idle|FS:5,6,7|MPos:1,2,3>", "<FS:1,2|FS:3,4|F:9|S:8>",
            "<Run|F:50|FS:10,20>", "<Run|S:50|FS:10,20>",
            "<Idle|MPos:1,1.2.3,3>", "<Idle|MPos:1.2.3,2,3>",
            "<Idle|MPos:1,2,3,4,5,6,1.2.3>", "<Idle|MPos:1,2,3,4,5,6,7,8,9>",
            "<Idle|X:9|MPos:1,2,3>", "<Idle|MPos:1,2,3|X:9>",
            "<Idle|MPos:1,2,3|WPos:4,5,6|PRB:7,8,9>",
            "MPos:1,2,3", "WPos:-1,-2,-3", "PRB:1,2", "PRB:5",
            "1:5", "9:9.5", "0:-0.0", "T0:210 T1:190", "T:1,2,3", "X:1,2",
            "ok T:-", "ok T:. B:5", "T:--5 /0", "T:1e5", "T:inf", "T:nan",
            "X:+5", "X: 5", "X :5", "X:5Y:6", "XY:5 Z:1", ":5", "X:", "é:5",
            "\u0661:5", "X:\u0661", "Z:5\x00", "ok N5 P15 B3", "Resend: 12",
            "rs 12", "T:20.0 /0.0 B:20.0 /0.0 @:0 B@:0", "wait",
        ])

    makers = [marlin_pos, marlin_temp, grbl_status, probe, errors, misc]
    weights = [5, 5, 6, 3, 1, 3]
    items = []

    for _ in range(700):
        items.append(rng.choices(makers, weights)[0]())

    return items


NON_STRINGS = ["NONE", "BYTES", "INT", "LIST", "BYTES_OK"]


def materialize(token):
    return {
        "NONE": None,
        "BYTES": b"X:1.0 Y:2.0",
        "INT": 5,
        "LIST": ["X:1"],
        "BYTES_OK": b"ok T:5",
    }[token]


# --------------------------------------------------------------------------
# Child: drive one tree and print the transcript
# --------------------------------------------------------------------------

def child():
    import logging
    import random
    import threading

    import gscrib
    from gscrib.writers import printrun_writer as mod
    from gscrib.writers.printrun_writer import PrintrunWriter

    records = []

    class Capture(logging.Handler):
        def emit(self, record):
            records.append([record.levelname, record.getMessage(),
                            record.exc_info[0].__name__
                            if record.exc_info and record.exc_info[0]
                            else None])

    logger = logging.getLogger(mod.__name__)
    logger.handlers[:] = [Capture()]
    logger.setLevel(logging.DEBUG)
    logger.propagate = False

    def drain():
        out = list(records)
        del records[:]
        return out

    def snapshot(writer):
        err = writer._device_error
        return {
            "params": sorted((repr(k), repr(v), type(v).__name__)
                             for k, v in writer._current_params.items()),
            "reported": sorted(map(repr, writer._reported_params)),
            "query": [repr(writer.get_parameter(q)) for q in QUERY],
            "ack": writer._ack_event.is_set(),
            "online": writer._online_event.is_set(),
            "error": None if err is None else [type(err).__name__, str(err)],
            "logs": drain(),
        }

    def call(fn, *args):
        try:
            return ["ret", repr(fn(*args))]
        except BaseException as e:       # noqa: BLE001 - record everything
            return ["exc", type(e).__name__, str(e)]

    transcript = []
    inputs = gen_inputs()
    rng = random.Random(SEED + 1)

    # ---- phase 1: the receive callback, long sequences on one writer -----
    writer = PrintrunWriter("serial", "none", "/dev/fake", 115200)
    drain()

    for i, message in enumerate(inputs):
        if rng.random() < 0.3:
            writer._ack_event.clear()
        if rng.random() < 0.1:
            writer._device_error = None
        outcome = call(writer._on_device_message, message)
        transcript.append(["recv", i, message, outcome, snapshot(writer)])

    for token in NON_STRINGS:
        writer._ack_event.clear()
        outcome = call(writer._on_device_message, materialize(token))
        transcript.append(["recv-bad", token, outcome, snapshot(writer)])

    # ---- phase 2: _parse_message / _update_param / get_parameter direct --
    writer = PrintrunWriter("socket", "localhost", "8000", 0)
    drain()

    for i, message in enumerate(inputs[::3]):
        outcome = call(writer._parse_message, message)
        transcript.append(["parse", i, outcome, snapshot(writer)])

    for token in NON_STRINGS:
        outcome = call(writer._parse_message, materialize(token))
        transcript.append(["parse-bad", token, outcome, snapshot(writer)])

    for key, value in [("X", 1.0), ("X", 2.0), ("x", 3.0), ("Q", None),
                       ("Q", 4), ("", 1.5), ("ab", -0.0), (None, 1.0),
                       (5, 1.0), (("t",), 2.0), ([], 1.0)]:
        outcome = call(writer._update_param, key, value)
        transcript.append(["update", repr(key), outcome, snapshot(writer)])

    for name in ["X", "x", "", "nope", None, 5, b"X"]:
        transcript.append(["get", repr(name), call(writer.get_parameter, name)])

    # ---- phase 3: subclass hooks still see the same calls ----------------
    class Traced(PrintrunWriter):
        def __init__(self, *a, **k):
            self.trace = []
            super().__init__(*a, **k)

        def _update_param(self, key, value):
            self.trace.append(["update", key, repr(value)])
            super()._update_param(key, value)

        def _parse_message(self, message):
            self.trace.append(["parse", message])
            super()._parse_message(message)

        def _format_error(self, message):
            self.trace.append(["format", message])
            if "boom" in message:
                raise RuntimeError("format failed")
            return "E<" + message + ">"

    traced = Traced("serial", "none", "/dev/fake", 115200)
    drain()
    extra = ["error: boom X:1", "ALARM:boom", "!! X:5", "ok boom X:2"]

    for i, message in enumerate(inputs[1::4] + extra):
        traced._ack_event.clear()
        outcome = call(traced._on_device_message, message)
        trace, traced.trace = traced.trace, []
        transcript.append(["traced", i, outcome, trace, snapshot(traced)])

    # ---- phase 4: full write() path against an in-process fake device ----
    class FakeQueue:
        def empty(self):
            return True

    class FakePrintcore:
        script = {}

        def __init__(self):
            self.online = False
            self.printing = False
            self.clear = True
            self.printer = None
            self.priqueue = FakeQueue()
            self.sent = []
            self.onlinecb = self.errorcb = self.recvcb = None
            self.loud = False

        def connect(self, port, baud):
            self.printer = object()
            self.online = True
            self.sent.append(["connect", port, baud])
            self.recvcb("start")
            self.recvcb("echo: X:0.00 Y:0.00 Z:0.00 E:0.00")
            self.onlinecb()

        def disconnect(self):
            self.sent.append(["disconnect"])
            self.online = False
            self.printer = None

        def startprint(self, gcode):
            self.sent.append(["startprint"])

        def cancelprint(self):
            self.sent.append(["cancelprint"])

        def send(self, command):
            self.sent.append(["send", command])
            for line in FakePrintcore.script.get(command, ["ok"]):
                self.recvcb(line)

    mod.printcore = FakePrintcore
    FakePrintcore.script = {
        "M114": ["X:10.00 Y:-20.50 Z:0.30 E:1.25 Count X:800 Y:-1640 Z:120",
                 "ok"],
        "M105": ["ok T:201.4 /200.0 B:59.8 /60.0 @:64 B@:127"],
        "?": ["<Idle|MPos:1.000,-2.000,3.500|FS:500,12000|WCO:0,0,0>", "ok"],
        "G38.2 Z-10 F50": ["[PRB:0.100,0.200,-3.125:1]", "ok"],
        "M999": ["error:9 X:77"],
        "M112": ["!! halted T:1.2.3", "ok"],
        "G1 X1": ["<Run|FS:10,1.2.3|MPos:4,5>", "ok T:- B:7"],
    }

    writer = PrintrunWriter("serial", "none", "/dev/fake", 250000)
    writer.set_timeout(2.0)
    drain()
    commands = list(FakePrintcore.script) + ["G0 X0", "M105", "?", "M114"]
    rng.shuffle(commands)

    for i, command in enumerate(commands * 2):
        outcome = call(writer.write, (command + "\n").encode("utf-8"))
        device = writer._device
        sent = None if device is None else list(device.sent)
        transcript.append(["write", i, command, outcome, sent,
                           snapshot(writer)])

    outcome = call(writer.disconnect)
    transcript.append(["disconnect", outcome, snapshot(writer)])

    assert threading.active_count() == 1, "no background threads expected"

    sys.stderr.write("child tree: %s (%d steps)\n"
                     % (os.path.dirname(gscrib.__file__), len(transcript)))
    json.dump({"tree": os.path.dirname(os.path.dirname(gscrib.__file__)),
               "steps": transcript}, sys.stdout)


# --------------------------------------------------------------------------
# Parent
# --------------------------------------------------------------------------

def run_tree(path):
    env = dict(os.environ)
    env["PYTHONPATH"] = path
    env["PYTHONHASHSEED"] = "0"
    proc = subprocess.run(
        [sys.executable, os.path.abspath(__file__), "--child"],
        env=env, cwd="/tmp/twin-C18", stdin=subprocess.DEVNULL,
        stdout=subprocess.PIPE, stderr=subprocess.PIPE, timeout=300)
    sys.stderr.write(proc.stderr.decode("utf-8", "replace")[-2000:])
    assert proc.returncode == 0, "child failed for %s" % path
    data = json.loads(proc.stdout.decode("utf-8"))
    assert os.path.realpath(data["tree"]) == os.path.realpath(path), \
        "imported %s instead of %s" % (data["tree"], path)
    return data["steps"]


def main():
    base = run_tree(TREES["base"])
    twin = run_tree(TREES["twin"])
    assert len(base) == len(twin), (len(base), len(twin))

    for a, b in zip(base, twin):
        assert a == b, "transcripts differ:\n base: %r\n twin: %r" % (a, b)

    kinds = {}
    for step in base:
        kinds[step[0]] = kinds.get(step[0], 0) + 1

    logs = [log for s in base if isinstance(s[-1], dict)
            for log in s[-1]["logs"]]
    updates = sum(1 for log in logs if log[1].startswith("Set '"))
    failures = sum(1 for log in logs
                   if log[1].startswith("Error parsing value"))
    print("identical transcripts: %d steps %r" % (len(base), kinds))
    print("parameter updates seen: %d, value parse failures seen: %d"
          % (updates, failures))
    assert updates > 500 and failures > 50, "inputs do not exercise the code"
    print("EQUIVALENT")


if __name__ == "__main__":
    if "--child" in sys.argv[1:]:
        child()
    else:
        main()
