#!/usr/bin/env python
"""Differential check for the C04 refactoring (twin2).

Runs the same seeded driver against the pristine tree (/repo) and the
refactored tree (/tmp/wtU-C04) in two separate subprocesses, collects a
transcript of everything observable and asserts both are identical.

Refactored code under test:
  - gscrib.geometry.point.Point.resolve / Point.replace
  - gscrib.geometry.transformer.CoordinateTransformer.scale
  - gscrib.geometry.transformer.CoordinateTransformer._rotation_vector

Usage: python equiv.py            (parent, exits 0 when identical)
       python equiv.py --child    (prints a JSON transcript)
"""

import json
import os
import subprocess
import sys

TREES = {"base": "/repo", "twin": "/tmp/wtU-C04"}
SEED = 20261004


# ---------------------------------------------------------------------
# Child: drives the library found on PYTHONPATH
# ---------------------------------------------------------------------

def child() -> None:
    import random
    import warnings

    warnings.simplefilter("ignore")

    import numpy as np
    import gscrib
    from gscrib import GCodeBuilder, GCodeCore
    from gscrib.enums import Axis, Plane
    from gscrib.geometry import Point, CoordinateTransformer
    from gscrib.writers import BaseWriter

    rng = random.Random(SEED)
    log = []

    def rec(*items):
        log.append([str(i) for i in items])

    def show(value):
        """A representation that keeps types, signs and full precision."""

        if isinstance(value, np.ndarray):
            return "nd%s:%s:%s" % (
                value.shape, value.dtype, value.tobytes().hex())

        if isinstance(value, tuple) and hasattr(value, "_fields"):
            return "%s(%s)" % (
                type(value).__name__, ", ".join(show(v) for v in value))

        if isinstance(value, (list, tuple)):
            body = ", ".join(show(v) for v in value)
            return "%s[%s]" % (type(value).__name__, body)

        return "%s:%r" % (type(value).__name__, value)

    def attempt(label, function, *args, **kwargs):
        try:
            result = function(*args, **kwargs)
            rec(label, "ok", show(result))
            return result
        except Exception as error:  # pylint: disable=broad-except
            rec(label, "raise", type(error).__name__, str(error)[:160])
            return None

    class Recorder(BaseWriter):
        """In-process fake device that keeps every emitted statement."""

        def __init__(self):
            self.lines = []

        def connect(self):
            return self

        def disconnect(self, wait=True):
            pass

        def write(self, statement):
            self.lines.append(statement)

        def flush(self):
            pass

    # -- value pools ---------------------------------------------------

    specials = [
        None, 0, 0.0, -0.0, 1, -1, 2, 0.5, -0.5, 1e-12, -1e-12, 1e12,
        float("nan"), float("inf"), float("-inf"), True, False,
        np.float64(0.0), np.float64(-0.0), np.float64(2.5), np.int64(3),
        np.float32(1.5), 123456.789012345, -98765.4321,
    ]

    def coord(allow_none=True):
        roll = rng.random()

        if roll < 0.25:
            value = rng.choice(specials)
            if value is None and not allow_none:
                return 0.0
            return value

        if roll < 0.40:
            return rng.randint(-50, 50)

        return round(rng.uniform(-200, 200), rng.choice([0, 1, 3, 6, 12]))

    def finite(allow_none=False):
        roll = rng.random()

        if allow_none and roll < 0.25:
            return None

        if roll < 0.35:
            return rng.choice([0, 0.0, -0.0, 1, -1, 10, 0.5, -2.5, 1e-9])

        if roll < 0.5:
            return rng.randint(-30, 30)

        return round(rng.uniform(-100, 100), rng.choice([0, 2, 5, 9]))

    # -- 1. Point.resolve / Point.replace ----------------------------------

    for i in range(300):
        point = Point(coord(), coord(), coord())
        rec("point", i, show(point))
        attempt("resolve", point.resolve)
        count = rng.choice([0, 1, 2, 3, 3, 3, 4])
        args = [coord() for _ in range(count)]
        attempt("replace*", point.replace, *args)
        attempt("replace-kw", point.replace,
            **{k: coord() for k in rng.sample("xyz", rng.randint(0, 3))})
        attempt("replace-point", lambda: point.replace(*Point(*args[:3])))

    attempt("resolve-unknown", Point.unknown().resolve)
    attempt("resolve-zero", Point.zero().resolve)
    attempt("resolve-str", Point("a", None, [1]).resolve)
    attempt("replace-str", Point("a", None, [1]).replace, None, "b", ())
    attempt("replace-bad-kw", Point.zero().replace, w=1)
    attempt("from_vector", Point.from_vector, np.array([1.5, -0.0, 3, 1]))
    attempt("from_vector-short", Point.from_vector, np.array([1.5]))

    # -- 2. CoordinateTransformer.scale --------------------------------------

    def matrices(transformer):
        current = transformer._current_transform
        return "%s|%s|%s" % (
            show(current._matrix), show(current._inverse),
            show(current._pivot))

    scale_pool = [
        0, 0.0, -0.0, 1, -1, 2, 0.5, -3.25, 1e-300, 1e300, True, False,
        float("nan"), float("inf"), np.float64(2.0), np.float64(0.0),
        np.int64(2), np.float32(0.5), "2", None, [2.0], (1.0,), 2 + 0j,
    ]

    for i in range(300):
        transformer = CoordinateTransformer()

        if rng.random() < 0.5:
            transformer.set_pivot(
                (finite(), finite(), finite()))

        if rng.random() < 0.5:
            transformer.translate(
                float(finite()), float(finite()), float(finite()))

        count = rng.choice([0, 1, 1, 2, 2, 3, 3, 4, 5])

        if rng.random() < 0.6:
            args = [round(rng.uniform(-4, 4), 3) or 1.0 for _ in range(count)]
        else:
            args = [rng.choice(scale_pool) for _ in range(count)]

        rec("scale-args", i, show(args))
        attempt("scale", transformer.scale, *args)
        rec("scale-state", matrices(transformer))
        attempt("apply", transformer.apply_transform,
            (finite(), finite(), finite()))
        attempt("reverse", transformer.reverse_transform,
            (finite(), finite(), finite()))

    attempt("scale-kw", CoordinateTransformer().scale, scale=2.0)

    # -- 3. rotate / _rotation_vector ------------------------------------------

    axis_pool = [
        Axis.X, Axis.Y, Axis.Z, "x", "y", "z", "X", "w", "", None, 0,
        ("x",), ["x"], Plane.XY, "xy",
    ]

    angle_pool = [
        0, 0.0, -0.0, 90, -90, 45.0, 180, 360, 720.5, 1e-9, 1e9, True,
        float("nan"), float("inf"), np.float64(30.0), np.int64(60),
        "90", None, [90.0],
    ]

    for i in range(300):
        transformer = CoordinateTransformer()

        if rng.random() < 0.5:
            transformer.set_pivot((finite(), finite(), finite()))

        if rng.random() < 0.6:
            angle = round(rng.uniform(-720, 720), rng.choice([0, 1, 4]))
            axis = rng.choice(axis_pool[:6])
        else:
            angle = rng.choice(angle_pool)
            axis = rng.choice(axis_pool)

        rec("rotate-args", i, show(angle), show(axis))
        attempt("rotvec", transformer._rotation_vector, angle, axis)
        attempt("rotate", transformer.rotate, angle, axis)
        rec("rotate-state", matrices(transformer))
        attempt("apply", transformer.apply_transform,
            (finite(), finite(), finite()))

    attempt("rotate-default", CoordinateTransformer().rotate, 33.0)

    first = CoordinateTransformer()._rotation_vector(10, Axis.X)
    second = CoordinateTransformer()._rotation_vector(10, Axis.X)
    first[1] = 99  # results must not share storage between calls
    rec("rotvec-fresh", show(first), show(second))

    # -- 4. End to end sessions through the builders ------------------------------

    def random_point_kwargs():
        axes = rng.sample("xyz", rng.randint(0, 3))
        kwargs = {a: finite() for a in axes}

        if rng.random() < 0.3:
            kwargs["F"] = rng.choice([100, 1500.5, 0, None])

        if rng.random() < 0.1:
            kwargs["comment"] = "note %d" % rng.randint(0, 9)

        return kwargs

    def random_pointlike():
        roll = rng.random()

        if roll < 0.4:
            return Point(finite(True), finite(True), finite(True))

        if roll < 0.6:
            return (finite(True), finite(True), finite(True))

        if roll < 0.8:
            return [finite(), finite()]

        if roll < 0.9:
            return (coord(), coord(), coord())

        return rng.choice([(), (1,), (1, 2, 3, 4), "abc", 5, None])

    def snapshot(g, writer):
        rec("state",
            show(g.position),
            str(g.distance_mode),
            matrices(g.transform),
            len(g.transform._transforms_stack),
            sorted(g.transform._named_transforms),
            show(dict(g._current_params)),
        )

        rec("lines", len(writer.lines), [
            line.hex() if isinstance(line, bytes) else repr(line)
            for line in writer.lines
        ])

        del writer.lines[:]

    def step(g, writer):
        t = g.transform
        op = rng.choice([
            "move", "move", "move", "rapid", "rapid", "probe", "movep",
            "translate", "rotate", "scale", "scale", "reflect", "mirror",
            "pivot", "mode", "save", "restore", "named", "abs", "rabs",
            "set_axis", "polyline", "arc", "circle", "spline", "context",
            "to_abs", "to_list", "to_mode", "chain", "hooked",
        ])

        rec("op", op)

        if op == "move":
            attempt(op, g.move, **random_point_kwargs())
        elif op == "rapid":
            attempt(op, g.rapid, **random_point_kwargs())
        elif op == "movep":
            attempt(op, rng.choice([g.move, g.rapid]), random_pointlike())
        elif op == "probe":
            if hasattr(g, "probe"):
                attempt(op, g.probe,
                    rng.choice(["towards", "away", "towards-no-error", "x"]),
                    **random_point_kwargs())
        elif op == "translate":
            args = [float(finite()) for _ in range(rng.choice([2, 3]))]
            attempt(op, t.translate, *args)
        elif op == "rotate":
            attempt(op, t.rotate,
                rng.choice([90, -90, 45.0, 30, 180, 12.5, 0, 360.0,
                    round(rng.uniform(-360, 360), 3)]),
                rng.choice(["x", "y", "z", Axis.X, Axis.Y, Axis.Z, "q"]))
        elif op == "scale":
            count = rng.choice([0, 1, 1, 2, 2, 3, 3, 4])
            args = [
                rng.choice([2, 2.0, 0.5, -1.0, -1, 1, 1.5, 3.0, 0.25, 0,
                    round(rng.uniform(-3, 3), 2)])
                for _ in range(count)
            ]
            attempt(op, t.scale, *args)
        elif op == "reflect":
            normal = [
                float(rng.choice([0, 0, 1, -1, 2.5, rng.uniform(-1, 1)]))
                for _ in range(rng.choice([3, 3, 3, 1, 4]))
            ]
            attempt(op, t.reflect, normal)
        elif op == "mirror":
            attempt(op, t.mirror,
                rng.choice(["xy", "yz", "zx", Plane.XY, Plane.ZX, "xz"]))
        elif op == "pivot":
            attempt(op, t.set_pivot, random_pointlike())
        elif op == "mode":
            attempt(op, g.set_distance_mode,
                rng.choice(["absolute", "relative", "bogus"]))
        elif op == "save":
            attempt(op, t.save_state, rng.choice([None, None, "a", " b ", ""]))
        elif op == "restore":
            attempt(op, t.restore_state,
                rng.choice([None, None, "a", "b", "zz", "  "]))
        elif op == "named":
            def run():
                with g.named_transform(rng.choice(["a", "b"])):
                    g.move(**random_point_kwargs())
                    t.scale(2.0)
                    g.move(**random_point_kwargs())
            attempt(op, run)
        elif op == "abs":
            attempt(op, g.move_absolute, **random_point_kwargs())
        elif op == "rabs":
            attempt(op, g.rapid_absolute, random_pointlike())
        elif op == "set_axis":
            attempt(op, g.set_axis, **random_point_kwargs())
        elif op == "polyline":
            if hasattr(g, "trace"):
                targets = [
                    random_pointlike() if rng.random() < 0.15 else
                    [finite() for _ in range(rng.choice([2, 3]))]
                    for _ in range(rng.randint(0, 4))
                ]
                attempt(op, g.trace.polyline, targets)
        elif op == "arc":
            if hasattr(g, "trace"):
                radius = rng.choice([5, 10.0, 2.5])
                attempt("direction", g.set_direction,
                    rng.choice(["cw", "ccw"]))
                here = g.position.resolve()
                relative = g.distance_mode.is_relative
                target = (
                    (2 * radius, 0) if relative else
                    (here.x + 2 * radius, here.y)
                )
                if rng.random() < 0.3:
                    target = (*target, finite())
                if rng.random() < 0.15:
                    target = (finite(), finite())
                attempt(op, g.trace.arc, target, (radius, 0))
        elif op == "circle":
            if hasattr(g, "trace"):
                attempt(op, g.trace.circle, (
                    rng.choice([0, 3, -4.5, 8.0, 0.25]),
                    rng.choice([0, 2, -6.5, 7.0])))
        elif op == "spline":
            if hasattr(g, "trace"):
                targets = [
                    [finite() for _ in range(rng.choice([2, 3]))]
                    for _ in range(rng.randint(1, 4))
                ]
                attempt(op, g.trace.spline, targets)
        elif op == "context":
            def run():
                with g.current_transform():
                    t.scale(*[
                        rng.choice([2.0, -1.0, 0.5, 3])
                        for _ in range(rng.randint(1, 3))
                    ])
                    t.rotate(rng.choice([90, 37.5]), rng.choice("xyz"))
                    g.move(**random_point_kwargs())
                    with g.relative_mode():
                        g.move(**random_point_kwargs())
                    if rng.random() < 0.3:
                        t.scale(0)
                g.move(**random_point_kwargs())
            attempt(op, run)
        elif op == "to_abs":
            attempt(op, g.to_absolute, random_pointlike())
        elif op == "to_list":
            attempt(op, g.to_absolute_list,
                [random_pointlike() for _ in range(rng.randint(0, 3))])
        elif op == "to_mode":
            attempt(op, g.to_distance_mode,
                Point(finite(True), finite(True), finite(True)))
        elif op == "chain":
            matrix = np.eye(rng.choice([4, 4, 3]))
            matrix[0, 1] = rng.choice([0.0, 0.5, -2.0])
            attempt(op, t.chain_transform, matrix)
        elif op == "hooked":
            if hasattr(g, "move_hook"):
                def hook(origin, target, params, state):
                    rec("hook", show(origin), show(target))
                    params.update(E=1.25)
                    return params

                def run():
                    with g.move_hook(hook):
                        g.move(**random_point_kwargs())

                attempt(op, run)

        snapshot(g, writer)

    for session in range(60):
        builder = GCodeBuilder if session % 4 else GCodeCore
        options = {}

        if session % 5 == 0:
            options["decimal_places"] = rng.choice([0, 2, 8])

        if session % 7 == 0:
            options.update(x_axis="U", y_axis="V", z_axis="W")

        g = builder(**options)
        writer = Recorder()
        g.add_writer(writer)
        rec("session", session, builder.__name__, sorted(options.items()))

        if hasattr(g, "set_resolution"):  # keep interpolated paths short
            g.set_resolution(rng.choice([2.0, 5.0, 12.5]))

        if rng.random() < 0.7:
            attempt("first", g.move, x=finite(), y=finite(), z=finite())

        for _ in range(45):
            step(g, writer)

        attempt("teardown", g.teardown)
        snapshot(g, writer)

    rec("version", getattr(gscrib, "__version__", "?"), len(log))
    json.dump(log, sys.stdout)


# ---------------------------------------------------------------------
# Parent: run both trees and compare
# ---------------------------------------------------------------------

def run_tree(name: str, path: str) -> list:
    env = dict(os.environ)
    env["PYTHONPATH"] = path
    env["PYTHONHASHSEED"] = "0"
    env["PYTHONDONTWRITEBYTECODE"] = "1"

    process = subprocess.run(
        [sys.executable, os.path.abspath(__file__), "--child"],
        env=env, cwd="/tmp", stdin=subprocess.DEVNULL,
        capture_output=True, text=True, timeout=600, check=False,
    )

    if process.returncode != 0:
        sys.stderr.write(process.stderr[-4000:])
        raise SystemExit("child for %s failed (%d)" % (name, process.returncode))

    probe = subprocess.run(
        [sys.executable, "-c", "import gscrib; print(gscrib.__file__)"],
        env=env, cwd="/tmp", stdin=subprocess.DEVNULL,
        capture_output=True, text=True, timeout=120, check=True,
    )

    location = probe.stdout.strip()
    assert location.startswith(path + "/"), (name, location)
    print("%s: gscrib from %s" % (name, location))

    return json.loads(process.stdout)


def main() -> None:
    transcripts = {
        name: run_tree(name, path)
        for name, path in TREES.items()
    }

    base, twin = transcripts["base"], transcripts["twin"]
    print("entries: base=%d twin=%d" % (len(base), len(twin)))

    for index, (a, b) in enumerate(zip(base, twin)):
        if a != b:
            print("FIRST DIFFERENCE at entry", index)
            print("  context:", base[max(0, index - 3):index])
            print("  base:", a)
            print("  twin:", b)
            raise SystemExit(1)

    assert len(base) == len(twin), "transcript lengths differ"
    assert base == twin

    kinds = {}
    for entry in base:
        key = entry[0] if len(entry) < 2 or entry[1] not in ("ok", "raise") \
            else "%s/%s" % (entry[0], entry[1])
        kinds[key] = kinds.get(key, 0) + 1

    raised = sum(v for k, v in kinds.items() if k.endswith("/raise"))
    passed = sum(v for k, v in kinds.items() if k.endswith("/ok"))
    lines = sum(int(e[1]) for e in base if e[0] == "lines")
    print("calls ok=%d raised=%d emitted lines=%d" % (passed, raised, lines))
    print("IDENTICAL")


if __name__ == "__main__":
    if "--child" in sys.argv:
        child()
    else:
        main()
