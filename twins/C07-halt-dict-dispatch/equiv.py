#!/usr/bin/env python
"""Differential check for the C07 twin refactoring (GCodeBuilder.halt).

Runs the same seeded call histories against the unmodified tree (/repo)
and the refactored tree (/tmp/wtT-C07), each in its own subprocess, and
asserts that the two transcripts (emitted bytes, state snapshots, return
values, exception type names and messages) are identical.

Usage:  python equiv.py            (driver, exits 0 when identical)
        python equiv.py --worker   (internal: prints a JSON transcript)
"""

import json
import os
import subprocess
import sys

TREES = {"base": "/repo", "twin": "/tmp/wtT-C07"}
SEED = 70707
SCENARIOS = 420


# ---------------------------------------------------------------------
# Worker: runs inside one tree
# ---------------------------------------------------------------------

def worker() -> None:
    import math
    import random
    import logging

    import numpy as np
    import gscrib
    from gscrib import GCodeBuilder
    from gscrib.enums import (
        HaltMode, SpinMode, PowerMode, CoolantMode, ToolSwapMode,
        TemperatureUnits, TimeUnits, DistanceMode, LengthUnits, Plane,
        FeedMode, ExtrusionMode,
    )
    from gscrib.writers import BaseWriter

    logging.disable(logging.CRITICAL)
    rng = random.Random(SEED)

    class FakeWriter(BaseWriter):
        """In-process writer that records bytes; may fail on demand."""

        def __init__(self):
            self.lines = []
            self.fail_next = None

        def connect(self):
            return self

        def disconnect(self, wait=True):
            pass

        def write(self, statement):
            if self.fail_next is not None:
                error, self.fail_next = self.fail_next, None
                raise error
            self.lines.append(statement)

    def show(value):
        if isinstance(value, float):
            return "float:" + repr(value)
        return type(value).__name__ + ":" + repr(value)

    STATE_PROPS = (
        "position", "is_coolant_active", "is_tool_active", "tool_number",
        "tool_power", "feed_rate", "spin_mode", "power_mode",
        "coolant_mode", "distance_mode", "extrusion_mode", "feed_mode",
        "tool_swap_mode", "halt_mode", "length_units", "time_units",
        "temperature_units", "plane", "direction", "resolution",
        "target_hotend_temperature", "target_bed_temperature",
        "target_chamber_temperature",
    )

    PARAM_NAMES = ("F", "S", "R", "E", "P", "X", "Y", "Z")

    def snapshot(g):
        state = g.state
        snap = {name: show(getattr(state, name)) for name in STATE_PROPS}
        snap["params"] = {n: show(state.get_parameter(n)) for n in PARAM_NAMES}
        snap["core_params"] = {n: show(g.get_parameter(n)) for n in PARAM_NAMES}
        snap["core_position"] = show(g.position)
        snap["core_distance_mode"] = show(g.distance_mode)
        snap["bounds"] = {
            n: show(state.get_bounds(n)) for n in (
                "bed-temperature", "hotend-temperature",
                "chamber-temperature", "feed-rate", "tool-power")
        }
        return snap

    # -- value pools ---------------------------------------------------

    HALT_MODES = list(HaltMode)
    TEMP_MODES = [
        HaltMode.WAIT_FOR_BED, HaltMode.WAIT_FOR_HOTEND,
        HaltMode.WAIT_FOR_CHAMBER,
    ]

    BOUNDARY = [
        0, 0.0, -0.0, 1, -1, 20, 20.0, 60, 60.0, 59.999999, 60.000001,
        200, 250, 250.5, 300, -273.15, 1e-9, 1e9, 1e308, -1e308,
        float("inf"), float("-inf"), float("nan"),
    ]

    def weird_values():
        return [
            None, True, False, "60", "", "abc", b"60", [60], (60,), {},
            {"a": 1}, 3 + 4j, np.float64(55.5), np.float32(42.25),
            np.int64(61), np.array(5.0), np.array([1.0, 2.0]),
            HaltMode.PAUSE, object, math.pi,
        ]

    def temperature():
        roll = rng.random()
        if roll < 0.45:
            return rng.choice(BOUNDARY)
        if roll < 0.65:
            return rng.choice(weird_values())
        if roll < 0.85:
            return round(rng.uniform(-50, 350), rng.choice((0, 1, 3, 6)))
        return rng.randint(-20, 320)

    def halt_mode_arg():
        roll = rng.random()
        if roll < 0.55:
            return rng.choice(TEMP_MODES)
        if roll < 0.75:
            return rng.choice(HALT_MODES)
        if roll < 0.90:
            return rng.choice(HALT_MODES).value   # plain strings
        return rng.choice([
            "bogus", "", "OFF", "off", "WAIT-FOR-BED", 5, None, 1.5,
            SpinMode.OFF, CoolantMode.OFF, "wait-for-bed ", b"pause",
        ])

    def halt_kwargs():
        keys = rng.choice([
            (), ("S",), ("R",), ("s",), ("r",), ("S", "R"), ("R", "S"),
            ("r", "S"), ("s", "R"), ("s", "S"), ("S", "s"), ("r", "R"),
            ("R", "r"), ("S", "R", "s", "r"), ("P",), ("S", "P"),
            ("T", "R"), ("comment",), ("S", "comment"), ("ss",), ("Rs",),
            ("", "S"), ("X", "S"), ("F", "R"),
        ])
        return {key: temperature() for key in keys}

    def bounds_pair():
        choice = rng.random()
        if choice < 0.7:
            low = rng.choice([-10, 0, 0.0, 20, 59.5, 60])
            high = low + rng.choice([0.5, 1, 40, 200, 1e6])
            return low, high
        return rng.choice([
            (0, 0), (10, 5), (float("-inf"), float("inf")),
            (float("nan"), 5), (0, float("nan")), ("0", 5), (None, 5),
            (0, 1e308),
        ])

    # -- operations ----------------------------------------------------

    def op_halt(g, w):
        mode, kwargs = halt_mode_arg(), halt_kwargs()
        return ("halt", show(mode), {k: show(v) for k, v in kwargs.items()}), \
            lambda: g.halt(mode, **kwargs)

    def op_halt_failing_writer(g, w):
        mode, kwargs = rng.choice(TEMP_MODES), halt_kwargs()
        error = rng.choice([
            RuntimeError("boom"), OSError("io"), ValueError("bad"),
            gscrib.excepts.DeviceError("device"),
            gscrib.excepts.GCodeError("gcode"), KeyError("k"),
        ])

        def call():
            w.fail_next = error
            try:
                return g.halt(mode, **kwargs)
            finally:
                w.fail_next = None

        return ("halt-failing-writer", show(mode), type(error).__name__,
                {k: show(v) for k, v in kwargs.items()}), call

    def op_set_bounds(g, w):
        name = rng.choice([
            "bed-temperature", "hotend-temperature", "chamber-temperature",
            "bed-temperature", "hotend-temperature", "chamber-temperature",
            "feed-rate", "tool-power", "tool-number", "temperature", "",
        ])
        low, high = bounds_pair()
        return ("set_bounds", name, show(low), show(high)), \
            lambda: g.set_bounds(name, low, high)

    def op_tool(g, w):
        kind = rng.randrange(6)
        speed = rng.choice([0, 1, 1000, 1000.5, -1, float("nan"), 255])
        if kind == 0:
            mode = rng.choice([SpinMode.CLOCKWISE, SpinMode.COUNTER, "cw", "off", "x"])
            return ("tool_on", show(mode), show(speed)), lambda: g.tool_on(mode, speed)
        if kind == 1:
            return ("tool_off",), g.tool_off
        if kind == 2:
            mode = rng.choice([PowerMode.CONSTANT, PowerMode.DYNAMIC, "constant", "off"])
            return ("power_on", show(mode), show(speed)), lambda: g.power_on(mode, speed)
        if kind == 3:
            return ("power_off",), g.power_off
        if kind == 4:
            mode = rng.choice([CoolantMode.MIST, CoolantMode.FLOOD, "flood", "off"])
            return ("coolant_on", show(mode)), lambda: g.coolant_on(mode)
        return ("coolant_off",), g.coolant_off

    def op_units(g, w):
        kind = rng.randrange(4)
        if kind == 0:
            units = rng.choice(list(TemperatureUnits) + ["kelvin", "bogus"])
            return ("set_temperature_units", show(units)), \
                lambda: g.set_temperature_units(units)
        if kind == 1:
            units = rng.choice(list(TimeUnits))
            return ("set_time_units", show(units)), lambda: g.set_time_units(units)
        if kind == 2:
            units = rng.choice(list(LengthUnits))
            return ("set_length_units", show(units)), lambda: g.set_length_units(units)
        mode = rng.choice(list(DistanceMode))
        return ("set_distance_mode", show(mode)), lambda: g.set_distance_mode(mode)

    def op_set_temperature(g, w):
        value = temperature()
        name = rng.choice([
            "set_bed_temperature", "set_hotend_temperature",
            "set_chamber_temperature",
        ])
        return (name, show(value)), lambda: getattr(g, name)(value)

    def op_move(g, w):
        kwargs = {}
        for axis in rng.sample(["x", "y", "z"], rng.randint(0, 3)):
            kwargs[axis] = rng.choice([0, 1, -1.5, 10, 1e3])
        if rng.random() < 0.5:
            kwargs[rng.choice(["F", "f"])] = rng.choice([0, 100, 1500.5, -1])
        if rng.random() < 0.3:
            kwargs[rng.choice(["S", "s"])] = rng.choice([0, 10, 99.5, -1])
        if rng.random() < 0.2:
            kwargs[rng.choice(["R", "r"])] = rng.choice([0, 5, 7.5])
        name = rng.choice(["move", "rapid", "move_absolute"])
        return (name, {k: show(v) for k, v in kwargs.items()}), \
            lambda: getattr(g, name)(**kwargs)

    def op_shortcut(g, w):
        kind = rng.randrange(6)
        flag = rng.choice([True, False, None, 1, "yes"])
        if kind == 0:
            return ("wait",), g.wait
        if kind == 1:
            return ("pause", show(flag)), lambda: g.pause(flag)
        if kind == 2:
            return ("stop", show(flag)), lambda: g.stop(flag)
        if kind == 3:
            message = rng.choice(["over-heat", "", "a;b", 5])
            return ("emergency_halt", show(message), show(flag)), \
                lambda: g.emergency_halt(message, flag)
        if kind == 4:
            return ("write",), lambda: g.write("G4 P1")
        return ("comment",), lambda: g.comment("hello")

    OPS = (
        [op_halt] * 10 + [op_halt_failing_writer] * 1 + [op_set_bounds] * 3 +
        [op_tool] * 3 + [op_units] * 1 + [op_set_temperature] * 1 +
        [op_move] * 1 + [op_shortcut] * 2
    )

    transcript = []
    total_calls = 0

    for index in range(SCENARIOS):
        config = rng.choice([
            {}, {"decimal_places": 2}, {"decimal_places": 0},
            {"comment_symbols": "("}, {"line_endings": "windows"},
        ])

        g = GCodeBuilder(**config)
        w = FakeWriter()
        g.add_writer(w)
        steps = [("config", config, snapshot(g))]

        for _ in range(rng.randint(3, 14)):
            label, call = rng.choice(OPS)(g, w)
            emitted_before = len(w.lines)

            try:
                outcome = ("ok", show(call()))
            except BaseException as error:  # pylint: disable=broad-except
                outcome = ("raise", type(error).__name__, str(error),
                           type(error.__cause__).__name__)

            emitted = [line.decode("utf-8", "backslashreplace")
                       for line in w.lines[emitted_before:]]

            steps.append((label, outcome, emitted, snapshot(g)))
            total_calls += 1

        transcript.append(steps)

    json.dump({
        "module": os.path.dirname(os.path.abspath(gscrib.__file__)),
        "calls": total_calls,
        "transcript": transcript,
    }, sys.stdout)


# ---------------------------------------------------------------------
# Driver: compares both trees
# ---------------------------------------------------------------------

def run_tree(root: str) -> dict:
    env = dict(os.environ)
    env["PYTHONPATH"] = root
    env["PYTHONDONTWRITEBYTECODE"] = "1"
    env["PYTHONHASHSEED"] = "0"

    result = subprocess.run(
        [sys.executable, os.path.abspath(__file__), "--worker"],
        env=env, cwd="/tmp", stdin=subprocess.DEVNULL,
        stdout=subprocess.PIPE, stderr=subprocess.PIPE,
        timeout=600, check=False,
    )

    if result.returncode != 0:
        sys.stderr.write(result.stderr.decode("utf-8", "replace"))
        raise SystemExit(f"worker for {root} failed ({result.returncode})")

    data = json.loads(result.stdout)
    expected = os.path.join(root, "gscrib")
    assert data["module"] == expected, (data["module"], expected)
    return data


def main() -> None:
    base = run_tree(TREES["base"])
    twin = run_tree(TREES["twin"])

    assert base["calls"] == twin["calls"], (base["calls"], twin["calls"])
    assert len(base["transcript"]) == len(twin["transcript"]) == SCENARIOS

    for number, (a, b) in enumerate(zip(base["transcript"], twin["transcript"])):
        if a == b:
            continue
        for step, (x, y) in enumerate(zip(a, b)):
            if x != y:
                print(f"MISMATCH scenario {number} step {step}")
                print(" base:", json.dumps(x)[:2000])
                print(" twin:", json.dumps(y)[:2000])
                break
        raise SystemExit(1)

    assert base["transcript"] == twin["transcript"]

    # Some statistics, so that it is visible the run was not vacuous

    outcomes, halts, emitted = {}, 0, 0

    for steps in base["transcript"]:
        for label, outcome, lines, _ in steps[1:]:
            key = outcome[0] if outcome[0] == "ok" else outcome[1]
            outcomes[key] = outcomes.get(key, 0) + 1
            halts += label[0].startswith("halt")
            emitted += len(lines)

    print(f"scenarios={SCENARIOS} calls={base['calls']} halt_calls={halts} "
          f"emitted_lines={emitted}")
    print("outcomes:", dict(sorted(outcomes.items())))
    print("IDENTICAL transcripts for", TREES["base"], "and", TREES["twin"])


if __name__ == "__main__":
    if "--worker" in sys.argv[1:]:
        worker()
    else:
        main()
