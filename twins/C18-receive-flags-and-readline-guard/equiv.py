#!/usr/bin/env python
"""Differential check: /repo (original) vs /tmp/wtU-C18 (refactored).

Drives PrintrunWriter._on_device_message (directly and through the
vendored printcore._readline / _listen with an in-process fake device)
and compares complete transcripts produced by the two trees.
"""

import json
import os
import subprocess
import sys

TREES = {"orig": "/repo", "refac": "/tmp/wtU-C18"}


# --------------------------------------------------------------------------
# Worker (runs inside each tree)
# --------------------------------------------------------------------------

def worker():
    import logging
    import random
    import traceback  # noqa: F401

    import gscrib
    from gscrib.writers.printrun_writer import PrintrunWriter
    from gscrib.printrun import printcore as pc_module
    from gscrib.printrun.printcore import printcore
    from gscrib.printrun import device as device_module

    tree = os.path.dirname(os.path.dirname(os.path.abspath(gscrib.__file__)))
    assert os.path.abspath(os.environ["EXPECT_TREE"]) == tree, tree

    rng = random.Random(180218)
    out = []

    # ---- logging capture -------------------------------------------------

    def norm_text(text):
        """Tracebacks name the tree the code was loaded from: replace that
        path, keep everything else (frame names, line numbers, source)."""
        import re
        text = str(text).replace(tree, "<TREE>")
        return re.sub(r" at 0x[0-9a-fA-F]+>", " at 0xADDR>", text)

    class Capture(logging.Handler):
        def __init__(self):
            super().__init__(level=logging.DEBUG)
            self.records = []

        def emit(self, record):
            try:
                msg = record.getMessage()
            except Exception as e:  # pragma: no cover
                msg = "<unformattable %s>" % type(e).__name__
            exc = None
            if record.exc_info and record.exc_info[0] is not None:
                exc = record.exc_info[0].__name__
            self.records.append(
                [record.name.split(".")[-1], record.levelname,
                 norm_text(msg), exc])

        def drain(self):
            records, self.records = self.records, []
            return records

    capture = Capture()
    for name in ("gscrib.writers.printrun_writer", "gscrib.printrun.printcore"):
        lg = logging.getLogger(name)
        lg.setLevel(logging.DEBUG)
        lg.propagate = False
        lg.handlers[:] = [capture]

    # ---- report generators ----------------------------------------------

    def num():
        kind = rng.randrange(12)
        if kind == 0:
            return str(rng.randint(-500, 500))
        if kind == 1:
            return "%.2f" % rng.uniform(-300, 300)
        if kind == 2:
            return "%.3f" % rng.uniform(-1, 1)
        if kind == 3:
            return rng.choice(["0", "-0", "0.0", "-0.0", "000.500", ".5",
                               "-.25", "5.", "00"])
        if kind == 4:
            return "%.6f" % rng.uniform(-1e4, 1e4)
        if kind == 5:  # not a float at all, still matches the pattern
            return rng.choice(["-", ".", "--1", "1.2.3", "1-2", "-.", "..",
                               "1.-"])
        if kind == 6:
            return str(rng.randint(0, 10 ** rng.randint(1, 25)))
        return "%.1f" % rng.uniform(-250, 250)

    def marlin_pos():
        letters = ["X", "Y", "Z", "E"]
        rng.shuffle(letters)
        if rng.random() < 0.2:
            letters += [rng.choice("XYZEABC")]
        head = " ".join("%s:%s" % (l, num()) for l in letters)
        count = " ".join("%s:%s" % (l, num()) for l in rng.sample("XYZ", 3))
        sep = rng.choice([" Count ", " Count: ", "  "])
        return head + sep + count

    def marlin_temp():
        parts = ["T:%s /%s" % (num(), num())]
        if rng.random() < 0.8:
            parts.append("B:%s /%s" % (num(), num()))
        if rng.random() < 0.5:
            parts.append("T0:%s /%s" % (num(), num()))
        if rng.random() < 0.5:
            parts.append("@:%s B@:%s" % (num(), num()))
        if rng.random() < 0.3:
            parts.append("W:%s" % rng.choice(["?", "3", num()]))
        rng.shuffle(parts)
        return " ".join(parts)

    def grbl_status():
        fields = [rng.choice(["Idle", "Run", "Hold:0", "Alarm", "Jog"])]
        body = []
        ncoord = rng.choice([1, 2, 3, 3, 3, 4, 6, 7])
        body.append("%s:%s" % (rng.choice(["MPos", "WPos", "MPos", "mpos"]),
                               ",".join(num() for _ in range(ncoord))))
        if rng.random() < 0.8:
            nfs = rng.choice([1, 2, 2, 2, 3])
            body.append("%s:%s" % (rng.choice(["FS", "FS", "FS", "F", "fs"]),
                                   ",".join(num() for _ in range(nfs))))
        if rng.random() < 0.4:
            body.append("WCO:%s,%s,%s" % (num(), num(), num()))
        if rng.random() < 0.3:
            body.append("Bf:%d,%d" % (rng.randint(0, 15), rng.randint(0, 128)))
        if rng.random() < 0.3:
            body.append("Ov:100,100,100")
        if rng.random() < 0.2:
            body.append("Pn:XYZ")
        rng.shuffle(body)
        line = "<" + "|".join(fields + body) + ">"
        if rng.random() < 0.1:
            line = line[1:]  # no leading '<': FS must be ignored
        return line

    def grbl_probe():
        ncoord = rng.choice([1, 2, 3, 3, 3, 4, 6])
        return "[PRB:%s:%s]" % (",".join(num() for _ in range(ncoord)),
                                rng.choice(["1", "0"]))

    def error_line():
        return rng.choice([
            "error:%d" % rng.randint(1, 40), "Error:Printer halted",
            "ALARM:%d" % rng.randint(1, 9), "alarm:2", "!! fatal X:1 Y:2",
            "error: X:5.0 out of range", "ERROR", "!!", "Alarm", "errorX:3",
            "okerror", "error ok", "erro:1", "alar:1", "! ! X:3",
        ])

    def misc_line():
        return rng.choice([
            "", "   ", "ok", "OK", "Ok ", "ok ", "okay X:1.5", "oK T:20.5 /0",
            "echo:busy: processing", "start", "Grbl 1.1h ['$' for help]",
            "[MSG:Pgm End]", "wait", "o", "k", "X", ":", "X:", ":5",
            "x:1 y:2 z:3", "FS:100,200", "<FS:1,2>", "<Idle|FS:1>",
            "<Idle|FS:1,2,3>", "ok <Idle|FS:4,5>", "[PRB:1,2]", "PRB:9,8,7",
            "X:1 X:2 X:3", "XY:1 Z:2", "1:5 2:6", "é:5 X:1", "X:１２",
            "\tX:4.5\r\n", "\x00X:1", "T:nan", "T:inf B:-inf", "T:1e5",
            "rs N12 Expected checksum", "Resend: 7", "DEBUG_ X:1",
            "N:5 X:2", "S:1,2", "F:3,4,5", "X:1,2 Y:3", "MPos:1,2,3",
            "WPos:-1,-2,-3|MPos:4,5,6", "<Idle|WPos:1,2,3|MPos:4,5,6>",
        ])

    def any_line():
        kind = rng.randrange(20)
        if kind < 4:
            base = marlin_pos()
        elif kind < 8:
            base = marlin_temp()
        elif kind < 12:
            base = grbl_status()
        elif kind < 14:
            base = grbl_probe()
        elif kind < 16:
            base = error_line()
        else:
            base = misc_line()
        if kind < 14 and rng.random() < 0.35:
            base = rng.choice(["ok ", "ok", "OK ", "Ok  ", "ok\t"]) + base
        if rng.random() < 0.2:
            base = rng.choice([" ", "\t", "  "]) + base
        if rng.random() < 0.4:
            base = base + rng.choice(["\n", "\r\n", " \n", "\n\n"])
        return base

    INVALID = [None, 5, 2.5, b"ok X:1", b"X:1 Y:2", bytearray(b"error:1"),
               ["ok"], ("X:1",), object, True]

    PROBE_KEYS = ["X", "Y", "Z", "E", "A", "B", "C", "T", "F", "S", "W", "x",
                  "t", "0", "1", "T0", "FS", "MPos", "@", "N", "PRB", "é"]

    # ---- writer flavours ---------------------------------------------------

    class FormatWriter(PrintrunWriter):
        def _format_error(self, message):
            return "<<%s>>" % message.upper()

    class BadFormatWriter(PrintrunWriter):
        def _format_error(self, message):
            raise KeyError("cannot format %r" % message)

    class NoneFormatWriter(PrintrunWriter):
        def _format_error(self, message):
            return None

    class BadParseWriter(PrintrunWriter):
        calls = 0

        def _parse_message(self, message):
            type(self).calls += 1
            if type(self).calls % 3 == 0:
                raise RuntimeError("parse failed on call %d" % type(self).calls)
            super()._parse_message(message)

    class TracingWriter(PrintrunWriter):
        def __init__(self, *a, **k):
            self.trace = []
            super().__init__(*a, **k)

        def _parse_message(self, message):
            self.trace.append(["parse", message, self._ack_event.is_set(),
                               repr(self._device_error)])
            super()._parse_message(message)

        def _format_error(self, message):
            self.trace.append(["format", message, self._ack_event.is_set(),
                               repr(self._device_error)])
            return "E(" + message + ")"

        def _update_param(self, key, value):
            self.trace.append(["update", key, repr(value)])
            super()._update_param(key, value)

    FLAVOURS = [PrintrunWriter, FormatWriter, BadFormatWriter,
                NoneFormatWriter, BadParseWriter, TracingWriter]

    def make_writer(cls):
        return cls("serial", "none", "/dev/fake", 115200)

    def snapshot(writer):
        err = writer._device_error
        snap = {
            "params": {k: repr(writer.get_parameter(k)) for k in PROBE_KEYS},
            "raw": sorted((k, repr(v))
                          for k, v in dict.items(writer._current_params)),
            "reported": sorted(writer._reported_params),
            "ack": writer._ack_event.is_set(),
            "online": writer._online_event.is_set(),
            "err": None if err is None else
            [type(err).__name__, norm_text(err), type(err).__mro__[1].__name__],
            "shutdown": writer._shutdown_requested,
            "device": writer._device is None,
        }
        if hasattr(writer, "trace"):
            snap["trace"], writer.trace = writer.trace, []
        return snap

    def call(fn, *args):
        try:
            return ["ret", repr(fn(*args))]
        except BaseException as e:  # noqa: BLE001
            return ["exc", type(e).__name__, norm_text(e)]

    # ---- scenario A: _on_device_message called directly ---------------------

    for flavour_index, cls in enumerate(FLAVOURS):
        writer = make_writer(cls)
        out.append(["A-new", cls.__name__, snapshot(writer)])
        for i in range(140):
            if rng.random() < 0.06:
                line = rng.choice(INVALID)
            else:
                line = any_line()
            if rng.random() < 0.5:
                writer._ack_event.clear()
            if rng.random() < 0.15:
                writer._device_error = None
            result = call(writer._on_device_message, line)
            out.append(["A", cls.__name__, i, repr(line), result,
                        snapshot(writer), capture.drain()])
            if rng.random() < 0.1:
                out.append(["A-abort", call(writer._abort_on_device_error),
                            snapshot(writer), capture.drain()])

    # sequences of well-formed reports only: readings must persist
    writer = make_writer(PrintrunWriter)
    for i in range(250):
        line = rng.choice([marlin_pos, marlin_temp, grbl_status, grbl_probe])()
        if rng.random() < 0.4:
            line = "ok " + line
        writer._ack_event.clear()
        result = call(writer._on_device_message, line + "\n")
        out.append(["A2", i, line, result, snapshot(writer), capture.drain()])

    # ---- scenario B: through printcore._readline / _listen ---------------

    class FakePrinter:
        """In-process stand-in for gscrib.printrun.device.Device."""

        has_flow_control = False

        def __init__(self, script):
            self.script = list(script)
            self.written = []
            self.connected = True

        @property
        def is_connected(self):
            return self.connected

        def readline(self):
            if not self.script:
                self.connected = False
                return device_module.READ_EOF
            item = self.script.pop(0)
            if isinstance(item, BaseException):
                raise item
            return item

        def write(self, data):
            self.written.append(data)
            if b"FAILWRITE" in data:
                raise device_module.DeviceError("fake write failure")

        def reset(self):
            self.written.append("reset")

        def disconnect(self):
            self.connected = False

    class Recorder:
        def __init__(self, log, bad=False):
            self.log = log
            self.bad = bad

        def __getattr__(self, name):
            if not name.startswith("on_"):
                raise AttributeError(name)

            def handler(*args):
                self.log.append([name, [norm_text(repr(a)) for a in args]])
                if self.bad:
                    raise ValueError("handler %s failed" % name)
            return handler

    def encode_item(text):
        roll = rng.random()
        if roll < 0.04:
            return b"\xff\xfe X:1\n"  # rubbish: UnicodeDecodeError
        if roll < 0.07:
            return device_module.DeviceError("fake read failure")
        if roll < 0.09:
            return b""  # read timeout
        if roll < 0.11:
            return b"\n"  # single char: not dispatched
        if not isinstance(text, str):
            text = "ok"
        if not text.endswith("\n"):
            text += "\n"
        return text.encode("utf-8")

    def core_snapshot(core):
        return {
            "log": list(core.log), "online": core.online, "clear": core.clear,
            "stop_read": core.stop_read_thread, "resendfrom": core.resendfrom,
            "sent": list(core.sent), "writefailures": core.writefailures,
            "linenos": core._send_line_numbers,
            "written": [repr(w) for w in core.printer.written],
        }

    def make_core(writer, script, loud, handlers, recv_mode):
        core = printcore()
        events = []
        core.loud = loud
        core.onlinecb = writer._on_device_online
        core.errorcb = writer._on_printrun_error
        if recv_mode == "writer":
            core.recvcb = writer._on_device_message
        elif recv_mode == "raise":
            def bad_recv(line):
                events.append(["bad_recv", line])
                raise LookupError("recvcb failed")
            core.recvcb = bad_recv
        elif recv_mode == "deverr":
            def dev_recv(line):
                writer._on_device_message(line)
                raise device_module.DeviceError("raised by recvcb")
            core.recvcb = dev_recv
        else:
            core.recvcb = None
        for kind in handlers:
            core.addEventHandler(Recorder(events, bad=(kind == "bad")))
        core.printer = FakePrinter(script)
        return core, events

    # B1: _readline one line at a time
    for round_index in range(24):
        cls = FLAVOURS[round_index % len(FLAVOURS)]
        writer = make_writer(cls)
        script = [encode_item(any_line()) for _ in range(18)]
        loud = rng.random() < 0.6
        handlers = rng.choice([[], ["ok"], ["bad"], ["ok", "bad", "ok"]])
        recv_mode = rng.choice(["writer", "writer", "writer", "raise",
                                "deverr", "none"])
        core, events = make_core(writer, script, loud, handlers, recv_mode)
        out.append(["B1-new", round_index, cls.__name__, loud, handlers,
                    recv_mode])
        for i in range(len(script) + 2):
            writer._ack_event.clear()
            result = call(core._readline)
            drained, events[:] = list(events), []
            out.append(["B1", round_index, i, result, drained,
                        snapshot(writer), core_snapshot(core),
                        capture.drain()])

    # B2: the whole listening loop, run synchronously in this thread
    for round_index in range(24):
        cls = FLAVOURS[round_index % len(FLAVOURS)]
        writer = make_writer(cls)
        greeting = rng.choice(["start", "Grbl 1.1h ['$' for help]", "ok",
                               "ok T:21.5 /0.0 B:20.1 /0.0", "T:5 /0",
                               "echo: nothing"])
        lines = [greeting] + [any_line() for _ in range(25)]
        script = [encode_item(line) for line in lines]
        loud = rng.random() < 0.6
        handlers = rng.choice([[], ["ok"], ["bad"]])
        recv_mode = rng.choice(["writer", "writer", "writer", "raise", "none"])
        core, events = make_core(writer, script, loud, handlers, recv_mode)
        core.printing = rng.random() < 0.3
        result = call(core._listen)
        out.append(["B2", round_index, cls.__name__, loud, handlers,
                    recv_mode, result, list(events), snapshot(writer),
                    core_snapshot(core), capture.drain()])

    assert pc_module is not None
    json.dump(out, sys.stdout, ensure_ascii=True, sort_keys=True)


# --------------------------------------------------------------------------
# Driver
# --------------------------------------------------------------------------

def run_tree(path):
    env = dict(os.environ)
    env["PYTHONPATH"] = path
    env["EXPECT_TREE"] = path
    env["PYTHONDONTWRITEBYTECODE"] = "1"
    env["PYTHONHASHSEED"] = "0"
    proc = subprocess.run(
        [sys.executable, os.path.abspath(__file__), "--worker"],
        env=env, stdin=subprocess.DEVNULL, stdout=subprocess.PIPE,
        stderr=subprocess.PIPE, timeout=600, cwd="/tmp")
    if proc.returncode != 0:
        sys.stderr.write(proc.stderr.decode("utf-8", "replace"))
        raise SystemExit("worker failed for %s" % path)
    return json.loads(proc.stdout.decode("utf-8"))


def main():
    transcripts = {name: run_tree(path) for name, path in TREES.items()}
    orig, refac = transcripts["orig"], transcripts["refac"]
    print("entries: orig=%d refac=%d" % (len(orig), len(refac)))
    mismatches = 0
    for index, (a, b) in enumerate(zip(orig, refac)):
        if a != b:
            mismatches += 1
            if mismatches <= 5:
                print("MISMATCH at entry", index)
                print("  orig :", json.dumps(a)[:1500])
                print("  refac:", json.dumps(b)[:1500])
    assert len(orig) == len(refac), "transcript lengths differ"
    assert mismatches == 0, "%d mismatching entries" % mismatches

    # sanity: the transcript is not vacuous
    flat = json.dumps(orig)
    acked = sum(1 for e in orig if e[0] == "A" and e[5]["ack"])
    errors = sum(1 for e in orig if e[0] == "A" and e[5]["err"])
    parsed = sum(1 for e in orig if e[0] in ("A", "A2")
                 and (e[5] if e[0] == "A" else e[4])["reported"])
    print("A entries acked=%d with-error=%d with-readings=%d"
          % (acked, errors, parsed))
    assert acked > 50 and errors > 20 and parsed > 200
    assert "RECV: " in flat and "on_recv" in flat
    assert "<TREE>/gscrib/printrun/printcore.py" in flat
    assert "Internal error" in flat and "Got rubbish reply" in flat
    print("EQUIVALENT: transcripts identical (%d entries)" % len(orig))


if __name__ == "__main__":
    if "--worker" in sys.argv:
        worker()
    else:
        main()
