#!/usr/bin/env python
"""Differential check for the C06 twin refactoring.

Runs the same seeded scenario against /repo (reference) and against
/tmp/wtU-C06 (refactored) in two separate subprocesses, and asserts the
two transcripts (emitted bytes, state, return values, exception types,
log records) are identical.

Refactored code under test:
  - gscrib/formatters/default_formatter.py  DefaultFormatter.command
  - gscrib/gcode_core.py                    GCodeCore.comment, GCodeCore.write
"""

import json
import os
import subprocess
import sys

REFERENCE = "/repo"
REFACTORED = os.environ.get("EQUIV_REFACTORED", "/tmp/wtU-C06")
SEED = 60606


# ---------------------------------------------------------------------
# Worker (runs inside a subprocess with PYTHONPATH set to one tree)
# ---------------------------------------------------------------------

def worker(root: str) -> None:
    import logging
    import math
    import random

    import numpy as np
    import gscrib

    assert os.path.realpath(gscrib.__file__).startswith(
        os.path.realpath(root) + os.sep), (gscrib.__file__, root)

    from gscrib import GCodeBuilder, GCodeCore
    from gscrib.enums import (
        SpinMode, PowerMode, CoolantMode, HaltMode, ToolSwapMode)
    from gscrib.excepts import (
        DeviceWriteError, DeviceTimeoutError, ToolStateError,
        CoolantStateError, GCodeError, GscribError, DeviceError)
    from gscrib.formatters import DefaultFormatter
    from gscrib.writers.base_writer import BaseWriter

    rng = random.Random(SEED)
    transcript = []

    # -- log capture --------------------------------------------------

    class Capture(logging.Handler):
        def __init__(self):
            super().__init__(level=logging.DEBUG)
            self.records = []

        def emit(self, record):
            try:
                message = record.getMessage()
            except Exception as e:  # pragma: no cover
                message = f"<unformattable {type(e).__name__}>"
            exc = None
            if record.exc_info and record.exc_info[0] is not None:
                exc = record.exc_info[0].__name__
            self.records.append([record.levelname, message, exc])

    capture = Capture()
    core_logger = logging.getLogger("gscrib.gcode_core")
    core_logger.setLevel(logging.DEBUG)
    core_logger.addHandler(capture)
    core_logger.propagate = False

    def drain_logs():
        records, capture.records = capture.records, []
        return records

    # -- fakes --------------------------------------------------------

    class Boom(BaseException):
        """Neither the old nor the new code may catch this one."""

    FAILURES = {
        "device-write": lambda: DeviceWriteError("fake write failure"),
        "device-timeout": lambda: DeviceTimeoutError("fake timeout"),
        "device": lambda: DeviceError("fake device"),
        "tool-state": lambda: ToolStateError("fake tool state"),
        "coolant-state": lambda: CoolantStateError("fake coolant"),
        "gcode": lambda: GCodeError("fake gcode"),
        "gscrib": lambda: GscribError("fake gscrib"),
        "runtime": lambda: RuntimeError("fake runtime"),
        "os": lambda: OSError("fake os"),
        "value": lambda: ValueError("fake value"),
        "key": lambda: KeyError("fake key"),
        "stop": lambda: StopIteration("fake stop"),
        "boom": lambda: Boom("fake base exception"),
    }

    class FakeWriter(BaseWriter):
        def __init__(self, name):
            self.name = name
            self.lines = []
            self.fail_next = None
            self.flushed = 0

        def __repr__(self):
            return f"<FakeWriter {self.name}>"

        def connect(self):
            return self

        def disconnect(self, wait=True):
            self.lines.append(f"<disconnect {wait}>")

        def flush(self):
            self.flushed += 1

        def write(self, statement):
            kind = type(statement).__name__
            if self.fail_next is not None:
                failure, self.fail_next = self.fail_next, None
                self.lines.append(f"<attempt {kind} {statement!r}>")
                raise FAILURES[failure]()
            self.lines.append(f"{kind} {statement!r}")

    class BytesLineFormatter(DefaultFormatter):
        """A formatter whose line() returns something that is not text."""

        __slots__ = ("mode",)

        def line(self, statement):
            if self.mode == "bytes":
                return statement.encode("utf-8")
            if self.mode == "none":
                return None
            if self.mode == "raise-gcode":
                raise GCodeError("formatter refuses")
            if self.mode == "raise-device":
                raise DeviceWriteError("formatter device")
            if self.mode == "raise-value":
                raise ValueError("formatter value")
            return super().line(statement)

    class BadStr:
        def __init__(self, exc):
            self.exc = exc

        def __str__(self):
            raise self.exc("bad __str__")

    class NotAStr:
        def __str__(self):
            return 42  # TypeError from str()

    class Shout(str):
        """A str subclass with its own formatting."""

        def __format__(self, spec):
            return "SHOUT(" + str.upper(self) + ")"

    class LenDict(dict):
        def __len__(self):
            return 0

    # -- helpers ------------------------------------------------------

    def describe(value):
        if isinstance(value, float):
            return f"float:{value!r}"
        if isinstance(value, (bool, int, str, type(None))):
            return f"{type(value).__name__}:{value!r}"
        if isinstance(value, bytes):
            return f"bytes:{value!r}"
        return f"{type(value).__name__}:{value!r}"

    def chain(exc):
        out = []
        seen = 0
        while exc is not None and seen < 5:
            out.append([type(exc).__name__, str(exc)])
            exc = exc.__cause__
            seen += 1
        return out

    def call(label, func, *args, **kwargs):
        entry = {"op": label}
        try:
            entry["ret"] = describe(func(*args, **kwargs))
        except BaseException as e:  # noqa: BLE001 - we record everything
            if isinstance(e, (KeyboardInterrupt, SystemExit)):
                raise
            entry["exc"] = chain(e)
            entry["suppress"] = bool(e.__suppress_context__)
            ctx = e.__context__
            entry["ctx"] = type(ctx).__name__ if ctx is not None else None
        entry["logs"] = drain_logs()
        transcript.append(entry)
        return entry

    def state_snapshot(g):
        s = g.state
        return {
            "tool_active": s.is_tool_active,
            "coolant_active": s.is_coolant_active,
            "tool_power": describe(s.tool_power),
            "spin": str(s.spin_mode),
            "power": str(s.power_mode),
            "coolant": str(s.coolant_mode),
            "halt": str(s.halt_mode),
            "tool_number": s.tool_number,
            "swap": str(s.tool_swap_mode),
            "feed": describe(s.feed_rate),
            "bed": describe(s.target_bed_temperature),
            "hotend": describe(s.target_hotend_temperature),
            "chamber": describe(s.target_chamber_temperature),
            "time_units": str(s.time_units),
            "temp_units": str(s.temperature_units),
            "length_units": str(s.length_units),
            "position": repr(g.position),
            "tp_bounds": repr(s.get_bounds("tool-power")),
        }

    NUMBERS = [
        0, -0.0, 0.0, 1, -1, 2.5, 1e-9, 1e9, 123456.789012345,
        float("nan"), float("inf"), float("-inf"), True, False,
        np.float64(3.25), np.float32(0.1), np.int64(7), np.float64("nan"),
        10 ** 30, 5e-324, 0.000004999, 0.1 + 0.2,
    ]

    TEXTS = [
        "", " ", "   \t ", "hello", " padded ", "two\nlines", "cr\r\nlf",
        "close ) paren", "bracket ] here", "star */ slash", "quote \" q",
        "brace {} {0} {x}", "semi ; colon", "unicode é中\U0001f600",
        "form\x0cfeed", "line sep", "trailing   ", "\n", "a" * 300,
        "lone \ud800 surrogate", "tab\tbed", "%s %d percent",
    ]

    SYMBOLS = [";", "(", "[", "{", "<", '"', "'", "/*", "#", ";;", "//", "%"]

    def random_params():
        kind = rng.randrange(12)
        if kind == 0:
            return None
        if kind == 1:
            return {}
        if kind == 2:
            return LenDict(X=1)
        if kind == 3:
            return {1: 2}          # key without .upper()
        if kind == 4:
            return [("X", 1)]      # not a dict
        if kind == 5:
            return "X1"            # not a dict
        keys = rng.sample(
            ["X", "y", "Z", "F", "s", "E", "P", "R", "T", "comment", "x"],
            rng.randint(1, 5))
        out = {}
        for key in keys:
            pick = rng.randrange(10)
            if pick < 7:
                out[key] = rng.choice(NUMBERS)
            elif pick == 7:
                out[key] = rng.choice(TEXTS)
            elif pick == 8:
                out[key] = None
            else:
                out[key] = rng.uniform(-1000, 1000)
        return out

    def random_comment():
        kind = rng.randrange(10)
        if kind == 0:
            return None
        if kind == 1:
            return 17              # not a str
        if kind == 2:
            return b"bytes"        # not a str
        if kind == 3:
            return Shout("loud")
        return rng.choice(TEXTS)

    # -----------------------------------------------------------------
    # Part A: DefaultFormatter.command, directly
    # -----------------------------------------------------------------

    for i in range(400):
        fmt = DefaultFormatter()
        symbols = rng.choice(SYMBOLS)
        fmt.set_comment_symbols(symbols)
        fmt.set_decimal_places(rng.choice([0, 1, 3, 5, 9]))
        if rng.random() < 0.3:
            fmt.set_axis_label(rng.choice("xyz"), rng.choice(["A", "u", "XX"]))
        command = rng.choice(
            ["G1", "M05", "M09", "", " ", "M00", Shout("m30"), 5, None])
        params = random_params()
        comment = random_comment()
        shape = rng.randrange(4)
        label = f"A{i} command {symbols!r} shape={shape}"
        if shape == 0:
            call(label, fmt.command, command, params, comment)
        elif shape == 1:
            call(label, fmt.command, command, params)
        elif shape == 2:
            call(label, fmt.command, command)
        else:
            call(label, fmt.command, command, comment=comment, params=params)

    # -----------------------------------------------------------------
    # Part B: GCodeCore.comment / GCodeCore.write with fake writers
    # -----------------------------------------------------------------

    EXTRA_ARGS = [
        (), (1,), (1, 2.5, "x"), (None,), ("",), ("a\nb",), ((),),
        (float("nan"), -0.0), (np.float64(2.0), np.int64(3)),
        (BadStr(ValueError),), (1, BadStr(GCodeError), 3),
        (BadStr(DeviceWriteError),), (NotAStr(),), (Shout("s"),),
        ([1, 2], {"k": "v"}), (b"raw",), tuple(range(40)),
        (BadStr(KeyError), BadStr(ValueError)),
    ]

    for i in range(300):
        cls = rng.choice([GCodeCore, GCodeBuilder])
        config = {"output": None, "print_lines": False}
        if rng.random() < 0.5:
            config["comment_symbols"] = rng.choice(SYMBOLS)
        if rng.random() < 0.4:
            config["line_endings"] = rng.choice(["os", "\\n", "\\r\\n", "|"])
        g = cls(config)
        writers = [FakeWriter(f"w{n}") for n in range(rng.randint(0, 3))]
        for w in writers:
            g.add_writer(w)

        if rng.random() < 0.25:
            fmt = BytesLineFormatter()
            fmt.mode = rng.choice(
                ["bytes", "none", "raise-gcode", "raise-device",
                 "raise-value", "plain"])
            g.set_formatter(fmt)

        for step in range(rng.randint(1, 4)):
            if writers and rng.random() < 0.45:
                rng.choice(writers).fail_next = rng.choice(list(FAILURES))
            message = rng.choice(TEXTS + [None, 3, Shout("msg"), b"m"])
            extra = rng.choice(EXTRA_ARGS)
            if rng.random() < 0.7:
                call(f"B{i}.{step} comment", g.comment, message, *extra)
            else:
                statement = rng.choice(TEXTS + [None, 7, b"G1", Shout("g1 x1")])
                call(f"B{i}.{step} write", g.write, statement)
            transcript.append({
                "lines": [list(w.lines) for w in writers],
                "halt": str(g.state.halt_mode) if cls is GCodeBuilder else None,
            })

    # -----------------------------------------------------------------
    # Part C: builder sequences around the C06 entry points
    # -----------------------------------------------------------------

    BOUNDS = [
        None, (0, 100), (1, 100), (10, 20), (-5, -1), (0.5, 1e6),
        (-100, 0), (0, 1), ("a", 2), (5, 5), (7, 3), (float("nan"), 1),
    ]

    def do_random_op(g, writers, tag):
        op = rng.randrange(22)
        if op == 0:
            call(f"{tag} tool_on", g.tool_on,
                 rng.choice(["cw", "ccw", SpinMode.CLOCKWISE, "off", "bad"]),
                 rng.choice(NUMBERS + [50, 1000, 15]))
        elif op == 1:
            call(f"{tag} power_on", g.power_on,
                 rng.choice(["constant", "dynamic", PowerMode.CONSTANT,
                             "off", "bad"]),
                 rng.choice(NUMBERS + [50, 1000, 15]))
        elif op == 2:
            call(f"{tag} coolant_on", g.coolant_on,
                 rng.choice(["mist", "flood", CoolantMode.FLOOD, "off", "x"]))
        elif op == 3:
            call(f"{tag} tool_off", g.tool_off)
        elif op == 4:
            call(f"{tag} power_off", g.power_off)
        elif op == 5:
            call(f"{tag} coolant_off", g.coolant_off)
        elif op in (6, 7):
            call(f"{tag} emergency_halt", g.emergency_halt,
                 rng.choice(TEXTS + [None, 9]),
                 *rng.choice([(), (True,), (False,), (1,), ("yes",)]))
        elif op == 8:
            mode = rng.choice(list(HaltMode) + ["pause", "bogus"])
            kwargs = rng.choice([
                {}, {"S": 200}, {"R": 50, "S": 60}, {"s": float("nan")},
                {"P": 1, "comment": "c"}, {"S": "hot"}, {"r": -300},
            ])
            call(f"{tag} halt", g.halt, mode, **kwargs)
        elif op == 9:
            bounds = rng.choice(BOUNDS)
            if bounds is not None:
                name = rng.choice(
                    ["tool-power", "tool-power", "feed-rate", "tool-number",
                     "bed-temperature", "hotend-temperature", "nope"])
                call(f"{tag} set_bounds {name} {bounds!r}",
                     g.set_bounds, name, *bounds)
        elif op == 10:
            call(f"{tag} set_tool_power", g.set_tool_power,
                 rng.choice(NUMBERS + [15, 50]))
        elif op == 11:
            call(f"{tag} tool_change", g.tool_change,
                 rng.choice(["manual", "automatic", "off"]),
                 rng.choice([1, 2, 0, -1, 12, 123]))
        elif op == 12:
            call(f"{tag} move", g.move,
                 x=rng.choice(NUMBERS), F=rng.choice(NUMBERS + [None]),
                 S=rng.choice(NUMBERS + [None, 15]),
                 comment=rng.choice(TEXTS + [None]))
        elif op == 13:
            call(f"{tag} rapid", g.rapid, y=rng.uniform(-50, 50),
                 comment=rng.choice(TEXTS + [None]))
        elif op == 14:
            call(f"{tag} comment", g.comment, rng.choice(TEXTS),
                 *rng.choice(EXTRA_ARGS))
        elif op == 15:
            call(f"{tag} pause", g.pause, rng.choice([True, False, 1]))
        elif op == 16:
            call(f"{tag} stop", g.stop, rng.choice([True, False, None]))
        elif op == 17:
            call(f"{tag} set_time_units", g.set_time_units,
                 rng.choice(["s", "ms", "x"]))
        elif op == 18:
            call(f"{tag} set_temperature_units", g.set_temperature_units,
                 rng.choice(["c", "f", "k", "x"]))
        elif op == 19:
            call(f"{tag} sleep", g.sleep, rng.choice([0, 1, 0.5, -1, 2.25]))
        elif op == 20:
            call(f"{tag} wait", g.wait)
        else:
            if writers:
                rng.choice(writers).fail_next = rng.choice(list(FAILURES))

    def check_c06(g, writers, tag):
        """The property itself: everything can always be switched off."""

        which = rng.randrange(4)
        before = [len(w.lines) for w in writers]
        if which == 0:
            entries = [call(f"{tag} final tool_off", g.tool_off),
                       call(f"{tag} final coolant_off", g.coolant_off)]
        elif which == 1:
            entries = [call(f"{tag} final power_off", g.power_off),
                       call(f"{tag} final coolant_off", g.coolant_off)]
        else:
            reset = rng.choice([True, False])
            entries = [call(f"{tag} final emergency_halt", g.emergency_halt,
                            rng.choice(TEXTS), reset)]
        transcript.append({
            "final_state": state_snapshot(g),
            "final_lines": [w.lines[n:] for w, n in zip(writers, before)],
        })
        if all("exc" not in e for e in entries):
            assert g.state.is_tool_active is False, tag
            assert g.state.is_coolant_active is False, tag

    for i in range(350):
        config = {"output": None, "print_lines": False}
        if rng.random() < 0.5:
            config["comment_symbols"] = rng.choice(SYMBOLS)
        if rng.random() < 0.3:
            config["decimal_places"] = rng.choice([0, 2, 7])
        if rng.random() < 0.3:
            config["line_endings"] = rng.choice(["os", "\\n", "\\r\\n"])
        g = GCodeBuilder(**config)
        writers = [FakeWriter(f"c{n}") for n in range(rng.randint(1, 2))]
        for w in writers:
            g.add_writer(w)

        # bounds first in about half of the runs, including tool-power
        # ranges that exclude zero
        if rng.random() < 0.55:
            bounds = rng.choice([(1, 100), (10, 20), (0, 100), (0.5, 1e6),
                                 (-5, -1), (-100, 0)])
            call(f"C{i} bounds {bounds!r}", g.set_bounds, "tool-power", *bounds)

        for step in range(rng.randint(0, 9)):
            do_random_op(g, writers, f"C{i}.{step}")
            transcript.append({
                "state": state_snapshot(g),
                "lines": [list(w.lines) for w in writers],
            })

        # the final switch-off is tried without injected writer failures
        # in most runs
        if rng.random() < 0.8:
            for w in writers:
                w.fail_next = None
        check_c06(g, writers, f"C{i}")

        if rng.random() < 0.3:
            call(f"C{i} teardown", g.teardown, rng.choice([True, False]))
            call(f"C{i} comment after teardown", g.comment, "after", 1, 2)
            transcript.append({"lines": [list(w.lines) for w in writers]})

    assert not math.isnan(len(transcript))
    json.dump(transcript, sys.stdout, ensure_ascii=True, sort_keys=True)


# ---------------------------------------------------------------------
# Driver
# ---------------------------------------------------------------------

def run_tree(root: str) -> list:
    env = dict(os.environ)
    env["PYTHONPATH"] = root
    env["PYTHONHASHSEED"] = "0"
    env["PYTHONDONTWRITEBYTECODE"] = "1"
    proc = subprocess.run(
        [sys.executable, os.path.abspath(__file__), "--worker", root],
        env=env, cwd="/tmp", stdin=subprocess.DEVNULL,
        stdout=subprocess.PIPE, stderr=subprocess.PIPE, timeout=600)
    if proc.returncode != 0:
        sys.stderr.write(proc.stderr.decode("utf-8", "replace")[-4000:])
        raise SystemExit(f"worker for {root} failed ({proc.returncode})")
    return json.loads(proc.stdout.decode("utf-8"))


def main() -> int:
    reference = run_tree(REFERENCE)
    refactored = run_tree(REFACTORED)

    if len(reference) != len(refactored):
        print(f"DIFFERENT transcript lengths: "
              f"{len(reference)} vs {len(refactored)}")

    for index, (a, b) in enumerate(zip(reference, refactored)):
        if a != b:
            print(f"FIRST DIFFERENCE at entry {index}:")
            print("  reference :", json.dumps(a, sort_keys=True)[:2000])
            print("  refactored:", json.dumps(b, sort_keys=True)[:2000])
            return 1

    assert reference == refactored, "transcripts differ"

    calls = [e for e in reference if "op" in e]
    raised = [e for e in calls if "exc" in e]
    kinds = sorted({e["exc"][0][0] for e in raised})
    finals = [e for e in reference if "final_state" in e]
    print(f"entries={len(reference)} calls={len(calls)} "
          f"raised={len(raised)} final_checks={len(finals)}")
    print("exception types seen:", ", ".join(kinds))
    print("EQUIVALENT: transcripts are identical")
    return 0


if __name__ == "__main__":
    if len(sys.argv) == 3 and sys.argv[1] == "--worker":
        worker(sys.argv[2])
    else:
        sys.exit(main())
