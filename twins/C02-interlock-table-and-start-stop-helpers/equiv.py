#!/usr/bin/env python
"""Differential check for the C02 refactoring (interlocks).

Runs the same seeded scenario script against /repo (reference) and
/tmp/wtV-C02 (refactored) in separate subprocesses and asserts that the
transcripts (emitted bytes, state snapshots, return values, exception
type names and messages) are identical.
"""

import json
import os
import subprocess
import sys

TREES = {"ref": "/repo", "new": "/tmp/wtV-C02"}
PYTHON = "/venv/bin/python"


# --------------------------------------------------------------------------
# Worker: executed in a subprocess with PYTHONPATH pointing at one tree
# --------------------------------------------------------------------------

def worker() -> None:
    import logging
    import math
    import random

    logging.disable(logging.CRITICAL)

    import numpy as np
    import gscrib
    from gscrib import GCodeBuilder
    from gscrib.gcode_state import GState
    from gscrib.writers import BaseWriter
    from gscrib.enums import (
        SpinMode, PowerMode, CoolantMode, HaltMode, ToolSwapMode)

    tree = os.path.dirname(os.path.dirname(os.path.abspath(gscrib.__file__)))
    assert tree == os.environ["EXPECT_TREE"], (tree, os.environ["EXPECT_TREE"])

    class FakeWriter(BaseWriter):
        """In-process fake device; can be told to fail on the next write."""

        def __init__(self):
            self.lines = []
            self.fail_next = None

        def connect(self):
            return self

        def disconnect(self, wait=True):
            pass

        def write(self, statement):
            if self.fail_next is not None:
                error, self.fail_next = self.fail_next, None
                raise error
            self.lines.append(statement)

    def show(value):
        if isinstance(value, float):
            return repr(value)
        if isinstance(value, (list, tuple)):
            return [show(v) for v in value]
        return repr(value)

    def snapshot(state: GState):
        names = (
            "is_tool_active", "is_coolant_active", "tool_number",
            "tool_power", "feed_rate", "spin_mode", "power_mode",
            "coolant_mode", "tool_swap_mode", "halt_mode",
            "target_bed_temperature", "target_hotend_temperature",
            "target_chamber_temperature", "position", "distance_mode",
        )
        return {n: show(getattr(state, n)) for n in names}

    transcript = []

    def call(label, fn, *args, **kwargs):
        try:
            result = fn(*args, **kwargs)
            outcome = ["ok", show(result)]
        except BaseException as e:  # pylint: disable=broad-except
            outcome = ["exc", type(e).__name__, str(e)]
            if e.__cause__ is not None:
                outcome.append(type(e.__cause__).__name__)
        return [label, show(args), show(sorted(kwargs.items())), outcome]

    rng = random.Random(20261004)

    spin_modes = [
        SpinMode.CLOCKWISE, SpinMode.COUNTER, SpinMode.OFF, "clockwise",
        "counter", "cw", "ccw", "off", "CW", "bogus", "", "constant",
        PowerMode.CONSTANT, CoolantMode.OFF, 3, None,
    ]
    power_modes = [
        PowerMode.CONSTANT, PowerMode.DYNAMIC, PowerMode.OFF, "constant",
        "dynamic", "off", "Constant", "bogus", "", "cw",
        SpinMode.CLOCKWISE, SpinMode.OFF, 1.5, None,
    ]
    coolant_modes = [
        CoolantMode.MIST, CoolantMode.FLOOD, CoolantMode.OFF, "mist",
        "flood", "off", "MIST", "bogus", "", HaltMode.OFF, HaltMode.PAUSE,
        0, None,
    ]
    swap_modes = [
        ToolSwapMode.MANUAL, ToolSwapMode.AUTOMATIC, ToolSwapMode.OFF,
        "manual", "automatic", "off", "bogus", None,
    ]
    halt_modes = list(HaltMode) + [
        "pause", "wait-for-bed", "wait-for-hotend", "off", "bogus", None, 7,
    ]
    levels = [
        0, 0.0, -0.0, 1, 100, 1000.5, 24000, 1e-9, 1e12, -1, -0.5,
        float("nan"), float("inf"), float("-inf"), True, False,
        np.float64(250.0), np.float32(2.5), np.int64(12), "100", None,
        1 + 2j, [1],
    ]
    tool_numbers = [
        1, 2, 9, 10, 99, 100, 12345, 0, -1, -10, True, False, 1.0, 2.5,
        np.int64(3), "1", None, 2 ** 70,
    ]
    temperatures = [0, 20, 60.5, 210, 300, -5, 1000, float("nan"), "hot", None]
    bounds = [
        ("tool-power", 0, 1000), ("tool-power", 10, 20),
        ("tool-number", 1, 10), ("tool-number", 5, 6),
        ("feed-rate", 0, 5000), ("bed-temperature", 0, 100),
        ("hotend-temperature", 0, 250), ("chamber-temperature", 0, 60),
        ("bogus", 0, 1), ("tool-power", 5, 5),
    ]

    def step(g, writer):
        """Pick and run one random API call; returns a transcript row."""

        kind = rng.choice((
            "tool_on", "tool_on", "tool_off", "power_on", "power_on",
            "power_off", "coolant_on", "coolant_on", "coolant_off",
            "tool_change", "tool_change", "halt", "halt", "pause", "stop",
            "wait", "emergency_halt", "move", "rapid", "set_tool_power",
            "set_feed_rate", "temperature", "distance", "bounds",
            "state_direct", "fail_write",
        ))

        if kind == "tool_on":
            return call(kind, g.tool_on, rng.choice(spin_modes), rng.choice(levels))
        if kind == "tool_off":
            return call(kind, g.tool_off)
        if kind == "power_on":
            return call(kind, g.power_on, rng.choice(power_modes), rng.choice(levels))
        if kind == "power_off":
            return call(kind, g.power_off)
        if kind == "coolant_on":
            return call(kind, g.coolant_on, rng.choice(coolant_modes))
        if kind == "coolant_off":
            return call(kind, g.coolant_off)
        if kind == "tool_change":
            return call(kind, g.tool_change,
                rng.choice(swap_modes), rng.choice(tool_numbers))
        if kind == "halt":
            kwargs = {}
            if rng.random() < 0.5:
                kwargs[rng.choice("SsRrPT")] = rng.choice(temperatures)
            if rng.random() < 0.2:
                kwargs[rng.choice("SR")] = rng.choice(temperatures)
            return call(kind, g.halt, rng.choice(halt_modes), **kwargs)
        if kind == "pause":
            return call(kind, g.pause, rng.choice((True, False, 1, None, "x")))
        if kind == "stop":
            return call(kind, g.stop, rng.choice((True, False, 0, None)))
        if kind == "wait":
            return call(kind, g.wait)
        if kind == "emergency_halt":
            return call(kind, g.emergency_halt,
                rng.choice(("stop now", "", "a\nb", 5, None)),
                rng.choice((True, False, 1)))
        if kind == "move":
            kwargs = {"x": rng.randint(-50, 50), "y": rng.randint(-50, 50)}
            if rng.random() < 0.4:
                kwargs["F"] = rng.choice((100, 1500.5, -1, 0))
            if rng.random() < 0.4:
                kwargs["S"] = rng.choice((0, 50, 5000, -2))
            return call(kind, g.move, **kwargs)
        if kind == "rapid":
            return call(kind, g.rapid, z=rng.randint(-5, 5))
        if kind == "set_tool_power":
            return call(kind, g.set_tool_power, rng.choice(levels))
        if kind == "set_feed_rate":
            return call(kind, g.set_feed_rate, rng.choice(levels))
        if kind == "temperature":
            fn = rng.choice((g.set_bed_temperature,
                g.set_hotend_temperature, g.set_chamber_temperature))
            return call(fn.__name__, fn, rng.choice(temperatures))
        if kind == "distance":
            return call(kind, g.set_distance_mode,
                rng.choice(("absolute", "relative")))
        if kind == "bounds":
            return call(kind, g.set_bounds, *rng.choice(bounds))
        if kind == "state_direct":
            # Private state setters and guards, driven directly
            state = g.state
            choice = rng.randrange(8)
            if choice == 0:
                return call("_set_halt_mode", state._set_halt_mode,
                    rng.choice(halt_modes))
            if choice == 1:
                return call("_set_tool_number", state._set_tool_number,
                    rng.choice(swap_modes), rng.choice(tool_numbers))
            if choice == 2:
                return call("_ensure_tool_is_inactive",
                    state._ensure_tool_is_inactive,
                    rng.choice(("msg", "", "Tool busy.")))
            if choice == 3:
                return call("_ensure_coolant_is_inactive",
                    state._ensure_coolant_is_inactive,
                    rng.choice(("msg", "", "Coolant busy.")))
            if choice == 4:
                return call("_set_spin_mode", state._set_spin_mode,
                    rng.choice(spin_modes), rng.choice(levels))
            if choice == 5:
                return call("_set_power_mode", state._set_power_mode,
                    rng.choice(power_modes), rng.choice(levels))
            if choice == 6:
                return call("_set_coolant_mode", state._set_coolant_mode,
                    rng.choice(coolant_modes))
            return call("_validate_tool_power", state._validate_tool_power,
                rng.choice(levels))
        if kind == "fail_write":
            # The device fails on the next line: state change must
            # already have happened exactly as in the reference
            writer.fail_next = rng.choice((
                OSError("device gone"), ValueError("bad"),
                gscrib.excepts.DeviceWriteError("write failed"),
            ))
            target = rng.choice((
                lambda: g.tool_on("cw", 100),
                lambda: g.power_on("constant", 50),
                lambda: g.coolant_on("flood"),
                g.tool_off, g.power_off, g.coolant_off,
                lambda: g.halt("pause"),
                lambda: g.tool_change("manual", 4),
            ))
            row = call("fail_write", target)
            writer.fail_next = None
            return row
        raise AssertionError(kind)

    n_calls = 0

    for session in range(60):
        options = rng.choice((
            {}, {"decimal_places": 2}, {"comment_symbols": "("},
            {"line_endings": "\\r\\n"},
        ))
        g = GCodeBuilder(**options)
        writer = FakeWriter()
        g.add_writer(writer)
        transcript.append(["session", session, sorted(options.items())])

        # Force interesting start states for some sessions
        warmup = rng.choice((
            (), ("tool",), ("coolant",), ("tool", "coolant"), ("power",),
            ("power", "coolant"),
        ))

        for item in warmup:
            if item == "tool":
                transcript.append(call("warm", g.tool_on, "ccw", 1200))
            elif item == "power":
                transcript.append(call("warm", g.power_on, "dynamic", 80))
            else:
                transcript.append(call("warm", g.coolant_on, "mist"))

        for _ in range(rng.randint(15, 40)):
            before = len(writer.lines)
            row = step(g, writer)
            n_calls += 1
            emitted = [l.decode("utf-8") for l in writer.lines[before:]]
            transcript.append([row, emitted, snapshot(g.state)])

        transcript.append(["all-lines", [l.decode() for l in writer.lines]])

    # Exhaustive small matrix: every (tool, coolant) state x every call
    for tool in (None, "spin", "power"):
        for coolant in (False, True):
            def fresh():
                b = GCodeBuilder()
                w = FakeWriter()
                b.add_writer(w)
                if tool == "spin":
                    b.tool_on(SpinMode.CLOCKWISE, 500)
                if tool == "power":
                    b.power_on(PowerMode.CONSTANT, 30)
                if coolant:
                    b.coolant_on(CoolantMode.FLOOD)
                return b, w

            actions = [
                ("tool_on", lambda b: b.tool_on("ccw", 10)),
                ("power_on", lambda b: b.power_on("dynamic", 10)),
                ("coolant_on", lambda b: b.coolant_on("mist")),
                ("tool_off", lambda b: b.tool_off()),
                ("power_off", lambda b: b.power_off()),
                ("coolant_off", lambda b: b.coolant_off()),
                ("tool_change", lambda b: b.tool_change("automatic", 7)),
                ("tool_change0", lambda b: b.tool_change("automatic", 0)),
                ("wait", lambda b: b.wait()),
                ("pause", lambda b: b.pause()),
                ("pause_opt", lambda b: b.pause(True)),
                ("stop", lambda b: b.stop()),
                ("stop_reset", lambda b: b.stop(True)),
                ("emergency", lambda b: b.emergency_halt("x", True)),
                ("set_halt_off", lambda b: b.state._set_halt_mode(HaltMode.OFF)),
            ]
            actions += [
                (f"halt-{m.value}", lambda b, m=m: b.halt(m, S=50))
                for m in HaltMode
            ]

            for name, action in actions:
                b, w = fresh()
                before = len(w.lines)
                row = call(name, action, b)
                row[1] = [str(tool), coolant]  # builder repr holds an address
                n_calls += 1
                transcript.append([
                    row,
                    [l.decode() for l in w.lines[before:]],
                    snapshot(b.state),
                ])

    # API surface that must not change
    import inspect
    for name in ("tool_on", "tool_off", "power_on", "power_off",
                 "coolant_on", "coolant_off", "tool_change", "halt"):
        fn = getattr(GCodeBuilder, name)
        transcript.append(["sig", name, str(inspect.signature(fn)), fn.__doc__])

    transcript.append(["public-builder",
        sorted(n for n in dir(GCodeBuilder) if not n.startswith("_"))])
    transcript.append(["public-state",
        sorted(n for n in dir(GState) if not n.startswith("_"))])

    import gscrib.gcode_state as gs
    transcript.append(["state-module-public",
        sorted(n for n in dir(gs) if not n.startswith("_"))
        if os.environ.get("CHECK_MODULE_NAMES") else []])

    json.dump({"calls": n_calls, "transcript": transcript}, sys.stdout)


# --------------------------------------------------------------------------
# Driver
# --------------------------------------------------------------------------

def run(tree: str) -> dict:
    env = dict(os.environ)
    env["PYTHONPATH"] = tree
    env["EXPECT_TREE"] = tree
    env["PYTHONHASHSEED"] = "0"
    proc = subprocess.run(
        [PYTHON, os.path.abspath(__file__), "--worker"],
        env=env, cwd="/tmp", stdin=subprocess.DEVNULL,
        capture_output=True, text=True, timeout=600, check=False,
    )
    if proc.returncode != 0:
        sys.stderr.write(proc.stderr[-4000:])
        raise SystemExit(f"worker for {tree} failed ({proc.returncode})")
    return json.loads(proc.stdout)


def main() -> int:
    ref = run(TREES["ref"])
    new = run(TREES["new"])

    a, b = ref["transcript"], new["transcript"]

    if a != b:
        for i, (x, y) in enumerate(zip(a, b)):
            if x != y:
                print(f"first difference at record {i}:")
                print("  ref:", json.dumps(x)[:2000])
                print("  new:", json.dumps(y)[:2000])
                break
        else:
            print(f"length differs: {len(a)} vs {len(b)}")
        return 1

    rows = [r for r in a if isinstance(r[0], list)]
    raised = sum(1 for r in rows if r[0][3][0] == "exc")
    kinds = sorted({r[0][3][1] for r in rows if r[0][3][0] == "exc"})
    lines = sum(len(r[1]) for r in rows)
    print(f"identical transcripts: {len(a)} records, {ref['calls']} calls, "
          f"{raised} raised {kinds}, {lines} emitted lines")
    assert ref["calls"] == new["calls"] and ref["calls"] >= 300
    return 0


if __name__ == "__main__":
    if "--worker" in sys.argv:
        worker()
    else:
        sys.exit(main())
