#!/usr/bin/env python
"""Differential equivalence check for the C04 refactoring.

Runs the same seeded scenario generator against two source trees of
gscrib (the pristine /repo and the refactored /tmp/wtT-C04), each in its
own subprocess, and asserts that the recorded transcripts (emitted
bytes, tracked state, return values, exception type names) match.

Usage:  /venv/bin/python /tmp/twin-C04/equiv.py      (exit status 0 == identical)
"""

import json
import os
import subprocess
import sys

TREES = {"orig": "/repo", "twin": "/tmp/wtT-C04"}
SEED = 20261004


# ----------------------------------------------------------------------
# Child: drives the library found on PYTHONPATH, prints a JSON transcript
# ----------------------------------------------------------------------

def child() -> None:
    import logging
    import math
    import random

    import numpy as np

    import gscrib
    from gscrib import GCodeBuilder, GCodeCore
    from gscrib.geometry import Point
    from gscrib.writers import BaseWriter

    logging.disable(logging.CRITICAL)
    rng = random.Random(SEED)
    log = []

    def show(value):
        """Exact, type-revealing rendering of any observed value."""

        if isinstance(value, Point):
            return "Point(" + ", ".join(show(v) for v in value) + ")"
        if isinstance(value, tuple):
            return "(" + ", ".join(show(v) for v in value) + ")"
        if isinstance(value, list):
            return "[" + ", ".join(show(v) for v in value) + "]"
        if isinstance(value, dict):
            items = sorted(value.items(), key=lambda kv: str(kv[0]))
            return "{" + ", ".join(f"{k!r}: {show(v)}" for k, v in items) + "}"
        if isinstance(value, np.ndarray):
            return f"ndarray{value.shape}:{value.tolist()!r}"
        return f"{type(value).__name__}:{value!r}"

    class Recorder(BaseWriter):
        def __init__(self):
            self.lines = []
            self.fail_next = False

        def connect(self):
            return self

        def disconnect(self, wait=True):
            pass

        def write(self, statement):
            if self.fail_next:
                self.fail_next = False
                raise OSError("fake device failure")
            self.lines.append(statement.decode("utf-8"))

    def snapshot(g, rec):
        state = {
            "pos": show(g.position),
            "mode": str(g.distance_mode),
            "params": show(dict(g._current_params)),
            "matrix": g.transform._current_transform._matrix.tolist().__repr__(),
            "nlines": len(rec.lines),
        }
        return state

    def attempt(label, fn, g=None, rec=None):
        """Run fn, record result or exception type, then state + new lines."""

        before = len(rec.lines) if rec is not None else 0

        try:
            entry = {"op": label, "ret": show(fn())}
        except BaseException as exc:  # pylint: disable=broad-except
            entry = {"op": label, "exc": type(exc).__name__}

        if g is not None:
            entry["new"] = rec.lines[before:]
            entry["state"] = snapshot(g, rec)

        log.append(entry)

    # ---- value pools -------------------------------------------------

    nice = [0, 0.0, -0.0, 1, -1, 1.5, -2.25, 10, 1e-7, -1e-7, 1e-12, 123456.789,
            0.1 + 0.2, 1 / 3]
    weird = [float("nan"), float("inf"), float("-inf"), 1e308, -1e308, 5e-324]
    numpyish = [np.float64(2.5), np.float32(0.1), np.int64(3), np.float64("nan"),
                np.float64(-0.0)]
    invalid = ["1", "abc", b"1", [1], (1, 2), {}, object, 1 + 2j, True, False]

    def coord(allow_none=True, p_bad=0.08):
        r = rng.random()
        if allow_none and r < 0.30:
            return None
        if r < 0.30 + p_bad:
            return rng.choice(weird + numpyish + invalid)
        if r < 0.6:
            return rng.choice(nice)
        return round(rng.uniform(-200, 200), rng.choice([0, 1, 3, 6, 12]))

    def point_like():
        kind = rng.random()
        xyz = (coord(), coord(), coord())
        if kind < 0.5:
            return Point(*xyz)
        if kind < 0.7:
            return list(xyz)
        if kind < 0.85:
            return xyz
        if kind < 0.9:
            return np.array([rng.uniform(-5, 5) for _ in range(3)])
        if kind < 0.95:
            return xyz[: rng.randint(0, 2)]
        return rng.choice(["xyz", 5, None, (1, 2, 3, 4), Point(1, 2, 3) * 2])

    # ---- 1. Point.combine, directly ----------------------------------

    class Partial:
        """Object with only some coordinate attributes."""

        def __init__(self, **kw):
            self.__dict__.update(kw)

    class LoudEq:
        """Coordinate whose comparison is observable and may blow up."""

        def __init__(self, tag, boom=None):
            self.tag, self.boom = tag, boom

        def __ne__(self, other):
            log.append({"op": "LoudEq.__ne__", "tag": self.tag})
            if self.boom is not None:
                raise self.boom("boom")
            return rng_truth[self.tag]

        def __repr__(self):
            return f"LoudEq({self.tag})"

    rng_truth = {"t": True, "f": False, "arr": np.array([True, False]),
                 "zero": 0, "str": "", "nb": np.bool_(True), "ni": NotImplemented}

    def combine_arg():
        r = rng.random()
        if r < 0.70:
            return Point(coord(), coord(), coord())
        if r < 0.78:
            return (coord(), coord(), coord())           # plain tuple: no .x
        if r < 0.86:
            attrs = {a: coord() for a in "xyz" if rng.random() < 0.7}
            return Partial(**attrs)
        if r < 0.94:
            tag = rng.choice(sorted(rng_truth))
            boom = rng.choice([None, None, ValueError, StopIteration, KeyError])
            return Point(LoudEq(tag, boom), coord(), LoudEq(tag))
        return rng.choice([None, 3, "pt", np.zeros(3)])

    for i in range(400):
        s, o, t, m = (combine_arg() for _ in range(4))
        if not isinstance(s, Point) and rng.random() < 0.8:
            s = Point(coord(), coord(), coord())
        attempt(f"combine#{i}", lambda: Point.combine(s, o, t, m))

    # ---- 2. builders driven through the public API -------------------

    def transform_op(g):
        t = g.transform
        choice = rng.randrange(12)
        if choice == 0:
            a = (coord(False), coord(False), coord(False))
            return "translate", lambda: t.translate(*a)
        if choice == 1:
            a, ax = rng.choice([0, 30, 45, 90, -90, 180, 17.3, 360, coord(False)]), \
                rng.choice(["x", "y", "z", "w"])
            return "rotate", lambda: t.rotate(a, ax)
        if choice == 2:
            n = rng.choice([1, 1, 2, 3, 0, 4])
            a = tuple(rng.choice([2.0, 0.5, -1.0, 1.0, 3, 0, 1e-3, coord(False)])
                      for _ in range(n))
            return "scale", lambda: t.scale(*a)
        if choice == 3:
            a = rng.choice(["xy", "yz", "zx", "qq"])
            return "mirror", lambda: t.mirror(a)
        if choice == 4:
            a = [rng.choice([0.0, 1.0, -1.0, 0.5, 2.0]) for _ in range(3)]
            return "reflect", lambda: t.reflect(a)
        if choice == 5:
            a = point_like()
            return "set_pivot", lambda: t.set_pivot(a)
        if choice == 6:
            return "save_state", lambda: t.save_state(rng.choice([None, "a", " "]))
        if choice == 7:
            return "restore_state", lambda: t.restore_state(rng.choice([None, "a", "zz"]))
        if choice == 8:
            mtx = np.eye(4)
            mtx[rng.randrange(3), rng.randrange(4)] = rng.choice([2.0, -1.0, 0.3, 7.0])
            if rng.random() < 0.15:
                mtx = np.zeros((4, 4))           # singular
            if rng.random() < 0.1:
                mtx = np.eye(3)                  # wrong shape
            return "chain_transform", lambda: t.chain_transform(mtx)
        if choice == 9:
            a = point_like()
            return "apply_transform", lambda: t.apply_transform(a)
        if choice == 10:
            a = point_like()
            return "reverse_transform", lambda: t.reverse_transform(a)
        return "translate2", lambda: t.translate(rng.uniform(-9, 9), rng.uniform(-9, 9))

    def move_kwargs():
        kw = {}
        for axis in "xyz":
            if rng.random() < 0.55:
                kw[rng.choice([axis, axis.upper()])] = coord()
        if rng.random() < 0.3:
            kw["F"] = rng.choice([100, 1500.5, None, "fast", float("nan")])
        if rng.random() < 0.15:
            kw["E"] = rng.uniform(0, 3)
        if rng.random() < 0.2:
            kw["comment"] = rng.choice(["hi", "", None, "a;b", 5])
        return kw

    def motion_op(g, rec, is_builder):
        choice = rng.randrange(16 if is_builder else 11)
        if choice < 3:
            name = rng.choice(["move", "rapid"])
            kw = move_kwargs()
            return f"{name}(**{sorted(kw)})", lambda: getattr(g, name)(**kw)
        if choice < 5:
            name = rng.choice(["move", "rapid", "move_absolute", "rapid_absolute"])
            p, kw = point_like(), move_kwargs()
            return f"{name}(pt)", lambda: getattr(g, name)(p, **kw)
        if choice == 5:
            mode = rng.choice(["absolute", "relative", "relative", "bogus"])
            return "set_distance_mode", lambda: g.set_distance_mode(mode)
        if choice == 6:
            kw = move_kwargs()
            return "set_axis", lambda: g.set_axis(**kw)
        if choice == 7:
            p = Point(coord(), coord(), coord())
            return "_transform_move", lambda: g._transform_move(p)
        if choice == 8:
            p = point_like()
            return "to_absolute", lambda: g.to_absolute(p)
        if choice == 9:
            def ctx():
                with g.current_transform():
                    g.transform.rotate(33.0, "y")
                    with rng.choice([g.relative_mode, g.absolute_mode])():
                        g.move(x=coord(), y=coord())
                        g.rapid(z=coord())
            return "ctx-managers", ctx
        if choice == 10:
            def failing():
                rec.fail_next = True
                g.move(x=1.0, y=coord())
            return "move-with-writer-failure", failing
        if choice == 11:
            mode = rng.choice(["towards", "away", "towards-no-error", "away-no-error", "x"])
            kw = move_kwargs()
            return "probe", lambda: g.probe(mode, **kw)
        if choice == 12:
            pts = [(rng.uniform(-20, 20), rng.uniform(-20, 20), rng.choice([0, 1.5, -3]))
                   for _ in range(rng.randint(0, 4))]
            return "trace.polyline", lambda: g.trace.polyline(pts)
        if choice == 13:
            tx, ty = rng.uniform(-10, 10), rng.uniform(-10, 10)
            return "trace.arc", lambda: g.trace.arc(
                target=(tx, ty), center=(tx / 2 + 1.0, ty / 2))
        if choice == 14:
            cx = rng.uniform(1, 6)
            return "trace.circle", lambda: g.trace.circle(center=(cx, 0.0))
        tz = rng.uniform(-3, 3)
        return "trace.spline", lambda: g.trace.spline(
            [(rng.uniform(-8, 8), rng.uniform(-8, 8), tz) for _ in range(3)])

    for session in range(40):
        is_builder = session % 2 == 1
        cls = GCodeBuilder if is_builder else GCodeCore
        g = cls(output=None, print_lines=False,
                decimal_places=rng.choice([5, 3, 8]), line_endings="\n")
        rec = Recorder()
        g.add_writer(rec)
        if is_builder:
            attempt("set_resolution", lambda: g.set_resolution(rng.choice([0.5, 2.0, 5.0])), g, rec)
        if rng.random() < 0.5:
            attempt("init-rapid", lambda: g.rapid(x=0, y=0, z=0), g, rec)

        for step in range(28):
            pick = transform_op(g) if rng.random() < 0.3 else motion_op(g, rec, is_builder)
            label, fn = pick
            attempt(f"s{session}.{step}:{label}", fn, g, rec)

        attempt(f"s{session}:teardown", g.teardown, g, rec)
        log.append({"op": f"s{session}:all-lines", "lines": rec.lines})

    # ---- 3. corrupted internals: ordering of failures ----------------

    class BrokenTransformer:
        def __init__(self, exc):
            self.exc = exc

        def apply_transform(self, point):
            log.append({"op": "Broken.apply_transform", "pt": show(point)})
            raise self.exc("broken")

    class CountingTransformer:
        def __init__(self, inner):
            self.inner = inner

        def apply_transform(self, point):
            log.append({"op": "Counting.apply_transform", "pt": show(point)})
            return self.inner.apply_transform(point)

    class OddMode:
        def __init__(self, value):
            self.value = value

        @property
        def is_relative(self):
            log.append({"op": "OddMode.is_relative"})
            if isinstance(self.value, type):
                raise self.value("mode")
            return self.value

    for i in range(60):
        g = GCodeCore(output=None)
        rec = Recorder()
        g.add_writer(rec)
        g.rapid(x=rng.uniform(-5, 5), y=rng.uniform(-5, 5), z=1.0)
        g.transform.rotate(rng.choice([0.0, 45.0, 90.0]), rng.choice("xyz"))
        g.transform.translate(rng.choice([0.0, 2.0]), 0.0, rng.choice([0.0, -1.0]))
        mode_value = rng.choice([True, False, 0, 1, "", "rel", None, [], [0],
                                 np.bool_(False), np.array([1, 2]), LookupError])
        how = rng.randrange(4)
        if how in (0, 2):
            g._distance_mode = OddMode(mode_value)
        if how in (1, 2):
            g._transformer = BrokenTransformer(rng.choice([KeyError, ZeroDivisionError]))
        if how == 3:
            g._transformer = CountingTransformer(g._transformer)
            g._distance_mode = OddMode(rng.choice([True, False]))
        p = Point(coord(), coord(), coord())
        attempt(f"corrupt#{i}/{how}:_transform_move", lambda: g._transform_move(p))
        attempt(f"corrupt#{i}/{how}:move", lambda: g.move(x=1.0), None, None)
        log.append({"op": f"corrupt#{i}:lines", "lines": rec.lines,
                    "pos": show(g._current_axes)})

    json.dump({"file": gscrib.__file__, "log": log}, sys.stdout)


# ----------------------------------------------------------------------
# Parent: run both trees, compare
# ----------------------------------------------------------------------

def run_tree(name: str, path: str) -> dict:
    env = dict(os.environ)
    env["PYTHONPATH"] = path
    env["PYTHONHASHSEED"] = "0"
    env["PYTHONDONTWRITEBYTECODE"] = "1"

    proc = subprocess.run(
        [sys.executable, os.path.abspath(__file__), "--child"],
        env=env, cwd="/tmp", stdin=subprocess.DEVNULL,
        capture_output=True, text=True, timeout=600, check=False,
    )

    if proc.returncode != 0:
        sys.stderr.write(proc.stderr[-4000:])
        raise SystemExit(f"child for {name} failed with {proc.returncode}")

    data = json.loads(proc.stdout)
    assert data["file"].startswith(path + "/"), (name, data["file"])
    return data


def main() -> None:
    results = {name: run_tree(name, path) for name, path in TREES.items()}
    orig, twin = results["orig"]["log"], results["twin"]["log"]

    for index, (a, b) in enumerate(zip(orig, twin)):
        if a != b:
            print(f"MISMATCH at entry {index}:\n  orig: {a}\n  twin: {b}")
            raise SystemExit(1)

    assert len(orig) == len(twin), (len(orig), len(twin))

    ops = [e for e in orig if "exc" in e or "ret" in e]
    raised = sum(1 for e in ops if "exc" in e)
    kinds = sorted({e["exc"] for e in ops if "exc" in e})
    emitted = sum(len(e["lines"]) for e in orig if "lines" in e)

    print(f"imported: {results['orig']['file']}  vs  {results['twin']['file']}")
    print(f"{len(orig)} transcript entries, {len(ops)} driven calls "
          f"({raised} raised: {', '.join(kinds)}), {emitted} emitted lines")
    print("IDENTICAL")


if __name__ == "__main__":
    if "--child" in sys.argv:
        child()
    else:
        main()
