#!/usr/bin/env python
"""Differential check: /repo versus /tmp/wtW-C02 (property C02 refactoring).

Run without arguments it spawns one subprocess per tree (PYTHONPATH set to
the tree), each of which replays the same seeded scenarios and prints a
JSON transcript; the two transcripts must be identical.
"""

import json
import os
import subprocess
import sys

TREES = ("/repo", "/tmp/wtW-C02")
SEED = 20261005


# ---------------------------------------------------------------------------
# Worker (runs inside one tree)
# ---------------------------------------------------------------------------

def worker():
    import math
    import random

    import gscrib
    from gscrib import GCodeBuilder
    from gscrib.enums import (
        SpinMode, PowerMode, CoolantMode, HaltMode, ToolSwapMode,
        DistanceMode, TemperatureUnits, LengthUnits, ProbingMode,
    )
    from gscrib.geometry import Point
    from gscrib.geometry.bounds import BoundManager
    from gscrib.gcode_state import GState
    from gscrib.writers import BaseWriter

    assert os.path.dirname(os.path.dirname(gscrib.__file__)) == os.environ["TREE"]

    class Sink(BaseWriter):
        def __init__(self):
            self.lines = []

        def connect(self):
            return self

        def disconnect(self, wait=True):
            pass

        def write(self, statement):
            self.lines.append(
                statement.decode("utf-8", "backslashreplace")
                if isinstance(statement, bytes) else repr(statement))

    def show(value):
        if isinstance(value, float):
            return repr(value)
        if isinstance(value, (list, tuple)):
            return [show(v) for v in value]
        return str(value)

    def snapshot(g):
        s = g.state
        return [
            show(s.position), s.is_tool_active, s.is_coolant_active,
            show(s.tool_number), show(s.tool_power), show(s.feed_rate),
            str(s.spin_mode), str(s.power_mode), str(s.coolant_mode),
            str(s.tool_swap_mode), str(s.halt_mode), str(s.distance_mode),
            show(s.target_hotend_temperature), show(s.target_bed_temperature),
            show(s.target_chamber_temperature),
            show(s.get_parameter("F")), show(s.get_parameter("S")),
            [show(s.get_bounds(n)) for n in (
                "axes", "bed-temperature", "chamber-temperature",
                "hotend-temperature", "feed-rate", "tool-number",
                "tool-power")],
        ]

    def attempt(func, *args, **kwargs):
        try:
            return ["ok", show(func(*args, **kwargs))]
        except BaseException as error:  # pylint: disable=broad-except
            return ["raise", type(error).__name__, str(error)[:300]]

    rng = random.Random(SEED)
    nan, inf = float("nan"), float("inf")

    numbers = [
        0, 1, -1, 2, 7, 100, 255, 1000, 0.0, -0.0, 0.5, -0.5, 1.5, 99.999,
        1e-9, -1e-9, 1e9, nan, inf, -inf, True, False, None, "5", "x",
        [1], (1, 2), 3 + 0j, Point(1, 2, 3), b"1",
    ]
    names = [
        "axes", "bed-temperature", "chamber-temperature",
        "hotend-temperature", "feed-rate", "tool-number", "tool-power",
        "AXES", "feedrate", "", "tool power", None, 5, ("axes",), ["axes"],
    ]
    points = [
        Point(0, 0, 0), Point(10, 10, 10), Point(-5, -5, -5), Point(1, 2, 3),
        Point(None, 0, 5), Point(None, None, None), Point(100, 100, 100),
        Point(0, 10, 0), Point(nan, 0, 0), Point(inf, inf, inf),
        Point(-inf, -inf, -inf),
    ]
    spin = [SpinMode.CLOCKWISE, SpinMode.COUNTER, SpinMode.OFF, "cw", "ccw",
            "off", "bogus", None, 3]
    power = [m for m in PowerMode] + ["constant", "dynamic", "off", "nope", None]
    coolant = [m for m in CoolantMode] + ["flood", "mist", "off", "nope", None]
    halts = [m for m in HaltMode] + ["pause", "off", "wait-for-bed", "nope", None]
    swaps = [m for m in ToolSwapMode] + ["manual", "automatic", "off", "nope", None]

    def pick(seq):
        return seq[rng.randrange(len(seq))]

    def number():
        if rng.random() < 0.5:
            return pick(numbers)
        if rng.random() < 0.5:
            return rng.randint(-3, 300)
        return round(rng.uniform(-50, 400), rng.randint(0, 4))

    transcript = []

    # -- 1. BoundManager in isolation ------------------------------------

    manager = BoundManager()

    for _ in range(500):
        kind = rng.randrange(4)
        name = pick(names) if rng.random() < 0.4 else pick(names[:7])

        if kind == 0:
            if rng.random() < 0.5:
                low, high = pick(points + numbers), pick(points + numbers)
            else:
                low, high = number(), number()
            if name == "axes" and rng.random() < 0.7:
                low, high = pick(points), pick(points)
            entry = ["set_bounds", show(name), show(low), show(high),
                     attempt(manager.set_bounds, name, low, high)]
        elif kind == 1:
            entry = ["get_bounds", show(name),
                     attempt(manager.get_bounds, name)]
        else:
            value = pick(points) if rng.random() < 0.3 else number()
            entry = ["validate", show(name), show(value),
                     attempt(manager.validate, name, value)]

        transcript.append(entry)

    transcript.append(attempt(manager.set_bounds, name="axes", min=Point(0, 0, 0)))
    transcript.append(attempt(manager.validate, "axes"))
    transcript.append(sorted(manager._bounds))

    # -- 2. GState validators in isolation -------------------------------

    state = GState()

    for round_number in range(3):
        for method in ("_validate_tool_number", "_validate_feed_rate",
                       "_validate_tool_power", "_set_feed_rate",
                       "_set_tool_power"):
            for value in numbers + [number() for _ in range(15)]:
                transcript.append([method, show(value),
                    attempt(getattr(state, method), value),
                    show(state.feed_rate), show(state.tool_power)])

        transcript.append(attempt(state._set_bounds, "tool-number", 2, 5))
        transcript.append(attempt(state._set_bounds, "feed-rate",
            -10 if round_number else 0.5, 250.5))
        transcript.append(attempt(state._set_bounds, "tool-power", -100, 100))

    for mode in swaps:
        for value in numbers:
            transcript.append(["_set_tool_number", show(mode), show(value),
                attempt(state._set_tool_number, mode, value),
                show(state.tool_number), str(state.tool_swap_mode)])

    # -- 3. Builder call histories ---------------------------------------

    def scenario(index):
        g = GCodeBuilder()
        sink = Sink()
        g.add_writer(sink)
        log = []

        if index % 3 == 1:
            log.append(attempt(g.set_bounds, "axes",
                Point(-20, -20, -20), Point(60, 60, 60)))
            log.append(attempt(g.set_bounds, "feed-rate", 10, 3000))
            log.append(attempt(g.set_bounds, "tool-power", 0, 1000))
            log.append(attempt(g.set_bounds, "tool-number", 1, 6))
            log.append(attempt(g.set_bounds, "bed-temperature", 0, 120))
            log.append(attempt(g.set_bounds, "hotend-temperature", 0, 260))
            log.append(attempt(g.set_bounds, "chamber-temperature", 0, 80))

        if index % 5 == 2:
            log.append(attempt(g.set_distance_mode, DistanceMode.RELATIVE))

        def move_params():
            params = {}
            for axis in "xyz":
                if rng.random() < 0.6:
                    params[axis] = round(rng.uniform(-30, 70), 2)
            if rng.random() < 0.5:
                params[pick(["F", "f"])] = number()
            if rng.random() < 0.4:
                params[pick(["S", "s"])] = number()
            if rng.random() < 0.2:
                params["comment"] = pick(["", "hello", "a;b", "(x)", None])
            if rng.random() < 0.1:
                params["E"] = number()
            return params

        def halt_params():
            params = {}
            if rng.random() < 0.5:
                params[pick(["S", "s"])] = number()
            if rng.random() < 0.4:
                params[pick(["R", "r"])] = number()
            if rng.random() < 0.1:
                params["P"] = number()
            return params

        actions = [
            lambda: ("tool_on", [pick(spin), number()], {}),
            lambda: ("tool_on", [pick(spin[:2]), rng.randint(0, 2000)], {}),
            lambda: ("tool_off", [], {}),
            lambda: ("power_on", [pick(power), number()], {}),
            lambda: ("power_on", [pick(power[:3]), rng.randint(0, 2000)], {}),
            lambda: ("power_off", [], {}),
            lambda: ("coolant_on", [pick(coolant)], {}),
            lambda: ("coolant_off", [], {}),
            lambda: ("tool_change", [pick(swaps), number()], {}),
            lambda: ("tool_change", [pick(swaps[:3]), rng.randint(0, 8)], {}),
            lambda: ("halt", [pick(halts)], halt_params()),
            lambda: ("halt", [pick(halts[:9])], halt_params()),
            lambda: ("pause", [pick([True, False, None, 1])], {}),
            lambda: ("stop", [pick([True, False, None, 0])], {}),
            lambda: ("wait", [], {}),
            lambda: ("emergency_halt", [pick(["boom", "", 5])],
                     {"reset": pick([True, False, 1])}),
            lambda: ("move", [], move_params()),
            lambda: ("rapid", [], move_params()),
            lambda: ("move_absolute", [], move_params()),
            lambda: ("probe", [pick(list(ProbingMode) + ["nope"])], move_params()),
            lambda: ("set_axis", [], move_params()),
            lambda: ("auto_home", [], move_params()),
            lambda: ("set_feed_rate", [number()], {}),
            lambda: ("set_tool_power", [number()], {}),
            lambda: ("set_bed_temperature", [number()], {}),
            lambda: ("set_hotend_temperature", [number()], {}),
            lambda: ("set_chamber_temperature", [number()], {}),
            lambda: ("set_fan_speed", [number()], {}),
            lambda: ("sleep", [number()], {}),
            lambda: ("set_distance_mode", [pick(list(DistanceMode) + ["x"])], {}),
            lambda: ("set_temperature_units",
                     [pick(list(TemperatureUnits) + ["x"])], {}),
            lambda: ("set_length_units", [pick(list(LengthUnits))], {}),
            lambda: ("set_bounds", [pick(names[:7] + ["nope"]), number(), number()], {}),
            lambda: ("set_bounds", ["axes", pick(points), pick(points)], {}),
            lambda: ("comment", [pick(["note", "", "x y"])], {}),
            lambda: ("write", [pick(["G1 X1", "M3", ""])], {}),
        ]

        weights = [3] * 16 + [2] * 6 + [1] * (len(actions) - 22)

        for _ in range(60):
            name, args, kwargs = rng.choices(actions, weights)[0]()
            before = len(sink.lines)
            result = attempt(getattr(g, name), *args, **kwargs)
            log.append([name, show(args), sorted(
                (k, show(v)) for k, v in kwargs.items()), result,
                sink.lines[before:], snapshot(g)])

        for mode in list(SpinMode) + list(CoolantMode) + list(HaltMode):
            log.append(attempt(g._get_statement, mode))
            log.append(attempt(g._get_statement, mode, {"S": 1}, pick(["", "c", None])))

        return log

    for index in range(120):
        transcript.append(scenario(index))

    json.dump(transcript, sys.stdout)


# ---------------------------------------------------------------------------
# Driver
# ---------------------------------------------------------------------------

def main():
    outputs = []

    for tree in TREES:
        env = dict(os.environ, PYTHONPATH=tree, TREE=tree,
                   PYTHONHASHSEED="0", PYTHONDONTWRITEBYTECODE="1")
        done = subprocess.run(
            [sys.executable, os.path.abspath(__file__), "--worker"],
            env=env, cwd="/tmp", stdin=subprocess.DEVNULL,
            capture_output=True, text=True, timeout=600, check=False)

        if done.returncode != 0:
            print(done.stderr[-3000:])
            sys.exit(f"worker failed for {tree}")

        outputs.append(json.loads(done.stdout))

    base, twin = outputs
    assert len(base) == len(twin), (len(base), len(twin))

    for number, (a, b) in enumerate(zip(base, twin)):
        if a != b:
            if isinstance(a, list) and len(a) == len(b):
                for x, y in zip(a, b):
                    if x != y:
                        print("BASE:", json.dumps(x)[:1500])
                        print("TWIN:", json.dumps(y)[:1500])
                        break
            sys.exit(f"transcripts differ at entry {number}")

    text = json.dumps(base)
    raised = text.count('"raise"')
    okay = text.count('"ok"')
    kinds = sorted({e for e in (
        "ToolStateError", "CoolantStateError", "ValueError", "TypeError",
        "TypeCheckError") if f'"{e}"' in text})
    print(f"identical transcripts: {len(base)} entries, "
          f"{okay} ok calls, {raised} raising calls, exceptions seen: {kinds}")


if __name__ == "__main__":
    if "--worker" in sys.argv:
        worker()
    else:
        main()
