#!/usr/bin/env python
"""Differential check for the C13 refactoring.

Runs the same seeded driver in two subprocesses, one importing gscrib
from /repo (reference) and one from /tmp/wtU-C13 (refactored), and
asserts that the two transcripts are identical.

Driven code:
  * CoordinateTransformer.scale                   (geometry/transformer.py)
  * GCodeCore.current_transform / named_transform (gcode_core.py), also
    through GCodeBuilder, nested, with raising bodies and invalid names.

Usage: python equiv.py            (exit status 0 when identical)
"""

import json
import os
import subprocess
import sys

TREES = {"reference": "/repo", "refactored": "/tmp/wtU-C13"}
SEED = 20261004


# ----------------------------------------------------------------------
# Driver (executed in the subprocesses)
# ----------------------------------------------------------------------

def driver():
    import random
    import re
    import numpy as np
    import gscrib
    from gscrib import GCodeCore, GCodeBuilder
    from gscrib.geometry import CoordinateTransformer
    from gscrib.writers import BaseWriter

    root = os.path.realpath(os.path.dirname(os.path.dirname(gscrib.__file__)))
    assert root == os.path.realpath(os.environ["EXPECTED_ROOT"]), root

    rng = random.Random(SEED)
    log = []

    def out(*items):
        log.append(list(items))

    # -- observation helpers -------------------------------------------

    def fnum(value):
        return repr(value) if value is None else float(value).hex()

    def point(p):
        return [fnum(p.x), fnum(p.y), fnum(p.z)]

    def transform_dump(t):
        return [
            np.asarray(t._matrix, dtype=float).tobytes().hex(),
            np.asarray(t._inverse, dtype=float).tobytes().hex(),
            str(t._matrix.dtype),
            point(t._pivot),
            np.asarray(t._to_pivot, dtype=float).tobytes().hex(),
            np.asarray(t._from_pivot, dtype=float).tobytes().hex(),
        ]

    PROBES = [(0, 0, 0), (1, 2, 3), (-7.25, 0.1, 1e6), (3.3, -4.4, 5.5)]

    def transformer_dump(tr):
        probes = []

        for probe in PROBES:
            try:
                a = tr.apply_transform(probe)
                r = tr.reverse_transform(a)
                probes.append([point(a), point(r)])
            except Exception as e:  # pylint: disable=broad-except
                probes.append(type(e).__name__)

        return {
            "current": transform_dump(tr._current_transform),
            "stack": [transform_dump(t) for t in tr._transforms_stack],
            "named": [
                [repr(k), transform_dump(v)]
                for k, v in tr._named_transforms.items()
            ],
            "probes": probes,
        }

    def call(label, func, *args, **kwargs):
        try:
            value = func(*args, **kwargs)
            out(label, "ok", re.sub(r" at 0x[0-9a-f]+", "", repr(value)))
            return value
        except BaseException as e:  # pylint: disable=broad-except
            out(label, "raise", type(e).__name__, repr(e.args)[:200])
            return None

    # -- part A: scale -------------------------------------------------

    FLOATS = [
        1.0, 2.0, 0.5, -1.0, -3.75, 1e-12, 1e12, 0.0, -0.0, 0, 1, 2, -2,
        True, False, float("nan"), float("inf"), float("-inf"),
        np.float64(2.5), np.float64(0.0), np.float32(1.5), np.int64(3),
        np.int64(0), 1e-320, 7,
    ]
    JUNK = [None, "2", "", [2.0], (1.0, 2.0), 1 + 2j, np.array([1.0, 2.0]),
            np.array(2.0), {}, b"1"]

    def scale_args():
        kind = rng.random()
        count = rng.choice([0, 1, 1, 1, 2, 2, 3, 3, 4, 5])
        args = []

        for _ in range(count):
            if kind < 0.12 and rng.random() < 0.5:
                args.append(rng.choice(JUNK))
            elif rng.random() < 0.55:
                args.append(rng.choice(FLOATS))
            else:
                args.append(rng.uniform(-5, 5))

        return args

    def random_setup(tr):
        for _ in range(rng.randrange(0, 4)):
            op = rng.randrange(5)

            if op == 0:
                tr.translate(rng.uniform(-9, 9), rng.uniform(-9, 9),
                             rng.uniform(-9, 9))
            elif op == 1:
                tr.rotate(rng.uniform(-360, 360), rng.choice("xyz"))
            elif op == 2:
                tr.set_pivot((rng.uniform(-5, 5), rng.uniform(-5, 5),
                              rng.uniform(-5, 5)))
            elif op == 3:
                tr.mirror(rng.choice(["xy", "yz", "zx"]))
            else:
                tr.save_state()

    for i in range(320):
        tr = CoordinateTransformer()
        random_setup(tr)
        before = transformer_dump(tr)

        for _ in range(rng.randrange(1, 4)):
            args = scale_args()
            out("scale-args", i, [repr(a) for a in args])
            call("scale", tr.scale, *args)
            out("scale-state", transformer_dump(tr))

        out("scale-before", before)

    # keyword misuse and direct calls on the class
    tr = CoordinateTransformer()
    call("scale-kw", tr.scale, scale=2.0)
    call("scale-kw2", tr.scale, 2.0, x=1.0)
    out("scale-state", transformer_dump(tr))

    # -- part B: context managers --------------------------------------

    class Recorder(BaseWriter):
        """In-process fake device that keeps every emitted line."""

        def __init__(self):
            self.lines = []

        def connect(self):
            self.lines.append("<connect>")
            return self

        def disconnect(self, wait=True):
            self.lines.append("<disconnect %r>" % (wait,))

        def write(self, statement):
            self.lines.append(statement.hex())

        def flush(self):
            self.lines.append("<flush>")

    class Boom(Exception):
        pass

    NAMES = ["a", "b", " a ", "a ", "missing", "", "   ", None, 5, 2.5,
             b"a", ("a",), ["a"], True]
    BODY_ERRORS = [None, None, None, Boom, KeyError, IndexError,
                   StopIteration, ValueError, KeyboardInterrupt,
                   GeneratorExit, ZeroDivisionError]

    def machine_dump(g, rec):
        try:
            pos = point(g.position)
        except Exception as e:  # pylint: disable=broad-except
            pos = type(e).__name__

        return {
            "transformer": transformer_dump(g.transform),
            "position": pos,
            "axes": point(g._current_axes),
            "mode": str(g._distance_mode),
            "lines": list(rec.lines),
        }

    def random_op(g, depth):
        tr = g.transform
        op = rng.randrange(16)

        if op == 0:
            call("translate", tr.translate, rng.uniform(-9, 9),
                 rng.uniform(-9, 9), rng.choice([0.0, rng.uniform(-9, 9)]))
        elif op == 1:
            call("rotate", tr.rotate, rng.choice([90, -45.5, 360,
                 rng.uniform(-720, 720)]), rng.choice(["x", "y", "z", "w"]))
        elif op == 2:
            call("scale", tr.scale, *scale_args())
        elif op == 3:
            call("mirror", tr.mirror, rng.choice(["xy", "yz", "zx", "qq"]))
        elif op == 4:
            call("reflect", tr.reflect, [rng.choice([0.0, 1.0,
                 rng.uniform(-1, 1)]) for _ in range(3)])
        elif op == 5:
            call("set_pivot", tr.set_pivot, (rng.uniform(-5, 5),
                 rng.uniform(-5, 5), rng.uniform(-5, 5)))
        elif op == 6:
            call("save_state", tr.save_state)
        elif op == 7:
            call("save_named", tr.save_state, rng.choice(NAMES))
        elif op == 8:
            call("restore_state", tr.restore_state)
        elif op == 9:
            call("restore_named", tr.restore_state, rng.choice(NAMES))
        elif op == 10:
            call("delete_state", tr.delete_state, rng.choice(NAMES[:8]))
        elif op in (11, 12):
            kwargs = {}
            for axis in "xyz":
                if rng.random() < 0.7:
                    kwargs[axis] = rng.choice([0, 10, -2.5,
                                               rng.uniform(-50, 50)])
            mover = rng.choice([g.move, g.rapid])
            call("move", mover, **kwargs)
        elif op == 13:
            call("distance", g.set_distance_mode,
                 rng.choice(["absolute", "relative"]))
        elif depth < 4:
            scoped(g, depth + 1)

    def scoped(g, depth):
        use_named = rng.random() < 0.55
        error = rng.choice(BODY_ERRORS)
        steps = rng.randrange(0, 5)
        raise_at = rng.randrange(0, steps + 1)

        if use_named:
            name = rng.choice(NAMES)
            out("enter-named", depth, repr(name))
            manager = call("make-named", g.named_transform, name)
        else:
            out("enter-current", depth)
            manager = call("make-current", g.current_transform)

        if manager is None:
            return

        try:
            with manager as transformer:
                out("entered", transformer is g.transform,
                    transformer_dump(g.transform))

                for step in range(steps + 1):
                    if step == raise_at and error is not None:
                        raise error("body %d" % depth)
                    if step < steps:
                        random_op(g, depth)

                out("body-done", transformer_dump(g.transform))
        except BaseException as e:  # pylint: disable=broad-except
            out("scope-raise", depth, type(e).__name__, repr(e.args)[:200],
                type(e.__cause__).__name__, type(e.__context__).__name__)

        out("exited", depth, transformer_dump(g.transform))

        # a manager is single use: entering it again must fail alike
        if rng.random() < 0.1:
            try:
                with manager:
                    out("reentered")
            except BaseException as e:  # pylint: disable=broad-except
                out("reenter-raise", type(e).__name__)
            out("after-reenter", transformer_dump(g.transform))

    for i in range(260):
        cls = GCodeBuilder if i % 3 == 0 else GCodeCore
        g = cls(decimal_places=rng.choice([3, 5]))
        rec = Recorder()
        g.add_writer(rec)
        out("machine", i, cls.__name__)

        for _ in range(rng.randrange(0, 3)):
            g.transform.save_state(rng.choice(["a", "b"]))
            g.transform.translate(rng.uniform(-3, 3), rng.uniform(-3, 3))

        for _ in range(rng.randrange(2, 9)):
            if rng.random() < 0.45:
                scoped(g, 0)
            else:
                random_op(g, 0)
            out("state", machine_dump(g, rec))

        call("teardown", g.teardown)
        out("final", machine_dump(g, rec))

    # -- part C: managers as decorators, unusual entry ------------------

    g = GCodeCore()
    rec = Recorder()
    g.add_writer(rec)
    g.transform.save_state("deco")
    g.transform.translate(4.0, 5.0, 6.0)
    g.transform.save_state()

    @g.current_transform()
    def decorated_current(dx):
        g.transform.translate(dx, 0.0)
        g.move(x=1, y=1)
        return point(g.transform.apply_transform((1, 1, 1)))

    @g.named_transform("deco")
    def decorated_named(dx):
        g.transform.scale(dx)
        g.move(x=2, y=2)
        return point(g.transform.apply_transform((1, 1, 1)))

    @g.named_transform("nope")
    def decorated_missing():
        return "unreachable"

    @g.named_transform(None)
    def decorated_pop():
        return len(g.transform._transforms_stack)

    for dx in (1.0, 2.0, 0.0):
        call("deco-current", decorated_current, dx)
        out("state", machine_dump(g, rec))
        call("deco-named", decorated_named, dx)
        out("state", machine_dump(g, rec))

    call("deco-missing", decorated_missing)
    call("deco-pop", decorated_pop)
    call("deco-pop", decorated_pop)
    out("state", machine_dump(g, rec))

    call("named-noargs", g.named_transform)
    call("named-extra", g.named_transform, "a", "b")
    call("current-extra", g.current_transform, "a")
    call("named-kw", g.named_transform, name="deco")

    manager = g.named_transform(name="deco")
    call("manual-enter", manager.__enter__)
    g.transform.rotate(33.0)
    call("manual-exit", manager.__exit__, None, None, None)
    out("state", machine_dump(g, rec))

    manager = g.current_transform()
    call("manual-enter", manager.__enter__)
    g.transform.rotate(33.0)
    boom = Boom("x")
    call("manual-exit", manager.__exit__, Boom, boom, None)
    out("state", machine_dump(g, rec))

    # public surface of the two classes
    out("api-core", sorted(n for n in dir(GCodeCore) if not n.startswith("_")))
    out("api-transformer", sorted(
        n for n in dir(CoordinateTransformer) if not n.startswith("_")))

    json.dump(log, sys.stdout)


# ----------------------------------------------------------------------
# Comparison (parent process)
# ----------------------------------------------------------------------

def run(tree):
    env = dict(os.environ)
    env["PYTHONPATH"] = tree
    env["EXPECTED_ROOT"] = tree
    env["PYTHONHASHSEED"] = "0"
    env["PYTHONDONTWRITEBYTECODE"] = "1"

    proc = subprocess.run(
        [sys.executable, os.path.abspath(__file__), "--driver"],
        env=env, cwd="/tmp", stdin=subprocess.DEVNULL,
        stdout=subprocess.PIPE, stderr=subprocess.PIPE,
        timeout=600, check=False,
    )

    if proc.returncode != 0:
        sys.stderr.write(proc.stderr.decode("utf-8", "replace")[-4000:])
        raise SystemExit("driver failed for %s" % tree)

    return json.loads(proc.stdout.decode("utf-8"))


def main():
    transcripts = {name: run(tree) for name, tree in TREES.items()}
    ref, new = transcripts["reference"], transcripts["refactored"]

    for index, (a, b) in enumerate(zip(ref, new)):
        if a != b:
            print("MISMATCH at record", index)
            print("  reference :", json.dumps(a)[:600])
            print("  refactored:", json.dumps(b)[:600])
            raise SystemExit(1)

    if len(ref) != len(new):
        print("MISMATCH in transcript length", len(ref), len(new))
        raise SystemExit(1)

    kinds = {}
    for record in ref:
        key = record[0] if record[1] not in ("ok", "raise") \
            else "%s:%s" % (record[0], record[1] if record[1] == "ok"
                            else record[2])
        kinds[key] = kinds.get(key, 0) + 1

    print("records compared:", len(ref))
    for key in sorted(kinds):
        print("  %-40s %d" % (key, kinds[key]))
    print("IDENTICAL")


if __name__ == "__main__":
    if "--driver" in sys.argv:
        driver()
    else:
        main()
