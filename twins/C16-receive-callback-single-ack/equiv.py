#!/usr/bin/env python
"""Differential check for the C16 refactoring of PrintrunWriter.

Parent mode (no arguments): runs this very file twice as a child, once with
PYTHONPATH=/repo (reference tree) and once with PYTHONPATH=/tmp/wtT-C16
(refactored tree), and asserts that the two transcripts are identical.

Child mode (--child ROOT): imports gscrib (asserting it comes from ROOT),
replaces the printrun core by an in-process fake device, drives
PrintrunWriter / SerialWriter / SocketWriter with seeded pseudo-random
inputs and prints a JSON transcript of everything observable.
"""

import json
import os
import subprocess
import sys

REFERENCE = "/repo"
REFACTORED = os.environ.get("EQUIV_REFACTORED", "/tmp/wtT-C16")
SEED = 16016


# ---------------------------------------------------------------------
# Child
# ---------------------------------------------------------------------

def child(root):
    import logging
    import random
    import threading
    import time

    import gscrib
    assert os.path.realpath(gscrib.__file__).startswith(
        os.path.realpath(root) + os.sep), (gscrib.__file__, root)

    import gscrib.writers.printrun_writer as pw
    from gscrib.writers import PrintrunWriter, SerialWriter, SocketWriter

    pw.POLLING_INTERVAL = 0.001
    rng = random.Random(SEED)
    transcript = []

    # -- log capture ----------------------------------------------------

    class Capture(logging.Handler):
        def __init__(self):
            super().__init__(logging.DEBUG)
            self.items = []

        def emit(self, record):
            exc = record.exc_info[0].__name__ if (
                record.exc_info and record.exc_info[0]) else None
            self.items.append([record.levelname, record.getMessage(), exc,
                               threading.current_thread() is MAIN_THREAD])

        def drain(self):
            # Records of the caller's thread and of the fake device's
            # delivery thread interleave freely (that is scheduling, not
            # library behaviour), so each stream is compared on its own.
            items, self.items = self.items, []
            return [[i[:3] for i in items if i[3]],
                    [i[:3] for i in items if not i[3]]]

    MAIN_THREAD = threading.current_thread()
    capture = Capture()
    logger = logging.getLogger(pw.__name__)
    logger.setLevel(logging.DEBUG)
    logger.addHandler(capture)
    logger.propagate = False

    # -- fake device ----------------------------------------------------

    class FakeQueue:
        def __init__(self, owner):
            self.owner = owner

        def empty(self):
            # the queue drains by one entry every time it is polled
            if self.owner.queued > 0:
                self.owner.queued -= 1
                return False
            return True

    class FakePrintcore:
        """In-process stand-in for printrun's printcore."""

        plan = None       # shared: list of per-statement behaviours
        journal = None    # shared: list of observed device events
        connect_mode = "ok"
        latency = False

        def __init__(self):
            self.online = False
            self.printing = False
            self.printer = None
            self.loud = False
            self.onlinecb = None
            self.errorcb = None
            self.recvcb = None
            self.queued = 0
            self.busy = 0
            self.priqueue = FakeQueue(self)
            self.thread = None
            self.journal.append(["new"])

        @property
        def clear(self):
            # becomes clear after having been polled `busy` times
            if self.busy > 0:
                self.busy -= 1
                return False
            return True

        def connect(self, port=None, baud=None):
            self.journal.append(["connect", repr(port), repr(baud)])
            mode = self.connect_mode
            if mode == "raise":
                raise OSError("no such port")
            if mode == "noprinter":
                return
            self.printer = object()
            if mode == "silent":
                return
            if mode == "greeting-error":
                self.online = True
                self.recvcb("error: boot failure\n")
                self.onlinecb()
                return
            self.online = True
            self.recvcb("start\n")
            self.recvcb("echo: T:21.5 B:20\n")
            self.onlinecb()

        def startprint(self, gcode, startindex=0):
            self.journal.append(["startprint", len(gcode), startindex])
            self.busy = 2

        def cancelprint(self):
            self._join()
            self.journal.append(["cancelprint"])

        def disconnect(self):
            self._join()
            self.journal.append(["disconnect"])
            self.online = False
            self.printer = None

        def _join(self):
            if self.thread is not None:
                self.thread.join(10)
                self.thread = None

        def send(self, command, wait=0):
            self._join()
            self.journal.append(["send", command])
            step = self.plan.pop(0) if self.plan else {"replies": ["ok\n"]}
            if step.get("raise"):
                raise RuntimeError("port closed")

            def deliver():
                for kind, text in step["events"]:
                    if self.latency:
                        time.sleep(0.002)
                    if kind == "recv":
                        self.recvcb(text)
                    elif kind == "error":
                        self.errorcb(text)
                    elif kind == "offline":
                        self.online = False
                    elif kind == "busy":
                        self.busy = int(text)
                    elif kind == "queued":
                        self.queued = int(text)

            if self.latency:
                self.thread = threading.Thread(target=deliver, daemon=True)
                self.thread.start()
            else:
                deliver()

    pw.printcore = FakePrintcore

    # -- input generators -----------------------------------------------

    def number():
        return rng.choice([
            "0", "1", "-1", "12.5", "-0.0", "210.50", ".5", "5.", "007",
            "1.2.3", "-", ".", "--1", "1-2", "1e3", "999999999999",
            str(rng.randint(-500, 500)),
            "%.3f" % rng.uniform(-300, 300),
        ])

    def numbers(n):
        return ",".join(number() for _ in range(n))

    def reading():
        key = rng.choice([
            "X", "Y", "Z", "A", "B", "C", "E", "F", "S", "T", "x", "t",
            "1", "T0", "FS", "MPos", "WPos", "PRB", "Bf", "Ov", "mpos",
        ])
        return "%s:%s" % (key, numbers(rng.choice([1, 1, 1, 2, 3, 4, 6, 7, 8])))

    def status_line():
        parts = [rng.choice(["Idle", "Run", "Hold:0", "Alarm"])]
        for _ in range(rng.randint(0, 4)):
            parts.append(reading())
        rng.shuffle(parts)
        text = "<" + "|".join(parts) + ">"
        return text if rng.random() < 0.85 else text[1:]

    FIXED = [
        "ok", "OK", "Ok", "ok\n", " ok \r\n", "okay", "ok T:210.5 /210.0 B:60.1 /60.0",
        "ok X:1 Y:2 Z:3 E:4", "ok x:1 X:2", "ok FS:100,200", "ok <FS:100,200",
        "error: checksum mismatch", "Error:Printer halted. kill() called!",
        "ERROR", "errors T:5", "ALARM:1", "alarm", "Alarm X:9", "!!", "!! fatal T:1",
        "! !", "error ok", "ok error", "okerror", "", " ", "\n", "\t\r\n",
        "start", "echo:busy: processing", "T:21.5 /0.0 B:22.1 /0.0 @:0 B@:0",
        "X:10.00 Y:20.00 Z:0.30 E:0.00 Count X:800 Y:1600 Z:120",
        "<Idle|MPos:1.000,2.000,3.000|FS:500,8000>",
        "<Run|WPos:-1.5,2.25,3|FS:0,0|Ov:100,100,100>",
        "<Idle|MPos:1,2,3,4,5,6,7.7.7>", "<Idle|MPos:1,2,3,4,5,6,7,8>",
        "<Idle|MPos:1,2,..,4>", "<Idle|MPos:1.2.3>", "<Idle|MPos:,>",
        "<Idle|FS:1>", "<Idle|FS:1,2,3>", "<Idle|FS:1,1.2.3>",
        "<Idle|FS:1.2.3,5>", "<Idle|FS:-,->", "FS:5,6", " <Idle|FS:5,6>",
        "[PRB:1.000,2.000,-3.500:1]", "[PRB:1,2:0]", "PRB:1,2,3,4,5,6,7",
        "<Idle|MPos:1,2,3|WPos:4,5,6|FS:7,8|F:9|S:10>",
        "<Idle|F:9|FS:7,8|X:0|MPos:1,2,3>", "T:1 T:2 t:3", "1:5 2:6",
        "ok MPos:1,2,3 X:9", "error: X:5 Y:6", "ok T:1.2.3 B:4",
        "a:b", "X:", ":5", "X:-", "X:.", "ok X:- Y:7",
    ]

    ALPHABET = "okerralm!<>|:,.-0123456789XYZFSMPWTB sp[]\n\t"

    def message():
        r = rng.random()
        if r < 0.35:
            return rng.choice(FIXED)
        if r < 0.55:
            return status_line()
        if r < 0.75:
            prefix = rng.choice(["ok ", "OK ", "", "", "echo: ", "error: ",
                                 "ALARM:", "!! ", " ", "<"])
            return prefix + " ".join(reading() for _ in range(rng.randint(0, 5)))
        if r < 0.93:
            return "".join(rng.choice(ALPHABET)
                           for _ in range(rng.randint(0, 24)))
        return rng.choice([None, 5, 1.5, b"ok", b"error: x", ["ok"], ("ok",),
                           True, object])

    def show(value):
        if isinstance(value, str):
            return value
        return "<%s>" % type(value).__name__ if value is object else repr(value)

    def new_writer(cls=PrintrunWriter, **kw):
        args = dict(mode=rng.choice(["serial", "socket"]), host="fakehost",
                    port="/dev/fake0", baudrate=115200)
        args.update(kw)
        return cls(**args)

    def snapshot(w):
        error = w._device_error
        return {
            "ack": w._ack_event.is_set(),
            "online_event": w._online_event.is_set(),
            "error": None if error is None else [
                type(error).__name__, str(error)],
            "params": sorted((k, repr(v)) for k, v in
                             w._current_params.items()),
            "reported": sorted(w._reported_params),
            "shutdown": w._shutdown_requested,
            "connected": w.is_connected,
            "printing": w.is_printing,
            "has_device": w._device is not None,
        }

    def call(fn, *args, **kw):
        try:
            result = fn(*args, **kw)
            if isinstance(result, (PrintrunWriter, SerialWriter, SocketWriter)):
                result = "<writer>"
            return ["return", repr(result)]
        except BaseException as e:  # noqa: transcript wants everything
            cause = e.__cause__
            return ["raise", type(e).__name__, str(e),
                    None if cause is None else type(cause).__name__]

    # -- subclasses exercising the overridable hooks ----------------------

    class Translating(PrintrunWriter):
        def _format_error(self, message):
            return "device says <%s>" % message.upper()

    class BrokenFormat(PrintrunWriter):
        def _format_error(self, message):
            raise KeyError(message)

    class BrokenParse(PrintrunWriter):
        def _parse_message(self, message):
            if "E:" in message or "Z:" in message:
                raise ZeroDivisionError("parse " + message)
            super()._parse_message(message)

    class BrokenUpdate(PrintrunWriter):
        def _update_param(self, key, value):
            if key in ("Y", "S"):
                raise OverflowError(key)
            super()._update_param(key, value)

    # ===================================================================
    # Part A: the receive callback, one message at a time
    # ===================================================================

    FakePrintcore.plan, FakePrintcore.journal = [], []
    FakePrintcore.connect_mode, FakePrintcore.latency = "ok", False

    for cls in (PrintrunWriter, Translating, BrokenFormat, BrokenParse,
                BrokenUpdate):
        w = new_writer(cls)
        w.connect()
        capture.drain()
        count = 260 if cls is PrintrunWriter else 70

        for i in range(count):
            text = message()
            keep_state = rng.random() < 0.3

            if not keep_state:
                w._ack_event.clear()
                w._device_error = None

            outcome = call(w._on_device_message, text)
            transcript.append(["A", cls.__name__, i, show(text), outcome,
                               snapshot(w), capture.drain()])

        w.disconnect(wait=False)

    # ===================================================================
    # Part B: _parse_message / _update_param called directly
    # ===================================================================

    for cls in (PrintrunWriter, BrokenUpdate):
        w = new_writer(cls)
        for i in range(160):
            text = message()
            outcome = call(w._parse_message, text)
            transcript.append(["B", cls.__name__, i, show(text), outcome,
                               snapshot(w), capture.drain()])

    # ===================================================================
    # Part C: whole sessions through write() / disconnect()
    # ===================================================================

    def ack_line():
        return rng.choice([
            "ok\n", "ok\n", "OK\n", "ok T:%s /210 B:%s\n" % (number(), number()),
            "ok X:%s Y:%s\n" % (number(), number()), " ok \r\n",
            "ok " + reading() + "\n",
        ])

    def chatter():
        return [("recv", rng.choice([
            status_line() + "\n", "echo:busy: processing\n", reading() + "\n",
            "T:%s B:%s\n" % (number(), number()), "[PRB:%s:1]\n" % numbers(3),
            "wait\n", "\n",
        ])) for _ in range(rng.randint(0, 3))]

    def behaviour():
        r = rng.random()
        if r < 0.55:
            return {"events": chatter() + [("recv", ack_line())]}
        if r < 0.70:
            reply = rng.choice([
                "error: checksum mismatch\n", "Error:Printer halted\n",
                "ALARM:%d\n" % rng.randint(1, 9), "!! thermal runaway\n",
                "error: X:%s out of range\n" % number(), "alarm\n",
            ])
            return {"events": chatter() + [("recv", reply)]}
        if r < 0.76:
            return {"events": chatter() + [
                ("offline", ""), ("error", "Can't read from printer")]}
        if r < 0.81:
            return {"events": [("offline", ""), ("recv", ack_line())]}
        if r < 0.85:
            return {"events": [("error", "Can't write to printer")]}
        if r < 0.89:
            return {"raise": True, "events": []}
        if r < 0.94:
            return {"events": [("busy", str(rng.randint(1, 4))),
                               ("queued", str(rng.randint(0, 1))),
                               ("recv", ack_line())]}
        # several acknowledgements / a late reading before the ack
        return {"events": [("recv", status_line() + "\n"),
                           ("recv", "ok " + reading() + "\n")]}

    def statement():
        r = rng.random()
        if r < 0.8:
            words = [rng.choice(["G0", "G1", "M105", "M114", "G28", "?",
                                 "M400", "G38.2", "T1", ";c"])]
            for axis in rng.sample("XYZEFS", rng.randint(0, 3)):
                words.append(axis + number())
            tail = rng.choice(["\n", "\n", "\r\n", "", "  \n", " ; note\n"])
            return (rng.choice(["", "", " "]) + " ".join(words) + tail).encode()
        return rng.choice([b"", b"\n", b"   ", b"\xff\xfe", "G1 X1\n", None,
                           5, bytearray(b"G1 Y2\n"), b"G1 X1\nG1 X2\n",
                           "M3 Sé\n".encode("utf-8")])

    PROBES = ("X", "y", "Z", "A", "E", "F", "S", "T", "B", "t", "1", "MPos")

    for session in range(60):
        journal, plan = [], []
        FakePrintcore.journal, FakePrintcore.plan = journal, plan
        FakePrintcore.latency = session % 3 == 2
        FakePrintcore.connect_mode = "ok" if session % 10 else rng.choice(
            ["raise", "noprinter", "silent", "greeting-error"])

        kind = session % 4
        if kind == 0:
            w = SerialWriter("/dev/fake%d" % session, 115200)
            inner = w._writer_delegate
        elif kind == 1:
            w = SocketWriter("fakehost", 8000 + session)
            inner = w._writer_delegate
        elif kind == 2:
            w = inner = new_writer(Translating)
        else:
            w = inner = new_writer(PrintrunWriter)

        inner.set_timeout(0.05)
        record = ["C", session, type(w).__name__, FakePrintcore.connect_mode,
                  FakePrintcore.latency]
        steps = []

        if rng.random() < 0.4:
            steps.append(["connect", call(w.connect), snapshot(inner)])
            FakePrintcore.connect_mode = "ok"

        for i in range(rng.randint(3, 12)):
            plan[:] = [behaviour()]
            data = statement()

            if rng.random() < 0.04:
                steps.append(["signal", call(inner._on_shutdown_signal, 15, None),
                              snapshot(inner)])

            outcome = call(w.write, data)

            if inner._device is not None:
                inner._device._join()

            steps.append([
                "write", show(data), outcome, snapshot(inner),
                [repr(w.get_parameter(p)) for p in PROBES],
                call(lambda: inner.has_pending_operations),
            ])
            FakePrintcore.connect_mode = "ok"

        if inner._device is not None and rng.random() < 0.5:
            inner._device.busy = rng.randint(0, 3)
            inner._device.queued = rng.randint(0, 2)

        wait = rng.choice([True, True, False, 1, 0, None, "yes"])
        if type(w) is PrintrunWriter or type(w) is Translating:
            steps.append(["disconnect", repr(wait),
                          call(w.disconnect, wait), snapshot(inner)])
        else:
            steps.append(["disconnect", "default",
                          call(w.disconnect), snapshot(inner)])

        steps.append(["again", call(w.disconnect), snapshot(inner)])
        record += [steps, list(journal), capture.drain()]
        transcript.append(record)

    # -- context manager use ---------------------------------------------

    FakePrintcore.journal, FakePrintcore.plan = [], []
    FakePrintcore.latency, FakePrintcore.connect_mode = False, "ok"

    def managed():
        with new_writer(mode="serial") as w:
            FakePrintcore.plan[:] = [
                {"events": [("recv", "ok T:200\n")]},
                {"events": [("recv", "error: nope\n")]},
            ]
            w.write(b"M105\n")
            first = repr(w.get_parameter("T"))
            try:
                w.write(b"G1 X1\n")
            finally:
                FakePrintcore.journal.append(["value", first])

    transcript.append(["D", call(managed), list(FakePrintcore.journal),
                       capture.drain()])

    json.dump(transcript, sys.stdout, sort_keys=True)
    sys.stdout.write("\n")


# ---------------------------------------------------------------------
# Parent
# ---------------------------------------------------------------------

def run(root):
    env = dict(os.environ)
    env["PYTHONPATH"] = root
    env["PYTHONHASHSEED"] = "0"
    env["PYTHONDONTWRITEBYTECODE"] = "1"
    proc = subprocess.run(
        [sys.executable, os.path.abspath(__file__), "--child", root],
        env=env, cwd=os.path.dirname(os.path.abspath(__file__)),
        stdin=subprocess.DEVNULL, stdout=subprocess.PIPE,
        stderr=subprocess.PIPE, timeout=300, text=True)
    if proc.returncode != 0:
        sys.stderr.write(proc.stderr)
        raise SystemExit("child for %s failed (%d)" % (root, proc.returncode))
    return json.loads(proc.stdout)


def main():
    reference = run(REFERENCE)
    refactored = run(REFACTORED)

    # the harness itself must be deterministic, otherwise a comparison
    # between the two trees would be meaningless
    assert run(REFERENCE) == reference, "harness is not deterministic"

    assert len(reference) == len(refactored), (
        len(reference), len(refactored))

    for index, (a, b) in enumerate(zip(reference, refactored)):
        if a != b:
            print("MISMATCH at record", index)
            print(" reference :", json.dumps(a)[:3000])
            print(" refactored:", json.dumps(b)[:3000])
            raise SystemExit(1)

    assert reference == refactored

    kinds = {}
    for rec in reference:
        kinds[rec[0]] = kinds.get(rec[0], 0) + 1

    acks = sum(1 for r in reference if r[0] == "A" and r[5]["ack"])
    errors = sum(1 for r in reference if r[0] == "A" and r[5]["error"])
    writes = sum(1 for r in reference if r[0] == "C"
                 for s in r[5] if s[0] == "write")
    raised = sum(1 for r in reference if r[0] == "C"
                 for s in r[5] if s[0] == "write" and s[2][0] == "raise")
    logs = sum(len(r[-1][0]) + len(r[-1][1]) for r in reference)

    print("records per part:", kinds)
    print("part A: %d acknowledged, %d with error" % (acks, errors))
    print("part C: %d writes, %d raised" % (writes, raised))
    print("log records compared:", logs)
    print("IDENTICAL transcripts (%d records)" % len(reference))


if __name__ == "__main__":
    if len(sys.argv) == 3 and sys.argv[1] == "--child":
        child(sys.argv[2])
    else:
        main()
