#!/usr/bin/env python
"""Differential check for the C17 refactoring of gscrib/printrun/device.py.

Runs the same seeded scenario driver against the reference tree (/repo) and
the refactored tree (/tmp/wtV-C17), each in its own subprocess, and asserts
that the two transcripts (every call made on the in-process fake socket /
socket file / selector / serial port, every return value, exception type and
message, and the device state after every step) are identical.

No real hardware or network is used: socket.socket, selectors.DefaultSelector,
serial.Serial, os.system and time.sleep are replaced by in-process fakes.
"""

import json
import os
import subprocess
import sys

TREES = {"ref": "/repo",
         "new": os.environ.get("EQUIV_NEW_TREE", "/tmp/wtV-C17")}
SEED = 170317
N_READ = 260
N_CONNECT = 120
N_WRITE = 160
N_DISCONNECT = 120
N_MISC = 120
N_SERIAL = 80
N_CORE = 60


# --------------------------------------------------------------------------
# Driver (runs inside the subprocess with PYTHONPATH pointing at one tree)
# --------------------------------------------------------------------------

def driver():
    import random
    import socket as real_socket
    from unittest import mock

    import serial
    from gscrib.printrun import device
    import importlib
    pc_mod = importlib.import_module("gscrib.printrun.printcore")
    assert hasattr(pc_mod, "PR_EOF")

    assert os.path.realpath(device.__file__).startswith(
        os.path.realpath(os.environ["EQUIV_TREE"]) + os.sep), device.__file__

    out = []          # whole transcript
    log = []          # calls recorded by the fakes in the current scenario

    def rec(*items):
        log.append(repr(items))

    EXC = {
        "OSError": OSError,
        "timeout": real_socket.timeout,
        "ConnectionResetError": ConnectionResetError,
        "BrokenPipeError": BrokenPipeError,
        "RuntimeError": RuntimeError,
        "ValueError": ValueError,
        "KeyError": KeyError,
        "TypeError": TypeError,
        "SerialException": serial.SerialException,
        "SerialTimeout": serial.SerialTimeoutException,
    }

    class Faults:
        """Maps 'object.method' -> list of exception names, consumed in order
        (None means: no failure for that call)."""

        def __init__(self, table=None):
            self.table = {k: list(v) for k, v in (table or {}).items()}

        def hit(self, name):
            queue = self.table.get(name)
            if queue:
                exc = queue.pop(0)
                if exc is not None:
                    rec("raise", name, exc)
                    raise EXC[exc](f"fake {exc} in {name}")

    class FakeSocketFile:
        def __init__(self, faults, script):
            self.faults = faults
            self.script = script   # list of chunks / None / b'' / exc name
            self.closed = False

        def read(self, size):
            rec("file.read", size)
            self.faults.hit("file.read")
            if not self.script:
                return b''
            item = self.script.pop(0)
            if isinstance(item, str):
                rec("raise", "file.read", item)
                raise EXC[item](f"fake {item} in read")
            return item

        def write(self, data):
            rec("file.write", type(data).__name__,
                repr(bytes(data)) if isinstance(data, memoryview)
                else repr(data))
            self.faults.hit("file.write")
            if not isinstance(data, (bytes, bytearray, memoryview)):
                raise TypeError("a bytes-like object is required")
            return len(data)

        def flush(self):
            rec("file.flush")
            self.faults.hit("file.flush")

        def close(self):
            rec("file.close")
            self.faults.hit("file.close")
            self.closed = True

    class FakeSocket:
        def __init__(self, faults, script, family=None, kind=None):
            rec("socket.new", int(family), int(kind))
            faults.hit("socket.new")
            self.faults = faults
            self.script = script
            self.file = None

        def setsockopt(self, *args):
            rec("socket.setsockopt", tuple(int(a) for a in args))
            self.faults.hit("socket.setsockopt")

        def settimeout(self, value):
            rec("socket.settimeout", value)
            self.faults.hit("socket.settimeout")

        def connect(self, address):
            rec("socket.connect", address)
            self.faults.hit("socket.connect")

        def makefile(self, mode, buffering=None):
            rec("socket.makefile", mode, buffering)
            self.faults.hit("socket.makefile")
            self.file = FakeSocketFile(self.faults, self.script)
            return self.file

        def close(self):
            rec("socket.close")
            self.faults.hit("socket.close")

    class FakeSelector:
        def __init__(self, faults, answers):
            rec("selector.new")
            faults.hit("selector.new")
            self.faults = faults
            self.answers = answers

        def register(self, fileobj, events):
            rec("selector.register", type(fileobj).__name__, int(events))
            self.faults.hit("selector.register")

        def unregister(self, fileobj):
            rec("selector.unregister", type(fileobj).__name__)
            self.faults.hit("selector.unregister")

        def select(self, timeout=None):
            rec("selector.select", timeout)
            self.faults.hit("selector.select")
            if self.answers:
                return self.answers.pop(0)
            return []

        def close(self):
            rec("selector.close")
            self.faults.hit("selector.close")

    class FakeSerial:
        def __init__(self, faults, lines, **kwargs):
            rec("serial.new", sorted(kwargs.items()))
            faults.hit("serial.new")
            self.__dict__["faults"] = faults
            self.__dict__["lines"] = lines
            self.__dict__["is_open"] = False

        def __setattr__(self, name, value):
            rec("serial.set", name, value)
            self.faults.hit("serial.set." + name)
            self.__dict__[name] = value

        def open(self):
            rec("serial.open")
            self.faults.hit("serial.open")
            self.__dict__["is_open"] = True

        def close(self):
            rec("serial.close")
            self.faults.hit("serial.close")
            self.__dict__["is_open"] = False

        def readline(self):
            rec("serial.readline")
            self.faults.hit("serial.readline")
            return self.lines.pop(0) if self.lines else b''

        def write(self, data):
            rec("serial.write", type(data).__name__,
                repr(bytes(data)) if isinstance(data, memoryview)
                else repr(data))
            self.faults.hit("serial.write")
            return len(data)

    def state(dev):
        d = dev.__dict__
        st = {
            "port": repr(d.get("port")),
            "baudrate": repr(d.get("baudrate")),
            "type": repr(d.get("_type")),
            "host": repr(d.get("_hostname")),
            "portno": repr(d.get("_port_number")),
            "flag": repr(d.get("_is_connected")),
            "buffer": repr(d.get("_read_buffer")),
            "timeout": repr(d.get("_timeout")),
            "device": type(d.get("_device")).__name__,
            "file": type(d.get("_socketfile")).__name__,
            "selector": type(d.get("_selector")).__name__,
        }
        for prop in ("is_connected", "has_flow_control"):
            try:
                st[prop] = repr(getattr(dev, prop))
            except BaseException as e:  # noqa
                st[prop] = "EXC " + type(e).__name__
        return st

    def call(label, fn, *args):
        """Run one operation and describe its outcome."""
        try:
            result = fn(*args)
            outcome = ("ok", repr(result), type(result).__name__)
        except BaseException as e:  # noqa
            cause = getattr(e, "cause", "<no attr>")
            outcome = (
                "exc", type(e).__name__, str(e), repr(e.args),
                type(cause).__name__ if not isinstance(cause, str) else cause,
                str(cause),
                type(e.__cause__).__name__,
                e.__cause__ is cause,
                type(e.__context__).__name__,
                e.__suppress_context__,
            )
        return [label, outcome]

    def step(dev, label, fn, *args):
        entry = call(label, fn, *args)
        entry.append(list(log))
        del log[:]
        entry.append(state(dev))
        out.append(entry)
        return entry

    class Env:
        """Patches the device module's collaborators with fakes."""

        def __init__(self, faults=None, script=None, answers=None,
                     serial_lines=None):
            self.faults = Faults(faults)
            self.script = script if script is not None else []
            self.answers = answers if answers is not None else []
            self.serial_lines = serial_lines if serial_lines is not None else []
            self.patches = []

        def __enter__(self):
            faults, script, answers = self.faults, self.script, self.answers
            lines = self.serial_lines

            def new_socket(family=None, kind=None, *a, **k):
                return FakeSocket(faults, script, family, kind)

            def new_selector():
                return FakeSelector(faults, answers)

            def new_serial(**kwargs):
                return FakeSerial(faults, lines, **kwargs)

            def fake_system(cmd):
                rec("os.system", cmd)
                return 0

            def fake_sleep(secs):
                rec("time.sleep", secs)

            self.patches = [
                mock.patch.object(device.socket, "socket", new_socket),
                mock.patch.object(device.selectors, "DefaultSelector",
                                  new_selector),
                mock.patch.object(device.serial, "Serial", new_serial),
                mock.patch.object(device.os, "system", fake_system),
                mock.patch.object(device.time, "sleep", fake_sleep),
                mock.patch.object(device.platform, "system",
                                  lambda: "Linux"),
            ]
            for p in self.patches:
                p.start()
            return self

        def __exit__(self, *exc):
            for p in reversed(self.patches):
                p.stop()
            return False

    rng = random.Random(SEED)

    HOSTS = ["127.0.0.1", "192.168.0.10", "printer.local", "localhost",
             "256.1.1.1", "a-b.c", "-bad", "bad-", "", "host name",
             "1.2.3", "EXAMPLE.com", "x" * 70]
    PORTS = ["80", "8080", "1", "65535", "0", "65536", "-1", "", "abc",
             " 23 ", "+7", "1_0", "٣", "23.0"]
    SERIALS = ["/dev/ttyUSB0", "COM3", "/any/port:", "a:b:c", ":", "::",
               "http://www.example.com:8080", "/dev/tty:80"]

    def random_port():
        kind = rng.random()
        if kind < 0.6:
            return rng.choice(HOSTS) + ":" + rng.choice(PORTS)
        return rng.choice(SERIALS)

    def random_stream():
        """A byte stream with newlines in random places."""
        pieces = []
        for _ in range(rng.randint(0, 8)):
            kind = rng.random()
            length = rng.choice([0, 0, 1, 2, 5, 17, 255, 256, 257, 600])
            if kind < 0.15:
                body = b"\n" * rng.randint(1, 4)
            elif kind < 0.3:
                body = bytes(rng.randrange(256) for _ in range(length))
            else:
                body = bytes(rng.choice(b"okT: 0123456789.ersnd\r")
                             for _ in range(length))
                if rng.random() < 0.8:
                    body += b"\n"
            pieces.append(body)
        return b"".join(pieces)

    def fragment(stream, with_errors):
        """Cut a stream into packets of 1..256 bytes, interleaved with 'no
        data yet' results, then end-of-stream (or an error)."""
        script = []
        pos = 0
        while pos < len(stream):
            while rng.random() < 0.3:
                script.append(None)
            size = rng.choice([1, 1, 2, 3, 7, 64, 255, 256,
                               rng.randint(1, 256)])
            script.append(stream[pos:pos + size])
            pos += size
        while rng.random() < 0.3:
            script.append(None)
        if with_errors and rng.random() < 0.35:
            where = rng.randint(0, len(script))
            script.insert(where, rng.choice(
                ["OSError", "timeout", "ConnectionResetError", "ValueError"]))
        return script

    # ----------------------------------------------------------------------
    # 1. Socket reads: the C17 property, through the public readline()
    # ----------------------------------------------------------------------
    for i in range(N_READ):
        stream = random_stream()
        script = fragment(stream, with_errors=(i % 3 == 0))
        answers = [rng.choice([[], [], [("key", 1)]])
                   for _ in range(len(script) * 2 + 4)]
        faults = {}
        if i % 11 == 0:
            faults["selector.select"] = [None] * rng.randint(0, 3) + [
                rng.choice(["OSError", "ValueError"])]
        out.append(["READ", i, repr(stream), repr(script)])
        with Env(faults=faults, script=script, answers=answers):
            dev = device.Device()
            step(dev, "connect", dev.connect, "10.0.0.%d:%d" % (i % 250, 1 + i))
            received = []
            for n in range(len(script) * 2 + 12):
                entry = step(dev, "readline", dev.readline)
                if entry[1][0] == "ok" and entry[1][1] not in ("b''", "None"):
                    received.append(entry[1][1])
                if entry[1][0] == "ok" and entry[1][1] == "None" and n % 2:
                    break
            out.append(["READ-LINES", received])
            step(dev, "disconnect", dev.disconnect)
            step(dev, "readline-after", dev.readline)

    # ----------------------------------------------------------------------
    # 2. Connecting, with failures at every stage
    # ----------------------------------------------------------------------
    CONNECT_POINTS = ["socket.new", "socket.setsockopt", "socket.settimeout",
                      "socket.connect", "socket.makefile", "selector.new",
                      "selector.register"]
    CLEANUP_POINTS = ["file.close", "selector.unregister", "selector.close",
                      "socket.close"]
    for i in range(N_CONNECT):
        faults = {}
        if i % 4:
            point = rng.choice(CONNECT_POINTS)
            exc = rng.choice(["OSError", "timeout", "ConnectionResetError",
                              "ValueError", "RuntimeError"])
            skip = rng.randint(0, 1) if point == "socket.settimeout" else 0
            faults[point] = [None] * skip + [exc]
            if rng.random() < 0.4:
                faults[rng.choice(CLEANUP_POINTS)] = [
                    rng.choice(["OSError", "KeyError", "ValueError"])]
        port = random_port() if i % 3 else "10.1.1.1:%d" % (i + 1)
        baud = rng.choice([None, 9600, 115200, 0])
        out.append(["CONNECT", i, port, baud, repr(faults)])
        with Env(faults=faults, script=[b"ok\n", b"tail"]):
            try:
                dev = device.Device(rng.choice([None, port]),
                                    force_dtr=rng.choice([None, True, False]),
                                    parity_workaround=rng.random() < 0.3)
            except BaseException as e:  # noqa
                out.append(["ctor", type(e).__name__, str(e)])
                continue
            out.append(["ctor-state", state(dev)])
            if rng.random() < 0.5:
                step(dev, "connect", dev.connect, port, baud)
            else:
                if rng.random() < 0.5:
                    dev.port = port
                step(dev, "connect()", dev.connect)
            step(dev, "readline", dev.readline)
            step(dev, "write", dev.write, b"G1 X1\n")
            step(dev, "reset", dev.reset)
            if rng.random() < 0.5:
                step(dev, "connect-again", dev.connect, random_port())
            step(dev, "disconnect", dev.disconnect)
            step(dev, "disconnect-again", dev.disconnect)

    # ----------------------------------------------------------------------
    # 3. Socket writes
    # ----------------------------------------------------------------------
    PAYLOADS = [b"", b"G1 X10\n", b"M105\n" * 40, bytearray(b"G28\n"),
                memoryview(b"M114\n"), "G1 X10\n", None, 12, [b"a"],
                bytes(range(256))]
    for i in range(N_WRITE):
        faults = {}
        if i % 3:
            point = rng.choice(["file.write", "file.flush"])
            faults[point] = [None] * rng.randint(0, 2) + [rng.choice(
                ["OSError", "timeout", "BrokenPipeError", "RuntimeError",
                 "ValueError", "TypeError", "ConnectionResetError"])]
        out.append(["WRITE", i, repr(faults)])
        with Env(faults=faults, script=[b"ok\n"]):
            dev = device.Device("printer.local:%d" % (i + 1))
            step(dev, "write-unconnected", dev.write, b"M105\n")
            step(dev, "connect", dev.connect)
            for _ in range(rng.randint(1, 5)):
                step(dev, "write", dev.write, rng.choice(PAYLOADS))
            step(dev, "readline", dev.readline)
            step(dev, "disconnect", dev.disconnect)
            step(dev, "write-after", dev.write, b"M105\n")

    # ----------------------------------------------------------------------
    # 4. Disconnecting, with failures at every stage
    # ----------------------------------------------------------------------
    for i in range(N_DISCONNECT):
        faults = {}
        for point in CLEANUP_POINTS:
            if rng.random() < 0.3:
                faults[point] = [None] * rng.randint(0, 1) + [rng.choice(
                    ["OSError", "timeout", "KeyError", "ValueError",
                     "RuntimeError"])]
        out.append(["DISCONNECT", i, repr(faults)])
        with Env(faults=faults, script=[b"partial"]):
            dev = device.Device()
            step(dev, "disconnect-new", dev.disconnect)
            step(dev, "connect", dev.connect, "192.168.1.%d:23" % (i % 200))
            step(dev, "readline", dev.readline)
            mutate = rng.random()
            if mutate < 0.15:
                dev._socketfile = None
            elif mutate < 0.3:
                dev._selector = None
            elif mutate < 0.4:
                dev._socketfile = None
                dev._selector = None
            for n in range(3):
                step(dev, "disconnect%d" % n, dev.disconnect)
            step(dev, "reset", dev.reset)
            step(dev, "readline", dev.readline)

    # ----------------------------------------------------------------------
    # 5. Dispatch corner cases: no device, odd private state
    # ----------------------------------------------------------------------
    for i in range(N_MISC):
        out.append(["MISC", i])
        with Env(script=[b"a\n", None, b"b"]):
            port = rng.choice([None, random_port()])
            try:
                dev = device.Device(port)
            except BaseException as e:  # noqa
                out.append(["ctor", type(e).__name__, str(e)])
                continue
            out.append(["ctor-state", state(dev)])
            for name in ("readline", "reset", "disconnect"):
                step(dev, name + "-nodev", getattr(dev, name))
            step(dev, "write-nodev", dev.write, b"x")
            step(dev, "connect-noargs", dev.connect)
            # A device object is present but the type is unknown / odd
            odd = rng.choice([None, "", "socket", "serial", "nothing", 3,
                              "Socket", b"socket"])
            dev._device = rng.choice([None, object(), 0, False])
            dev._type = odd
            out.append(["odd", repr(odd), type(dev._device).__name__])
            for name in ("readline", "reset", "disconnect"):
                entry = call(name + "-odd", getattr(dev, name))
                entry.append(list(log))
                del log[:]
                out.append(entry)
            entry = call("write-odd", dev.write, b"x")
            entry.append(list(log))
            del log[:]
            out.append(entry)
            for prop in ("is_connected", "has_flow_control"):
                out.append(call(prop + "-odd", getattr, dev, prop))
            out.append(["private-api", sorted(
                n for n in dir(device.Device)
                if not n.startswith("_"))])

    # ----------------------------------------------------------------------
    # 6. Serial connections through the same public entry points
    # ----------------------------------------------------------------------
    SERIAL_POINTS = ["serial.new", "serial.open", "serial.close",
                     "serial.readline", "serial.write", "serial.set.dtr",
                     "serial.set.port", "serial.set.parity"]
    for i in range(N_SERIAL):
        faults = {}
        if i % 3:
            point = rng.choice(SERIAL_POINTS)
            faults[point] = [None] * rng.randint(0, 2) + [rng.choice(
                ["SerialException", "SerialTimeout", "OSError", "ValueError"])]
        out.append(["SERIAL", i, repr(faults)])
        lines = [b"start\n", b"", b"ok T:20\n", b"no newline"]
        with Env(faults=faults, serial_lines=lines):
            dev = device.Device(force_dtr=rng.choice([None, True, False]),
                                parity_workaround=rng.random() < 0.5)
            step(dev, "connect", dev.connect, rng.choice(SERIALS),
                 rng.choice([None, 250000]))
            for _ in range(rng.randint(1, 6)):
                op = rng.choice(["readline", "write", "reset"])
                if op == "write":
                    step(dev, op, dev.write, rng.choice(PAYLOADS[:5]))
                else:
                    step(dev, op, getattr(dev, op))
            step(dev, "disconnect", dev.disconnect)
            step(dev, "disconnect", dev.disconnect)

    # ----------------------------------------------------------------------
    # 7. The vendored sender reading through Device (no threads started)
    # ----------------------------------------------------------------------
    for i in range(N_CORE):
        stream = random_stream()
        script = fragment(stream, with_errors=(i % 4 == 0))
        answers = [rng.choice([[], [("key", 1)]])
                   for _ in range(len(script) * 2 + 4)]
        out.append(["CORE", i, repr(stream), repr(script)])
        with Env(script=script, answers=answers):
            core = pc_mod.printcore()
            errors = []
            received = []
            core.errorcb = errors.append
            core.recvcb = received.append
            dev = device.Device()
            step(dev, "connect", dev.connect, "10.9.8.7:%d" % (i + 1))
            core.printer = dev
            core.port, core.baud = dev.port, dev.baudrate
            for n in range(len(script) * 2 + 8):
                entry = step(dev, "core._readline", core._readline)
                if core.stop_read_thread:
                    break
            out.append(["CORE-END", received, errors, list(core.log),
                        core.stop_read_thread,
                        repr(core._listen_can_continue())])
            step(dev, "disconnect", dev.disconnect)

    sys.stdout.write(json.dumps(out))
    sys.stdout.flush()


# --------------------------------------------------------------------------
# Controller
# --------------------------------------------------------------------------

def run_tree(name, path):
    env = dict(os.environ)
    env["PYTHONPATH"] = path
    env["EQUIV_TREE"] = path
    env["PYTHONHASHSEED"] = "0"
    env["PYTHONDONTWRITEBYTECODE"] = "1"
    proc = subprocess.run(
        [sys.executable, os.path.abspath(__file__), "--driver"],
        env=env, stdin=subprocess.DEVNULL, stdout=subprocess.PIPE,
        stderr=subprocess.PIPE, timeout=600, cwd="/tmp")
    if proc.returncode != 0:
        sys.stderr.write(proc.stderr.decode(errors="replace"))
        raise SystemExit(f"driver failed for {name} ({path})")
    return json.loads(proc.stdout.decode())


def main():
    transcripts = {name: run_tree(name, path) for name, path in TREES.items()}
    ref, new = transcripts["ref"], transcripts["new"]
    for index, (a, b) in enumerate(zip(ref, new)):
        if a != b:
            print("MISMATCH at entry", index)
            print(" ref:", json.dumps(a)[:3000])
            print(" new:", json.dumps(b)[:3000])
            for back in range(max(0, index - 3), index):
                print(" ctx:", json.dumps(ref[back])[:600])
            raise SystemExit(1)
    assert len(ref) == len(new), (len(ref), len(new))
    assert ref == new

    # Sanity: the transcript is not vacuous
    kinds = {}
    outcomes = {}
    for entry in ref:
        kinds[entry[0]] = kinds.get(entry[0], 0) + 1
        if (len(entry) > 1 and isinstance(entry[1], list) and entry[1]
                and entry[0] not in ("READ-LINES", "CORE-END", "private-api")
                and entry[1][0] in ("ok", "exc")):
            key = entry[1][0] if entry[1][0] == "ok" else (
                "exc:" + str(entry[1][1]))
            outcomes[key] = outcomes.get(key, 0) + 1
    print("entries:", len(ref))
    print("kinds:", json.dumps(kinds, sort_keys=True))
    print("outcomes:", json.dumps(outcomes, sort_keys=True))
    assert kinds.get("readline", 0) > 1000
    assert outcomes.get("exc:DeviceError", 0) > 100
    assert outcomes.get("ok", 0) > 1000

    # Sanity: in error-free READ scenarios the delivered lines are the stream
    checked = 0
    i = 0
    while i < len(ref):
        entry = ref[i]
        if entry[0] == "READ":
            stream = eval(entry[2])
            script = eval(entry[3])
            j = i + 1
            while ref[j][0] != "READ-LINES":
                j += 1
            clean = (not any(isinstance(x, str) for x in script)
                     and not any(e[1][0] == "exc" for e in ref[i + 1:j]))
            if clean:
                lines = [eval(x) for x in ref[j][1]]
                assert b"".join(lines) == stream, (stream, lines)
                assert all(l.endswith(b"\n") for l in lines[:-1])
                checked += 1
            i = j
        i += 1
    print("clean read scenarios verifying the property:", checked)
    assert checked > 100
    print("EQUIVALENT: transcripts identical")


if __name__ == "__main__":
    if "--driver" in sys.argv:
        driver()
    else:
        main()
