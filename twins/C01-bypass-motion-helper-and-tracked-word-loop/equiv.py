#!/venv/bin/python
"""Differential check: /repo (original) vs /tmp/wtW-C01 (refactored).

Runs the same seeded driver in two subprocesses, one per tree, and
asserts that the transcripts (emitted lines, state, return values and
exception type names) are byte-identical. Exits 0 on success.
"""

import hashlib
import os
import subprocess
import sys

TREES = {"orig": "/repo", "refac": "/tmp/wtW-C01"}

DRIVER = r'''
import math, random, sys, logging
import numpy as np
import gscrib
from gscrib import GCodeBuilder, GCodeCore
from gscrib.geometry import Point
from gscrib.writers import BaseWriter
from gscrib.excepts import DeviceError, GCodeError

logging.disable(logging.CRITICAL)
assert gscrib.__file__.startswith(sys.argv[1]), gscrib.__file__

OUT = []

import re
ADDR = re.compile(r" at 0x[0-9a-f]+")

def emit(*items):
    OUT.append(ADDR.sub("", " | ".join(str(i) for i in items)))


class FakeWriter(BaseWriter):
    """In-process writer; optionally fails on the n-th write."""

    def __init__(self, tag, fail_at=None, fail_with=None):
        self.tag = tag
        self.count = 0
        self.fail_at = fail_at
        self.fail_with = fail_with

    def connect(self):
        return self

    def disconnect(self, wait=True):
        emit("W", self.tag, "disconnect", wait)

    def flush(self):
        emit("W", self.tag, "flush")

    def write(self, statement):
        self.count += 1
        if self.fail_at is not None and self.count == self.fail_at:
            emit("W", self.tag, "FAIL", self.fail_with.__name__)
            raise self.fail_with("boom")
        emit("W", self.tag, repr(statement))


def snapshot(g):
    items = [tuple(g.position), g.distance_mode.value]
    for name in ("F", "S", "X", "Y", "Z", "E", "f", "q"):
        items.append(g.get_parameter(name))
    if isinstance(g, GCodeBuilder):
        s = g.state
        items += [tuple(s.position), s.feed_rate, s.tool_power,
                  s.distance_mode.value, s.halt_mode.value, s.resolution]
        items.append(s.get_parameter("F"))
    return repr(items)


def call(g, label, fn, *args, **kwargs):
    try:
        result = fn(*args, **kwargs)
        emit("OK", label, repr(args), repr(sorted(kwargs.items(), key=str)),
             "->", repr(result))
    except BaseException as e:  # record the type and the cause type
        cause = type(e.__cause__).__name__ if e.__cause__ else None
        emit("EXC", label, repr(args), repr(sorted(kwargs.items(), key=str)),
             type(e).__name__, cause)
    emit("S", snapshot(g))


SPECIALS = [0, 0.0, -0.0, 1, -1, 1e-7, -1e-7, 123456.789, 1e21,
            float("nan"), float("inf"), float("-inf"), None,
            np.float64(2.5), np.int64(3), "7", True]


def coord(rng, bad=0.08):
    r = rng.random()
    if r < bad:
        return rng.choice(SPECIALS)
    if r < 0.3:
        return rng.randint(-50, 50)
    return round(rng.uniform(-100, 100), rng.randint(0, 7))


def axes_kwargs(rng):
    kw = {}
    for name in ("x", "y", "z"):
        if rng.random() < 0.55:
            kw[rng.choice((name, name.upper()))] = coord(rng)
    return kw


def extra_kwargs(rng):
    kw = {}
    r = rng.random()
    if r < 0.25:
        kw[rng.choice(("F", "f"))] = rng.choice(
            [100, 1500.5, 0, -3, None, "fast", float("nan"), 5000, True])
    r = rng.random()
    if r < 0.2:
        kw[rng.choice(("S", "s"))] = rng.choice(
            [0, 10, 255.5, -1, None, "x", float("inf"), 2000])
    if rng.random() < 0.1:
        kw["E"] = rng.choice([0.5, 1, None, "e"])
    if rng.random() < 0.12:
        kw["comment"] = rng.choice(["hello", "", "  ", "a (b) ; c", None, 5])
    if rng.random() < 0.03:
        kw["point"] = (1, 2)
    return kw


def point_arg(rng):
    r = rng.random()
    if r < 0.35:
        return Point(*(coord(rng, 0.05) if rng.random() < 0.7 else None
                       for _ in range(3)))
    if r < 0.5:
        return [coord(rng, 0.02) for _ in range(rng.choice((2, 3, 3, 4, 1, 0)))]
    if r < 0.6:
        return np.array([rng.uniform(-9, 9) for _ in range(rng.choice((2, 3)))])
    if r < 0.65:
        return rng.choice(["abc", 5, (None, None, None), ("1", 2, 3)])
    return None


def extrude_hook(origin, target, params, state):
    dt = target - origin
    params.update(E=round(0.1 * math.hypot(dt.x, dt.y), 4))
    return params


def dict_hook(origin, target, params, state):
    # returns a plain (case-sensitive) dict instead of a ParamsDict
    out = dict(params)
    out["F"] = 900
    return out


def bad_hook(origin, target, params, state):
    raise KeyError("hook failure")


def motion_op(g, rng, depth=0):
    is_builder = isinstance(g, GCodeBuilder)
    ops = ["move", "rapid", "move_absolute", "rapid_absolute", "set_axis",
           "mode", "to_distance_mode", "to_distance_mode", "ctx"]
    if is_builder:
        ops += ["auto_home", "probe", "polyline", "parametric", "shape",
                "auto_home", "probe", "polyline", "parametric", "shape",
                "hook", "bounds", "resolution"]
    op = rng.choice(ops)

    if op in ("move", "rapid", "move_absolute", "rapid_absolute",
              "set_axis", "auto_home"):
        pt = point_arg(rng)
        kw = {**extra_kwargs(rng)}
        if pt is None or rng.random() < 0.15:
            kw.update(axes_kwargs(rng))
        call(g, op, getattr(g, op), pt, **kw)
    elif op == "probe":
        mode = rng.choice(["towards", "away", "towards-no-error",
                           "away-no-error", "bogus", None])
        pt = point_arg(rng)
        kw = {**extra_kwargs(rng)}
        if pt is None:
            kw.update(axes_kwargs(rng))
        call(g, op, g.probe, mode, pt, **kw)
    elif op == "mode":
        call(g, op, g.set_distance_mode,
             rng.choice(["absolute", "relative", "relative", "nope"]))
    elif op == "to_distance_mode":
        arg = rng.choice([point_arg(rng), Point(coord(rng), None, coord(rng)),
                          Point.unknown(), Point(1, 2, 3)])
        call(g, op, g.to_distance_mode, arg)
    elif op == "ctx":
        if depth >= 3:
            return
        cm = rng.choice((g.absolute_mode, g.relative_mode))
        emit("CTX-ENTER", cm.__name__)
        try:
            with cm():
                emit("S", snapshot(g))
                for _ in range(rng.randint(0, 4)):
                    motion_op(g, rng, depth + 1)
                if rng.random() < 0.15:
                    raise RuntimeError("escape")
        except Exception as e:
            emit("CTX-ESCAPE", type(e).__name__,
                 type(e.__cause__).__name__ if e.__cause__ else None)
        emit("CTX-EXIT")
        emit("S", snapshot(g))
    elif op == "polyline":
        n = rng.choice((0, 1, 2, 3, 5))
        targets = [
            rng.choice([
                Point(coord(rng, 0.03), coord(rng, 0.03), coord(rng, 0.03)),
                (coord(rng, 0.03), coord(rng, 0.03)),
                Point(None, coord(rng, 0.03), None),
                [coord(rng, 0.0), coord(rng, 0.0), coord(rng, 0.0)],
            ]) for _ in range(n)
        ]
        if rng.random() < 0.08:
            targets = rng.choice(["xyz", None, [5], [(1, 2, 3, 4)]])
        call(g, op, g.trace.polyline, targets, **extra_kwargs(rng))
    elif op == "parametric":
        a, b, c = (rng.uniform(-20, 20) for _ in range(3))
        kind = rng.random()
        if kind < 0.6:
            def fn(t, a=a, b=b, c=c):
                return np.column_stack((a * np.cos(6 * t), b * np.sin(6 * t), c * t))
        elif kind < 0.75:
            def fn(t, a=a, b=b):
                return np.column_stack((a * t, b * t * t))
        elif kind < 0.85:
            def fn(t, a=a):  # four columns: fails lazily at the first point
                return np.column_stack((a * t, t, t, t))
        elif kind < 0.92:
            def fn(t):  # tiny outputs
                return np.zeros((len(t), 3))[:rng.choice((0, 1))]
        else:
            def fn(t, a=a):  # nan half way
                pts = np.column_stack((a * t, t, t))
                pts[len(pts) // 2:, 0] = np.nan
                return pts
        length = rng.choice([rng.uniform(0.5, 8), 0, -1, 0.3, 2, float("nan"), "3"])
        call(g, op, g.trace.parametric, fn, length, **extra_kwargs(rng))
    elif op == "shape":
        which = rng.choice(["arc", "arc_radius", "circle", "spline", "helix",
                            "thread", "spiral"])
        p = lambda: (rng.randint(-8, 8), rng.randint(-8, 8))
        p3 = lambda: (rng.randint(-8, 8), rng.randint(-8, 8), rng.randint(-3, 3))
        kw = extra_kwargs(rng)
        t = g.trace
        if which == "arc":
            c = p(); r = Point(*c)
            call(g, which, t.arc, rng.choice([p(), p3(), (c[0] * 2, c[1] * 2)]), c, **kw)
        elif which == "arc_radius":
            call(g, which, t.arc_radius, p3(), rng.choice([5, -6, 12.5, 0, 0.1]), **kw)
        elif which == "circle":
            call(g, which, t.circle, rng.choice([p(), (0, 0), p3()]), **kw)
        elif which == "spline":
            call(g, which, t.spline, [p3() for _ in range(rng.choice((0, 1, 2, 4)))], **kw)
        elif which == "helix":
            call(g, which, t.helix, p3(), p(), rng.choice((1, 2, 0, -1)), **kw)
        elif which == "thread":
            call(g, which, t.thread, p3(), rng.choice((1, 0.5, 0, -2)), **kw)
        else:
            call(g, which, t.spiral, p(), rng.choice((1, 2, 0)), **kw)
    elif op == "hook":
        hook = rng.choice((extrude_hook, extrude_hook, dict_hook, bad_hook))
        if rng.random() < 0.5:
            call(g, "add_hook", g.add_hook, hook)
        else:
            call(g, "remove_hook", g.remove_hook, hook)
    elif op == "bounds":
        which = rng.random()
        if which < 0.4:
            lo = rng.randint(-120, 0); hi = rng.randint(0, 120)
            call(g, op, g.set_bounds, "axes", (lo, lo, lo), (hi, hi, hi))
        elif which < 0.7:
            call(g, op, g.set_bounds, "feed-rate", rng.choice((0, 50, 200)),
                 rng.choice((1000, 2000, 100000)))
        else:
            call(g, op, g.set_bounds, "tool-power", rng.choice((0, 5)),
                 rng.choice((100, 1000)))
    elif op == "resolution":
        call(g, op, g.set_resolution, rng.choice((0.1, 0.5, 1.0, 2.5)))


def session(seed):
    rng = random.Random(seed)
    emit("=== session", seed)
    cls = GCodeBuilder if rng.random() < 0.8 else GCodeCore
    config = {"decimal_places": rng.choice((0, 2, 5, 5, 8)),
              "line_endings": rng.choice(("os", "\\n", "\\r\\n"))}
    g = cls(config)
    fail = None
    if rng.random() < 0.2:
        fail = (rng.randint(2, 25),
                rng.choice((DeviceError, GCodeError, OSError, ValueError)))
    g.add_writer(FakeWriter("a", *(fail or (None, None))))
    if rng.random() < 0.3:
        g.add_writer(FakeWriter("b"))
    emit("S", snapshot(g))
    for _ in range(rng.randint(15, 35)):
        motion_op(g, rng)
    call(g, "flush", g.flush)
    call(g, "teardown", g.teardown)


for seed in range(int(sys.argv[2])):
    session(seed)

sys.stdout.write("\n".join(OUT) + "\n")
'''


def run(tree: str, sessions: int) -> str:
    env = dict(os.environ)
    env["PYTHONPATH"] = tree
    env["PYTHONHASHSEED"] = "0"
    env["PYTHONDONTWRITEBYTECODE"] = "1"
    proc = subprocess.run(
        [sys.executable, "-c", DRIVER, tree, str(sessions)],
        env=env, cwd="/tmp/twin4-C01", stdin=subprocess.DEVNULL,
        capture_output=True, text=True, timeout=800,
    )
    if proc.returncode != 0:
        sys.stderr.write(proc.stderr[-4000:])
        raise SystemExit(f"driver failed on {tree}")
    return proc.stdout


def main() -> int:
    sessions = int(sys.argv[1]) if len(sys.argv) > 1 else 120
    outs = {name: run(tree, sessions) for name, tree in TREES.items()}
    a, b = outs["orig"].splitlines(), outs["refac"].splitlines()

    for i, (la, lb) in enumerate(zip(a, b)):
        if la != lb:
            print(f"MISMATCH at line {i}:\n  orig : {la}\n  refac: {lb}")
            return 1

    if len(a) != len(b):
        print(f"MISMATCH: transcript lengths differ {len(a)} vs {len(b)}")
        return 1

    ok = sum(1 for l in a if l.startswith("OK"))
    exc = sum(1 for l in a if l.startswith("EXC"))
    wr = sum(1 for l in a if l.startswith("W "))
    digest = hashlib.sha256(outs["orig"].encode()).hexdigest()[:16]
    print(f"IDENTICAL: {len(a)} transcript lines, {ok} ok calls, "
          f"{exc} raising calls, {wr} writer events, sha256 {digest}")
    kinds = {}
    for l in a:
        if l.startswith("EXC"):
            parts = l.split(" | ")
            key = (parts[1], parts[-2])
            kinds[key] = kinds.get(key, 0) + 1
    print("exception kinds:", sorted(kinds.items())[:60])
    return 0


if __name__ == "__main__":
    sys.exit(main())
