#!/venv/bin/python
"""Differential check: /repo (original) vs /tmp/wtW-C10 (refactored).

Run without arguments: spawns one subprocess per tree (PYTHONPATH set to
that tree), each producing a JSON transcript on stdout, then compares them.
With the argument "child" it produces the transcript for whatever gscrib
is importable.
"""

import json
import subprocess
import sys

TREES = ("/repo", "/tmp/wtW-C10")


def child():
    import math
    import random

    import numpy as np
    import gscrib
    from gscrib import GCodeBuilder
    from gscrib.enums import Direction
    from gscrib.geometry import Point
    from gscrib.writers.base_writer import BaseWriter

    rng = random.Random(20261005)
    log = []

    def rec(*items):
        log.append(repr(items))

    class FakeWriter(BaseWriter):
        def __init__(self):
            self.lines = []

        def connect(self):
            return self

        def disconnect(self, wait=True):
            pass

        def write(self, statement):
            self.lines.append(bytes(statement).hex())

    def attempt(label, fn):
        try:
            result = fn()
            rec(label, "ok", repr(result), type(result).__name__)
        except BaseException as e:  # noqa
            rec(label, "exc", type(e).__name__, str(e))

    # ---------------------------------------------------------------
    # 1. Point arithmetic, resolve, replace
    # ---------------------------------------------------------------

    specials = [None, 0, 0.0, -0.0, 1, -1, 2.5, -3.25, 1e-9, 1e300,
                float("inf"), float("-inf"), float("nan"),
                np.float64(1.5), np.float64(-0.0), np.int64(3),
                np.float32(0.1), True]

    class OnlyX:
        x = 1.0

        def __repr__(self):
            return "OnlyX()"

    class XYZ:
        def __init__(self, x, y, z):
            self.x, self.y, self.z = x, y, z

        def __repr__(self):
            return "XYZ(%r, %r, %r)" % (self.x, self.y, self.z)

    def rnd_coord():
        r = rng.random()
        if r < 0.35:
            return rng.choice(specials)
        if r < 0.7:
            return rng.uniform(-100, 100)
        return rng.randint(-50, 50)

    def rnd_point():
        return Point(rnd_coord(), rnd_coord(), rnd_coord())

    others = [OnlyX(), (1, 2, 3), [1, 2, 3], None, 5, "abc",
              XYZ(1, None, 2), XYZ("a", 1, 2), np.array([1.0, 2.0, 3.0])]
    scalars = specials + ["a", (1,), [2], Point(1, 2, 3),
                          np.array([1.0, 2.0]), 0j]

    for i in range(400):
        p = rnd_point()
        q = rnd_point() if rng.random() < 0.85 else rng.choice(others)
        if rng.random() < 0.1:
            q = XYZ(rnd_coord(), rnd_coord(), rnd_coord())
        k = rng.choice(scalars) if rng.random() < 0.5 else rng.uniform(-5, 5)
        rec("P", i, repr(p), repr(q), repr(k))
        attempt("add", lambda: p + q)
        attempt("sub", lambda: p - q)
        attempt("mul", lambda: p * k)
        attempt("rmul", lambda: k * p)
        attempt("div", lambda: p / k)
        attempt("neg", lambda: -p)
        attempt("resolve", lambda: p.resolve())
        a, b, c = rnd_coord(), rnd_coord(), rnd_coord()
        attempt("replace3", lambda: p.replace(a, b, c))
        attempt("replace2", lambda: p.replace(a, b))
        attempt("replace_kw", lambda: p.replace(z=c, x=a))
        attempt("replace0", lambda: p.replace())
        attempt("replace4", lambda: p.replace(a, b, c, a))
        attempt("from_vector", lambda: Point.from_vector(
            np.array([rng.uniform(-9, 9) for _ in range(4)])))
        # signed zero must be preserved exactly
        attempt("signs", lambda: [
            math.copysign(1, v) if isinstance(v, (int, float)) else None
            for v in p.resolve()])

    # ---------------------------------------------------------------
    # 2. Direction.full_turn
    # ---------------------------------------------------------------

    for name in ("cw", "ccw", "clockwise", "counter", "bogus", None, 3):
        attempt(("full_turn", name),
                lambda: Direction(name).full_turn().hex())
    for member in Direction:
        attempt(("full_turn_m", member.name),
                lambda: (member.full_turn().hex(),
                         type(member.full_turn()).__name__))

    # ---------------------------------------------------------------
    # 3. Tracer operations through the builder
    # ---------------------------------------------------------------

    def snapshot(g, w):
        st = g.state
        out = {
            "lines": list(w.lines),
            "position": repr(g.position),
            "direction": repr(st.direction),
            "resolution": repr(st.resolution),
            "distance_mode": repr(st.distance_mode),
        }
        w.lines.clear()
        return out

    def rnd_val(lo=-8, hi=8):
        r = rng.random()
        if r < 0.08:
            return rng.choice([0, 0.0, -0.0, 1, -1])
        if r < 0.5:
            return round(rng.uniform(lo, hi), rng.randint(0, 4))
        return rng.uniform(lo, hi)

    def rnd_target():
        r = rng.random()
        if r < 0.45:
            return (rnd_val(), rnd_val(), rnd_val(-4, 4))
        if r < 0.8:
            return (rnd_val(), rnd_val())
        if r < 0.9:
            return Point(rnd_val(), rnd_val(), rnd_val())
        if r < 0.95:
            return [rnd_val(), rnd_val(), None]
        return rng.choice([(), (1,), (None, None, None), (1, 2, 3, 4),
                           "ab", None, 7, (float("nan"), 1.0),
                           (float("inf"), 0.0, 1.0)])

    bad_numbers = [0, -1, 0.0, -0.0, -2.5, float("nan"), float("inf"),
                   float("-inf"), None, "3", True, 1e-12, 2, 2.0]

    for i in range(320):
        g = GCodeBuilder()
        w = FakeWriter()
        g.add_writer(w)
        rec("T", i)
        try:
            g.set_resolution(rng.choice([0.1, 0.25, 0.5, 1.0, 2.5, 7.0]))
            g.set_direction(rng.choice(["cw", "ccw"]))
            if rng.random() < 0.8:
                g.move(x=rnd_val(), y=rnd_val(), z=rnd_val(-5, 5))
            elif rng.random() < 0.5:
                g.move(x=rnd_val())
            g.set_distance_mode(rng.choice(["absolute", "relative"]))
        except BaseException as e:  # noqa
            rec("setup-exc", type(e).__name__, str(e))
        rec("setup", snapshot(g, w))

        for j in range(rng.randint(1, 3)):
            op = rng.choice(["thread", "thread", "thread", "helix", "spiral",
                             "circle", "arc", "arc_radius", "polyline",
                             "spline", "parametric", "thread_bad",
                             "helix_bad", "parametric_bad"])
            kwargs = rng.choice([{}, {}, {"F": 1200}, {"E": 0.5, "F": 300}])
            tr = g.trace
            if op == "thread":
                tgt = rnd_target()
                pitch = rng.choice([0.5, 1.0, 1, 2.0, 3.3, 25.0, 0.25])
                call = lambda: tr.thread(tgt, pitch, **kwargs)
                desc = (tgt, pitch)
            elif op == "thread_bad":
                tgt = rnd_target()
                pitch = rng.choice(bad_numbers)
                call = lambda: tr.thread(tgt, pitch, **kwargs)
                desc = (tgt, pitch)
            elif op == "helix":
                tgt, ctr = rnd_target(), (rnd_val(), rnd_val())
                turns = rng.randint(1, 4)
                call = lambda: tr.helix(tgt, ctr, turns, **kwargs)
                desc = (tgt, ctr, turns)
            elif op == "helix_bad":
                tgt, ctr = rnd_target(), rnd_target()
                turns = rng.choice(bad_numbers)
                call = lambda: tr.helix(tgt, ctr, turns, **kwargs)
                desc = (tgt, ctr, turns)
            elif op == "spiral":
                tgt = rnd_target()
                turns = rng.choice([1, 2, 3, 0, -1])
                call = lambda: tr.spiral(tgt, turns, **kwargs)
                desc = (tgt, turns)
            elif op == "circle":
                ctr = rng.choice([(rnd_val(), rnd_val()), (0, 0), rnd_target()])
                call = lambda: tr.circle(ctr, **kwargs)
                desc = (ctr,)
            elif op == "arc":
                tgt, ctr = rnd_target(), (rnd_val(), rnd_val())
                call = lambda: tr.arc(tgt, ctr, **kwargs)
                desc = (tgt, ctr)
            elif op == "arc_radius":
                tgt = rnd_target()
                radius = rng.choice([rnd_val(), 30.0, -30.0, 0, 1e-3])
                call = lambda: tr.arc_radius(tgt, radius, **kwargs)
                desc = (tgt, radius)
            elif op == "polyline":
                pts = [rnd_target() for _ in range(rng.randint(0, 5))]
                call = lambda: tr.polyline(pts, **kwargs)
                desc = (pts,)
            elif op == "spline":
                pts = [rnd_target() for _ in range(rng.randint(0, 5))]
                call = lambda: tr.spline(pts, **kwargs)
                desc = (pts,)
            elif op == "parametric":
                a, b = rnd_val(), rnd_val()
                fn = lambda th: np.column_stack(
                    (a * th, b * th * th, np.sin(th)))
                length = rng.choice([1.0, 5.0, 12.5, 40.0])
                call = lambda: tr.parametric(fn, length, **kwargs)
                desc = (a, b, length)
            else:
                fn = lambda th: np.column_stack((th, th, th))
                length = rng.choice(bad_numbers)
                call = lambda: tr.parametric(fn, length, **kwargs)
                desc = (length,)

            rec("op", op, repr(desc), repr(kwargs))
            try:
                ret = call()
                rec("ret", repr(ret))
            except BaseException as e:  # noqa
                rec("exc", type(e).__name__, str(e)[:200])
            rec("after", snapshot(g, w))

    json.dump(log, sys.stdout)


def main():
    procs = [
        subprocess.Popen(
            [sys.executable, __file__, "child"],
            env={"PYTHONPATH": tree, "PATH": "/usr/bin:/bin",
                 "PYTHONDONTWRITEBYTECODE": "1", "PYTHONHASHSEED": "0"},
            cwd="/tmp/twin4-C10", stdin=subprocess.DEVNULL,
            stdout=subprocess.PIPE, stderr=subprocess.DEVNULL, text=True)
        for tree in TREES
    ]
    outputs = []
    for tree, proc in zip(TREES, procs):
        out, _ = proc.communicate(timeout=800)
        if proc.returncode != 0:
            raise SystemExit("child failed for %s" % tree)
        outputs.append(json.loads(out))

    a, b = outputs
    for n, (x, y) in enumerate(zip(a, b)):
        if x != y:
            print("MISMATCH at record", n)
            print("  orig:", x[:600])
            print("  new :", y[:600])
            print("  context:", a[max(0, n - 3):n])
            raise SystemExit(1)
    assert len(a) == len(b), (len(a), len(b))

    ops = sum(1 for r in a if r.startswith("('op'"))
    excs = sum(1 for r in a if r.startswith("('exc'"))
    lines = sum(r.count("', '") for r in a if r.startswith("('after'"))
    print("records=%d tracer_ops=%d tracer_exceptions=%d" % (len(a), ops, excs))
    print("IDENTICAL")


if __name__ == "__main__":
    if sys.argv[1:] == ["child"]:
        child()
    else:
        main()
