#!/usr/bin/env python
"""Differential check for the C13 refactoring (transform state save/restore).

Runs the same seeded scenarios against /repo (reference) and /tmp/wtT-C13
(refactored) in two separate subprocesses and compares the transcripts.

Usage:  /venv/bin/python /tmp/twin-C13/equiv.py          (driver, exit 0 == identical)
        /venv/bin/python /tmp/twin-C13/equiv.py --worker (internal)
"""

import json
import os
import subprocess
import sys

REFERENCE = "/repo"
REFACTORED = os.environ.get("EQUIV_NEW_ROOT", "/tmp/wtT-C13")  # override only for mutation sanity checks
SEED = 130013
SCENARIOS = 320


# ---------------------------------------------------------------------------
# worker
# ---------------------------------------------------------------------------

def worker() -> None:
    import random

    import numpy as np
    import gscrib
    from gscrib import GCodeCore
    from gscrib.geometry import CoordinateTransformer, Point
    from gscrib.writers import BaseWriter

    class Recorder(BaseWriter):
        """In-process fake device: keeps every statement it is given."""

        def __init__(self):
            self.lines = []

        def connect(self):
            return self

        def disconnect(self, wait=True):
            self.lines.append("<disconnect>")

        def write(self, statement):
            self.lines.append(bytes(statement).hex())

    class StrSub(str):
        """Plain str subclass (strip not overridden)."""

    class Boom(Exception):
        pass

    def hexarr(a):
        a = np.asarray(a)
        return [str(a.dtype), list(a.shape), a.tobytes().hex()]

    def dump_transform(t):
        return {
            "matrix": hexarr(t._matrix),
            "inverse": hexarr(t._inverse),
            "pivot": repr(t._pivot),
            "from_pivot": hexarr(t._from_pivot),
            "to_pivot": hexarr(t._to_pivot),
        }

    def dump(tr):
        cur = tr._current_transform
        stack = tr._transforms_stack
        named = tr._named_transforms
        return {
            "current": dump_transform(cur),
            "stack": [dump_transform(t) for t in stack],
            "named": [[repr(k), type(k).__name__, dump_transform(v)]
                      for k, v in named.items()],
            # aliasing between live objects is part of the state
            "alias_stack": [t is cur for t in stack],
            "alias_named": [v is cur for v in named.values()],
            "alias_cross": [[v is t for t in stack] for v in named.values()],
            "alias_arrays": [
                any(v._matrix is t._matrix for t in [cur, *stack])
                for v in named.values()
            ],
            "stack_type": type(stack).__name__,
            "named_type": type(named).__name__,
        }

    def probes(tr, rng):
        out = []
        for _ in range(3):
            p = (rng.uniform(-50, 50), rng.uniform(-50, 50), rng.uniform(-50, 50))
            for fn in (tr.apply_transform, tr.reverse_transform):
                try:
                    q = fn(p)
                    out.append([repr(q), repr(tr.reverse_transform(q))])
                except Exception as e:  # pylint: disable=broad-except
                    out.append(["EXC", type(e).__name__, str(e)])
        return out

    NAMES_VALID = [None, "", " ", "  \t", "\n", "a", " a", "a ", " a ", "b",
                   "b\t", "A", "a b", " a b ", " ", " n ",
                   " ", "0", "None", "café", "x" * 40,
                   StrSub("a"), StrSub(" "), StrSub(""), StrSub(" s ")]
    NAMES_INVALID = [0, 1, 1.5, b"a", b"", ("a",), ["a"], {"a": 1}, True,
                     False, object, float("nan")]

    def pick_name(rng):
        if rng.random() < 0.15:
            return rng.choice(NAMES_INVALID)
        return rng.choice(NAMES_VALID)

    def pick_float(rng):
        r = rng.random()
        if r < 0.06:
            return rng.choice([0, 0.0, -0.0, 1, -1, 1e-12, 1e12, 1e308,
                               float("nan"), float("inf"), -float("inf"),
                               np.float64(2.5), np.int64(3), True, "1", None])
        return rng.uniform(-20, 20)

    def call(log, label, fn, *args, **kwargs):
        try:
            r = fn(*args, **kwargs)
            log.append([label, "ret", repr(r)])
        except Exception as e:  # pylint: disable=broad-except
            log.append([label, "exc", type(e).__name__, str(e)])

    def random_op(rng, g, tr, log, depth):
        kind = rng.choices(
            ["save", "restore", "delete", "translate", "rotate", "scale",
             "reflect", "mirror", "pivot", "move", "ctx_current", "ctx_named",
             "chain"],
            weights=[18, 20, 6, 6, 5, 5, 3, 3, 5, 5, 5, 6, 2],
        )[0]

        if kind == "save":
            name = pick_name(rng)
            if rng.random() < 0.5:
                call(log, f"save({name!r})", tr.save_state, name)
            elif rng.random() < 0.5:
                call(log, f"save(name={name!r})", tr.save_state, name=name)
            else:
                call(log, "save()", tr.save_state)
        elif kind == "restore":
            name = pick_name(rng)
            if rng.random() < 0.5:
                call(log, f"restore({name!r})", tr.restore_state, name)
            elif rng.random() < 0.5:
                call(log, f"restore(name={name!r})", tr.restore_state, name=name)
            else:
                call(log, "restore()", tr.restore_state)
        elif kind == "delete":
            name = pick_name(rng)
            call(log, f"delete({name!r})", tr.delete_state, name)
        elif kind == "translate":
            call(log, "translate", tr.translate, pick_float(rng), pick_float(rng),
                 pick_float(rng))
        elif kind == "rotate":
            axis = rng.choice(["x", "y", "z", "Z", "w", None])
            call(log, "rotate", tr.rotate, pick_float(rng), axis)
        elif kind == "scale":
            n = rng.choice([0, 1, 1, 2, 3, 3, 4])
            call(log, "scale", tr.scale, *[pick_float(rng) for _ in range(n)])
        elif kind == "reflect":
            call(log, "reflect", tr.reflect,
                 [pick_float(rng) for _ in range(rng.choice([2, 3, 3, 4]))])
        elif kind == "mirror":
            call(log, "mirror", tr.mirror, rng.choice(["xy", "yz", "zx", "q"]))
        elif kind == "pivot":
            pt = rng.choice([
                (rng.uniform(-9, 9), rng.uniform(-9, 9), rng.uniform(-9, 9)),
                (1, 2), (None, None, None), Point(1.0, 2.0, 3.0), "ab", 5,
            ])
            call(log, "set_pivot", tr.set_pivot, pt)
        elif kind == "move":
            call(log, "move", g.move, x=round(rng.uniform(-30, 30), 3),
                 y=round(rng.uniform(-30, 30), 3))
        elif kind == "chain":
            m = rng.choice([np.eye(4), np.eye(3), np.zeros((4, 4)), "m"])
            call(log, "chain", tr.chain_transform, m)
        elif kind in ("ctx_current", "ctx_named") and depth < 3:
            raise_in_body = rng.random() < 0.4
            name = pick_name(rng)
            label = f"{kind}({name!r})" if kind == "ctx_named" else kind
            log.append([label, "enter-attempt"])
            try:
                cm = (g.current_transform() if kind == "ctx_current"
                      else g.named_transform(name))
                with cm as inner:
                    log.append([label, "entered", inner is tr, dump(tr)])
                    for _ in range(rng.randint(0, 5)):
                        random_op(rng, g, tr, log, depth + 1)
                    if raise_in_body:
                        raise Boom("body")
                log.append([label, "exit-normal"])
            except Exception as e:  # pylint: disable=broad-except
                log.append([label, "exit-exc", type(e).__name__, str(e)])

    def scenario(index):
        rng = random.Random(SEED * 1000 + index)
        log = []
        rec = Recorder()
        g = GCodeCore()
        g.add_writer(rec)
        # half the scenarios drive a bare transformer, half the one of a builder
        tr = g.transform if index % 2 == 0 else CoordinateTransformer()
        if index % 2:
            g._transformer = tr
        for step in range(rng.randint(5, 40)):
            random_op(rng, g, tr, log, 0)
            log.append(["state", step, dump(tr), probes(tr, rng), list(rec.lines)])
        return log

    def directed():
        """Hand-written corner cases of the two refactored methods."""
        log = []
        for name in NAMES_VALID + NAMES_INVALID:
            tr = CoordinateTransformer()
            # restore on an empty stack / missing key
            call(log, f"d.restore-empty({name!r})", tr.restore_state, name)
            log.append(dump(tr))
            tr.translate(1.0, 2.0, 3.0)
            call(log, f"d.save({name!r})", tr.save_state, name)
            log.append(dump(tr))
            tr.rotate(30.0, "x")
            tr.set_pivot((4.0, 5.0, 6.0))
            tr.scale(2.0, 3.0)
            call(log, f"d.restore({name!r})", tr.restore_state, name)
            log.append(dump(tr))
            # the snapshot must be unaffected by later changes
            tr.translate(7.0, 8.0, 9.0)
            call(log, f"d.restore2({name!r})", tr.restore_state, name)
            log.append(dump(tr))
            call(log, f"d.restore3({name!r})", tr.restore_state, name)
            log.append(dump(tr))
            call(log, f"d.delete({name!r})", tr.delete_state, name)
            call(log, f"d.restore4({name!r})", tr.restore_state, name)
            log.append(dump(tr))
        # signature / API surface
        import inspect
        for meth in ("save_state", "restore_state", "delete_state",
                     "_copy_state", "_revert_state"):
            log.append([meth, str(inspect.signature(
                getattr(CoordinateTransformer, meth)))])
        log.append(sorted(n for n in dir(CoordinateTransformer)
                          if not n.startswith("_")))
        log.append(list(CoordinateTransformer.__slots__))
        tr = CoordinateTransformer()
        call(log, "too-many-args", tr.save_state, "a", "b")
        call(log, "bad-kw", tr.restore_state, nom="a")
        return log

    transcript = {
        "directed": directed(),
        "scenarios": [scenario(i) for i in range(SCENARIOS)],
    }
    json.dump({"file": gscrib.__file__, "transcript": transcript}, sys.stdout)


# ---------------------------------------------------------------------------
# driver
# ---------------------------------------------------------------------------

def run(root: str) -> dict:
    env = dict(os.environ)
    env["PYTHONPATH"] = root
    env["PYTHONDONTWRITEBYTECODE"] = "1"
    env["PYTHONHASHSEED"] = "0"
    proc = subprocess.run(
        [sys.executable, os.path.abspath(__file__), "--worker"],
        env=env, cwd="/tmp", stdin=subprocess.DEVNULL,
        stdout=subprocess.PIPE, stderr=subprocess.PIPE, timeout=600,
        check=False,
    )
    if proc.returncode != 0:
        sys.stderr.write(proc.stderr.decode(errors="replace"))
        raise SystemExit(f"worker for {root} failed ({proc.returncode})")
    data = json.loads(proc.stdout)
    assert data["file"].startswith(root + "/"), (root, data["file"])
    return data["transcript"]


def first_difference(a, b, path="$"):
    if type(a) is not type(b):
        return f"{path}: {a!r} != {b!r}"
    if isinstance(a, dict):
        if a.keys() != b.keys():
            return f"{path}: keys differ"
        for k in a:
            d = first_difference(a[k], b[k], f"{path}.{k}")
            if d:
                return d
        return None
    if isinstance(a, list):
        for i, (x, y) in enumerate(zip(a, b)):
            d = first_difference(x, y, f"{path}[{i}]")
            if d:
                return d
        if len(a) != len(b):
            return f"{path}: lengths {len(a)} != {len(b)}"
        return None
    return None if a == b else f"{path}: {a!r} != {b!r}"


def main() -> int:
    ref = run(REFERENCE)
    new = run(REFACTORED)
    diff = first_difference(ref, new)

    steps = sum(len(s) for s in ref["scenarios"])
    excs = sum(1 for s in ref["scenarios"] for e in s
               if len(e) > 1 and e[1] in ("exc", "exit-exc"))
    lines = sum(len(s[-1][4]) for s in ref["scenarios"] if s)
    print(f"scenarios={len(ref['scenarios'])} records={steps} "
          f"exceptions={excs} emitted_lines={lines} "
          f"directed_records={len(ref['directed'])}")

    if diff is not None:
        print("TRANSCRIPTS DIFFER:", diff)
        return 1

    assert ref == new
    print("OK: transcripts identical")
    return 0


if __name__ == "__main__":
    if "--worker" in sys.argv[1:]:
        worker()
    else:
        sys.exit(main())
