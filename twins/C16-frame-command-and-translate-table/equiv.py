#!/usr/bin/env python
"""Differential check for the C16 refactoring (direct-write delivery).

Parent mode (no arguments): runs this very script as a child in two
subprocesses, one with PYTHONPATH=/repo (reference tree) and one with
PYTHONPATH=/tmp/wtV-C16 (refactored tree), collects the JSON transcript
each prints and asserts that both are identical.  Exit status 0 means
"no observable difference".

Child mode (--child <expected-root>): drives the code with seeded random
inputs and prints a transcript.  Only in-process fakes are used, never
a real serial port or socket.

Phases of the child:
  A  printcore._checksum on random strings and invalid values
  B  printcore._send on a fake printer (framing, sentlines, failures)
  C  printcore._listen run synchronously on scripted device lines
     (resend requests of every shape, greetings, EOF, read errors)
  D  printcore._sendnext run synchronously (numbered lines + resends)
  E  PrintrunWriter on a synchronous fake printcore (write outcomes,
     error replies, lost connection, _abort_on_device_error,
     _connect_device for every mode)
  F  end to end: PrintrunWriter + real printcore threads + fake Device
     (latencies, unsolicited status lines, error replies, EOF)
"""

import json
import os
import subprocess
import sys

REFERENCE = "/repo"
REFACTORED = "/tmp/wtV-C16"
SEED = 20261004


# ----------------------------------------------------------------------
# Parent
# ----------------------------------------------------------------------

def run_parent():
    procs = []

    for root in (REFERENCE, REFACTORED):
        env = dict(os.environ)
        env["PYTHONPATH"] = root
        env["PYTHONDONTWRITEBYTECODE"] = "1"
        env["PYTHONHASHSEED"] = "0"
        procs.append((root, subprocess.Popen(
            [sys.executable, os.path.abspath(__file__), "--child", root],
            stdin=subprocess.DEVNULL, stdout=subprocess.PIPE,
            stderr=subprocess.PIPE, env=env, cwd="/tmp/twin3-C16")))

    transcripts = []

    for root, proc in procs:
        try:
            out, err = proc.communicate(timeout=600)
        except subprocess.TimeoutExpired:
            proc.kill()
            print("TIMEOUT in child for", root)
            return 2

        if proc.returncode != 0:
            print("child for %s failed (%s)" % (root, proc.returncode))
            print(err.decode("utf-8", "replace")[-4000:])
            return 2

        transcripts.append(json.loads(out.decode("utf-8")))

    ref, new = transcripts
    status = 0

    for phase in sorted(set(ref) | set(new)):
        a, b = ref.get(phase), new.get(phase)
        count = len(a) if isinstance(a, list) else 1

        if a == b:
            print("phase %s: identical (%d records)" % (phase, count))
            continue

        status = 1
        print("phase %s: DIFFERENT" % phase)

        if isinstance(a, list) and isinstance(b, list):
            for i, (x, y) in enumerate(zip(a, b)):
                if x != y:
                    print("  first difference at record", i)
                    print("   reference :", json.dumps(x)[:1500])
                    print("   refactored:", json.dumps(y)[:1500])
                    break
            else:
                print("  lengths differ:", len(a), len(b))

    total = sum(len(v) for v in ref.values() if isinstance(v, list))
    print("total records compared:", total)
    assert status == 0, "transcripts differ"
    print("EQUIVALENT")
    return 0


# ----------------------------------------------------------------------
# Child helpers
# ----------------------------------------------------------------------

def norm_text(text):
    """Keep multi-line texts comparable: tracebacks carry tree paths and
    line numbers, so only the first and the last line are kept."""

    text = str(text)
    lines = [l for l in text.splitlines() if l.strip()]

    if len(lines) <= 1:
        return text

    if any(l.lstrip().startswith("File \"") for l in lines):
        return [lines[0], lines[-1]]

    return text


def exc_info(e):
    cause = e.__cause__
    return {
        "type": type(e).__name__,
        "text": norm_text(e),
        "cause": None if cause is None else type(cause).__name__,
        "cause_text": None if cause is None else norm_text(cause),
    }


def safe(value):
    """JSON friendly representation."""

    if value is None or isinstance(value, (bool, int, str)):
        return value
    if isinstance(value, float):
        return repr(value)
    if isinstance(value, bytes):
        return "bytes:" + value.decode("latin-1")
    if isinstance(value, (list, tuple)):
        return [safe(v) for v in value]
    if isinstance(value, dict):
        return {str(k): safe(v) for k, v in sorted(value.items(), key=repr)}
    return type(value).__name__


def run_child(expected_root):
    import logging
    import queue
    import random
    import threading
    import time

    import gscrib
    import gscrib.printrun.printcore
    printcore_module = sys.modules["gscrib.printrun.printcore"]
    from gscrib.printrun import device as device_module
    from gscrib.printrun import gcoder
    from gscrib.printrun.printcore import printcore
    from gscrib.writers import printrun_writer as writer_module
    from gscrib.writers import PrintrunWriter, SerialWriter, SocketWriter
    from gscrib.enums import DirectWrite
    from gscrib import excepts

    root = os.path.realpath(expected_root)
    assert os.path.realpath(gscrib.__file__).startswith(root + os.sep), \
        (gscrib.__file__, expected_root)

    # Log capture, only used while a single thread is running
    class Capture(logging.Handler):
        def __init__(self):
            super().__init__(level=logging.DEBUG)
            self.records = []
            self.enabled = True

        def emit(self, record):
            if self.enabled:
                self.records.append(
                    [record.levelname, norm_text(record.getMessage())])

        def take(self):
            records, self.records = self.records, []
            return records

    logging.getLogger().addHandler(logging.NullHandler())
    capture = Capture()
    gscrib_logger = logging.getLogger("gscrib")
    gscrib_logger.setLevel(logging.DEBUG)
    gscrib_logger.addHandler(capture)
    gscrib_logger.propagate = False

    transcript = {}

    # ------------------------------------------------------------------
    # Shared fakes
    # ------------------------------------------------------------------

    class FakePrinter:
        """Stands for device.Device inside printcore (no threads)."""

        def __init__(self, flow_control=False, truthy=True, failures=(),
                     lines=(), end="eof"):
            self.has_flow_control = flow_control
            self.truthy = truthy
            self.failures = dict(failures)
            self.written = []
            self.lines = list(lines)
            self.end = end
            self.is_connected = True
            self.reads = 0

        def __bool__(self):
            return self.truthy

        def write(self, data):
            index = len(self.written)
            self.written.append(data)
            kind = self.failures.get(index)
            if kind == "device":
                raise device_module.DeviceError("boom %d" % index)
            if kind == "type":
                raise TypeError("not bytes %d" % index)

        def readline(self):
            self.reads += 1
            if self.lines:
                item = self.lines.pop(0)
                if item == "RAISE":
                    raise device_module.DeviceError("read failed %d" % self.reads)
                return item
            if self.end == "eof" or self.reads > 40:
                return device_module.READ_EOF
            if self.end == "drop":
                self.is_connected = False
                return b""
            raise device_module.DeviceError("gone")

        def disconnect(self):
            self.is_connected = False

    class Handler:
        """Event handler that records and fails on demand."""

        def __init__(self, log, fail_on=()):
            self.log = log
            self.fail_on = set(fail_on)
            self.count = 0

        def __getattr__(self, name):
            if not name.startswith("on_"):
                raise AttributeError(name)

            def method(*args):
                self.count += 1
                self.log.append([name, safe([
                    norm_text(a) if isinstance(a, str)
                    else a if isinstance(a, (int, bool, type(None)))
                    else type(a).__name__ for a in args])])
                if self.count in self.fail_on:
                    raise RuntimeError("handler failure")
            return method

    words = ["G1 X10 Y-2.5", "G0 Z5", "M105", "M110 N4", "G4 P0", "M114",
             "G92 E0", "G28", "M104 S200", "?", "$H", "G1 X1 ; note",
             "G1 F1200 X0.001", "T1", "", " ", "M110", "N5 G1*3", "G1 Xabc",
             "G2 X1 Y1 I0.5 J0", "M3 S1000", "été G1", "G1\tX1"]

    def core_state(core):
        return {
            "sent": safe(core.sent[-4:]), "nsent": len(core.sent),
            "sentlines": safe(dict(core.sentlines)),
            "writefailures": core.writefailures,
            "resendfrom": core.resendfrom, "lineno": core.lineno,
            "clear": safe(core.clear), "online": core.online,
            "printing": core.printing, "queueindex": core.queueindex,
            "numbers": core._send_line_numbers,
            "stop_read": core.stop_read_thread,
        }

    # ------------------------------------------------------------------
    # Phase A: checksum
    # ------------------------------------------------------------------

    rng = random.Random(SEED)
    records = []
    core = printcore()
    alphabet = "GMNXYZ0123456789 .-*;:é€\U0001f600\n\t"
    samples = ["", "N0 M110 N-1", "a", "\x00", "N-1 M110 N-1"]
    samples += ["".join(rng.choice(alphabet) for _ in range(rng.randint(1, 40)))
                for _ in range(150)]
    samples += [None, 5, b"N1 G1", ["a", "b"], ("ab", "c"), [], b"", 1.5]

    for sample in samples:
        try:
            records.append(["ok", safe(core._checksum(sample))])
        except Exception as e:
            records.append(["exc", type(e).__name__, str(e)])

    class Summing(printcore):
        # A subclass may still override the checksum as a plain method
        def _checksum(self, command):
            return sum(map(ord, command)) % 256

    summing = Summing()
    summing.printer = None

    for sample in samples[:12]:
        class Sink:
            has_flow_control = False
            def __init__(self): self.data = []
            def write(self, data): self.data.append(data)
        summing.printer = Sink()
        summing._send(sample, 3, True)
        records.append(["override", safe(summing.printer.data),
                        safe(dict(summing.sentlines))])
        capture.take()

    transcript["A_checksum"] = records

    # ------------------------------------------------------------------
    # Phase B: _send
    # ------------------------------------------------------------------

    rng = random.Random(SEED + 1)
    records = []

    for run in range(120):
        core = printcore()
        events = []
        errors = []
        flow = rng.random() < 0.3
        kind = rng.choice(["normal"] * 6 + ["none", "falsy"])
        failures = {i: rng.choice(["device", "device", "type"])
                    for i in range(8) if rng.random() < 0.25}

        if kind == "none":
            core.printer = None
        else:
            core.printer = FakePrinter(flow, kind != "falsy", failures)

        core._send_line_numbers = rng.random() < 0.75
        core.loud = rng.random() < 0.5

        if rng.random() < 0.6:
            core.event_handler.append(Handler(
                events, [n for n in range(1, 9) if rng.random() < 0.2]))

        if rng.random() < 0.6:
            cb = Handler(events, [n for n in range(1, 9) if rng.random() < 0.2])
            core.sendcb = cb.on_sendcb

        if rng.random() < 0.8:
            core.errorcb = lambda msg, errors=errors: errors.append(norm_text(msg))

        steps = []

        for _ in range(rng.randint(1, 6)):
            command = rng.choice(words)
            roll = rng.random()

            if roll < 0.05:
                command = rng.choice([None, b"G1 X1", 7, ["G1"]])

            lineno = rng.choice([0, 1, 2, 3, -1, 10, 99999, -7, "4", None, 2.5])
            args = rng.choice([
                (command,), (command, lineno), (command, lineno, True),
                (command, lineno, True), (command, lineno, False),
                (command, lineno, 1), (command, lineno, "yes")])

            try:
                result = ["ret", safe(core._send(*args))]
            except Exception as e:
                result = ["exc", type(e).__name__, str(e)]

            steps.append({
                "args": safe(list(args)), "result": result,
                "state": core_state(core),
                "written": safe(getattr(core.printer, "written", None)),
                "events": list(events), "errors": list(errors),
                "logs": capture.take(),
            })

        records.append({"run": run, "kind": kind, "flow": flow,
                        "steps": steps})

    transcript["B_send"] = records

    # ------------------------------------------------------------------
    # Phase C: _listen, synchronously
    # ------------------------------------------------------------------

    rng = random.Random(SEED + 2)
    records = []

    fixed_lines = [
        "Resend: N:2", "Resend:2", "Resend: 2", "resend: N12", "RESEND:N:7 ok",
        "rs N2 Expected checksum 67", "rs 3", "rs", "rsN4", "rs N: 5", "rs:6",
        "Resend: N:", "Resend: foo", "Resend: N:-4", "Resend: -4", "Resend: +8",
        "Resend: 1_0", "Resend: 0", "Resend: N:0", "Resend: 00012",
        "Resend: 1.5 3", "Resend: 1e3 4", "Resend: N 9 N 8", "Resend: N:N:11",
        "resend: x N3N4", "Resend: ٣", "Resend: 0x10 17", "Resend:: 21 :",
        "rs 99999999999999999999", "Resend:\t31\t32", "resend", "Resend: N",
        "rsync 44", "rs 45", "Resend: 46 47", "Resend: N:48*12",
        "ok", "ok T:21.5 /0 B:60", "ok N:3", "T:20 ok", "Error: checksum",
        "Error:Line Number is not Last Line Number+1, Last Line: 3",
        "error: 20", "DEBUG_ noise", "DEBUG_Resend: 3", "start", "Grbl 1.1h",
        "echo: Resend: 5", "wait", "", "o", "<Idle|MPos:1,2,3|FS:0,0>",
        "ALARM:1", "!! halt", "N", ":", "N:", "Resend: N:1 N:2 N:3",
    ]

    def random_line():
        if rng.random() < 0.55:
            return rng.choice(fixed_lines)
        head = rng.choice(["Resend", "resend", "RESEND", "rs", "Rs", "ok",
                           "rs ", "Resend:", "Resend: N:", "echo:"])
        tail = "".join(rng.choice("N: 0123456789-+_.xk\t")
                       for _ in range(rng.randint(0, 12)))
        return head + tail

    for run in range(260):
        core = printcore()
        seen = []
        errors = []
        count = rng.randint(1, 5)
        raw = []

        for _ in range(count):
            roll = rng.random()
            if roll < 0.03:
                raw.append("RAISE")
            elif roll < 0.06:
                raw.append(b"\xff\xfe bad\n")
            elif roll < 0.10:
                raw.append(b"")
            else:
                eol = rng.choice(["\n", "\r\n", "\n", ""])
                raw.append((random_line() + eol).encode("utf-8"))

        core.printer = FakePrinter(
            flow_control=rng.random() < 0.3, lines=raw,
            end=rng.choice(["eof", "eof", "drop", "raise"]))
        core.printing = rng.random() < 0.6
        core.online = core.printing or rng.random() < 0.3
        core.lineno = rng.randint(0, 20)
        core.resendfrom = rng.choice([-1, -1, 3])
        core.loud = rng.random() < 0.3

        def recvcb(line, core=core, seen=seen):
            seen.append([line, core.resendfrom, safe(core.clear),
                         core.online, core._send_line_numbers])

        core.recvcb = recvcb
        core.onlinecb = lambda seen=seen: seen.append("ONLINE")
        core.errorcb = lambda msg, errors=errors: errors.append(norm_text(msg))

        if rng.random() < 0.3:
            core.tempcb = lambda line, seen=seen: seen.append(["TEMP", line])

        if rng.random() < 0.3:
            core.event_handler.append(Handler(seen))

        try:
            result = ["ret", safe(core._listen())]
        except Exception as e:
            result = ["exc", type(e).__name__, str(e)]

        records.append({
            "run": run, "raw": safe(raw), "result": result, "seen": seen,
            "errors": errors, "state": core_state(core),
            "written": safe(core.printer.written),
            "reads": core.printer.reads, "logs": capture.take(),
        })

    transcript["C_listen"] = records

    # ------------------------------------------------------------------
    # Phase D: _sendnext, synchronously (numbering, checksums, resends)
    # ------------------------------------------------------------------

    rng = random.Random(SEED + 3)
    records = []

    for run in range(60):
        core = printcore()
        events = []
        errors = []
        flow = rng.random() < 0.25
        failures = {i: "device" for i in range(30) if rng.random() < 0.1}
        core.printer = FakePrinter(flow, True, failures)
        core.online = True
        core.errorcb = lambda msg, errors=errors: errors.append(norm_text(msg))
        core._send_line_numbers = rng.random() < 0.8
        lines = [rng.choice(words + [";@pause", "; only a comment",
                                     "(paren) G1 X2"])
                 for _ in range(rng.randint(0, 9))]

        if rng.random() < 0.4:
            core.event_handler.append(Handler(events))

        core.mainqueue = gcoder.GCode(lines)
        core.printing = True
        core.queueindex = 0
        core.clear = True
        core.lineno = 0
        steps = []

        for step in range(30):
            if not core.printing:
                break

            core.clear = True

            if core.lineno > 0 and rng.random() < 0.25:
                core.resendfrom = rng.randint(-1, core.lineno + 1)

            if rng.random() < 0.15:
                core.priqueue.put_nowait(rng.choice(words))

            try:
                result = ["ret", safe(core._sendnext())]
            except Exception as e:
                result = ["exc", type(e).__name__, str(e)]

            steps.append({"result": result, "state": core_state(core),
                          "written": safe(core.printer.written[-3:]),
                          "nwritten": len(core.printer.written)})

            if result[0] == "exc":
                break

        records.append({"run": run, "lines": lines, "steps": steps,
                        "all": safe(core.printer.written), "events": events,
                        "errors": errors, "logs": capture.take()})

    transcript["D_sendnext"] = records

    # ------------------------------------------------------------------
    # Phase E: PrintrunWriter on a synchronous fake printcore
    # ------------------------------------------------------------------

    rng = random.Random(SEED + 4)
    records = []
    fake_log = []
    plan = {"connect": "online", "scripts": []}

    class FakeCore:
        def __init__(self, *args):
            self.args = args
            self.online = False
            self.printing = False
            self.clear = True
            self.printer = None
            self.priqueue = queue.Queue()
            self.loud = False
            self.onlinecb = self.errorcb = self.recvcb = None
            fake_log.append(["create", safe(list(args))])

        def connect(self, port=None, baud=None):
            fake_log.append(["connect", safe(port), safe(baud)])
            mode = plan["connect"]

            if mode == "noprinter":
                return
            if mode == "raise":
                raise OSError("cannot open")

            self.printer = object()

            if mode == "timeout":
                return
            if mode == "error":
                self.errorcb("Connection error: refused")
            if mode == "errorline":
                self.recvcb("ALARM:9 during boot\n")
            if mode == "offline":
                self.onlinecb()
                return

            self.online = True
            self.onlinecb()

        def startprint(self, gcode, startindex=0):
            fake_log.append(["startprint", type(gcode).__name__, len(gcode)])
            return True

        def send(self, command, wait=0):
            fake_log.append(["send", safe(command)])
            script = plan["scripts"].pop(0) if plan["scripts"] else [("recv", "ok")]

            for action in script:
                if action[0] == "recv":
                    self.recvcb(action[1])
                elif action[0] == "err":
                    self.errorcb(action[1])
                elif action[0] == "offline":
                    self.online = False
                elif action[0] == "raise":
                    raise action[1](action[2])

        def cancelprint(self):
            fake_log.append(["cancelprint"])

        def disconnect(self):
            fake_log.append(["disconnect"])
            self.online = False

    writer_module.printcore = FakeCore

    class Friendly(PrintrunWriter):
        def _format_error(self, message):
            return "device says <%s>" % message.upper()

    class Broken(PrintrunWriter):
        def _format_error(self, message):
            raise KeyError(message)

    status_lines = [
        "<Idle|MPos:1.000,2.000,3.000|FS:100,200>",
        "<Run|WPos:-1.5,0,7.25,4|FS:1200,0|Pn:X>",
        "[PRB:0.000,1.000,-2.500:1]", "echo:busy: processing",
        "X:10.00 Y:5.00 Z:0.30 E:0.00 Count X:800 Y:400 Z:120",
        "T:21.4 /0.0 B:22.1 /0.0 @:0 B@:0", "wait", "[MSG:Pgm End]",
        "Error: capital in status", "F:12..3", "FS:1,2", "<x|FS:1>",
        "<x|FS:1,2,3>", "[PRB:a,b:1]", "",
    ]
    ack_lines = [
        "ok", "ok\n", "OK", " ok ", "ok T:200.5 /210 B:60.1 /60", "okay X:3",
        "ok X:1 X:2 Y:nope", "Ok P15 B3", "ok C: X:1.5 Y:-2 Z:3.",
    ]
    error_lines = [
        "error:20", "Error: Printer halted. kill() called!", "ERROR 9",
        "ALARM:1", "alarm: hard limit", "!! Thermal runaway", "!!", " !! x\n",
        "error", "Alarm X:5",
    ]

    def make_script():
        script = []
        for _ in range(rng.choice([0, 0, 0, 1, 1, 2, 3])):
            script.append(("recv", rng.choice(status_lines)))
        roll = rng.random()
        if roll < 0.55:
            script.append(("recv", rng.choice(ack_lines)))
        elif roll < 0.75:
            script.append(("recv", rng.choice(error_lines)))
        elif roll < 0.82:
            script.append(("err", rng.choice(
                ["Can't write to printer (disconnected?)boom",
                 "Can't read from printer (disconnected?). line_bytes is None",
                 ""])))
        elif roll < 0.88:
            script.append(("offline",))
            script.append(("recv", "ok"))
        elif roll < 0.92:
            script.append(("recv", rng.choice(error_lines)))
            script.append(("recv", rng.choice(status_lines)))
            script.append(("recv", "ok X:77"))
        elif roll < 0.96:
            script.append(("raise", rng.choice([RuntimeError, OSError, KeyError,
                                                 excepts.DeviceError]), "send broke"))
        else:
            script.append(("recv", rng.choice(ack_lines)))
            script.append(("err", "late failure"))
        return script

    statements = [b"G1 X10 Y10\n", b"  M105  \r\n", b"G0 Z5", b"", b"\n",
                  b"?", b"G1 X1 ; c\n", "G1 Xé\n".encode("utf-8"),
                  b"M114\n", b"$H\n", b"G4 P0\n", b"G1 X1\nG1 X2\n"]
    bad_statements = ["G1 X1\n", None, 5, b"\xff\xfeG1\n", bytearray(b"G28\n"),
                      memoryview(b"G28\n")]
    param_names = ["X", "Y", "Z", "A", "F", "S", "T", "B", "E", "x", "P", "C"]

    def writer_state(writer):
        device = writer._device
        return {
            "connected": safe(writer.is_connected),
            "printing": safe(writer.is_printing),
            "pending": safe(writer.has_pending_operations),
            "device": None if device is None else "core",
            "error": None if writer._device_error is None else [
                type(writer._device_error).__name__, str(writer._device_error)],
            "ack": writer._ack_event.is_set(),
            "online_event": writer._online_event.is_set(),
            "params": {n: safe(writer.get_parameter(n)) for n in param_names},
            "reported": sorted(writer._reported_params),
        }

    def attempt(function, *args):
        try:
            value = function(*args)
            return ["ret", "self" if isinstance(value, PrintrunWriter)
                    else safe(value)]
        except BaseException as e:
            return ["exc", exc_info(e)]

    for run in range(90):
        del fake_log[:]
        cls = rng.choice([PrintrunWriter] * 4 + [Friendly, Friendly, Broken])
        mode = rng.choice([DirectWrite.SOCKET, DirectWrite.SERIAL, "socket",
                           "serial", "SOCKET", "off", "tcp", None])
        host = rng.choice(["localhost", "10.0.0.7", "printer.local"])
        port = rng.choice(["/dev/ttyUSB0", "8888", "COM3", "23"])
        baud = rng.choice([115200, 0, 250000])
        made = attempt(cls, mode, host, port, baud)
        entry = {"run": run, "cls": cls.__name__, "mode": safe(mode),
                 "made": made if made[0] == "exc" else "ok", "steps": []}
        records.append(entry)

        if made[0] == "exc":
            continue

        writer = cls(mode, host, port, baud)
        writer.set_timeout(0.02)
        plan["connect"] = rng.choice(
            ["online"] * 7 + ["noprinter", "raise", "timeout", "error",
                              "errorline", "offline"])
        plan["scripts"] = []

        for step in range(rng.randint(2, 7)):
            roll = rng.random()
            plan["scripts"] = [make_script() for _ in range(2)]

            if cls is Broken:
                # A failing formatter leaves the statement unacknowledged
                for script in plan["scripts"]:
                    script.append(("recv", "ok"))
            script_used = safe([list(a[:1]) + [x if isinstance(x, str)
                                else getattr(x, "__name__", str(x))
                                for x in a[1:]] for a in plan["scripts"][0]])

            if roll < 0.70:
                statement = rng.choice(statements)
                what = ["write", safe(statement), script_used]
                result = attempt(writer.write, statement)
            elif roll < 0.78:
                statement = rng.choice(bad_statements)
                what = ["write-bad", repr(type(statement)), script_used]
                result = attempt(writer.write, statement)
            elif roll < 0.84:
                what = ["connect"]
                result = attempt(writer.connect)
            elif roll < 0.90:
                preset = rng.choice([
                    None, excepts.DeviceError("preset"), ValueError("odd"),
                    excepts.GscribError("Internal error: x"),
                    excepts.DeviceTimeoutError("slow")])
                flags = rng.choice(["keep", "nodevice", "offline", "shutdown"])
                writer._device_error = preset
                saved = (writer._device, writer._shutdown_requested)
                online = None

                if flags == "nodevice":
                    writer._device = None
                elif flags == "offline" and writer._device is not None:
                    online = writer._device.online
                    writer._device.online = False
                elif flags == "shutdown":
                    writer._shutdown_requested = True

                what = ["abort", None if preset is None
                        else type(preset).__name__, flags]
                result = attempt(writer._abort_on_device_error)

                try:
                    writer._device_error = preset
                    writer._abort_on_device_error()
                    result.append("no raise")
                except Exception as e:
                    result.append(["identical object", e is preset])

                after = None if writer._device_error is None else type(
                    writer._device_error).__name__
                result.append(["error after", after])
                writer._device, writer._shutdown_requested = saved

                if online is not None:
                    writer._device.online = online
            elif roll < 0.94:
                forced = rng.choice([DirectWrite.SOCKET, DirectWrite.SERIAL,
                                     "socket", "serial", None, 3, "Socket"])
                original_mode = writer._mode
                writer._mode = forced
                what = ["connect_device", safe(forced)]
                saved_plan = plan["connect"]
                plan["connect"] = "noprinter"
                writer._online_event.set()
                result = attempt(writer._connect_device, FakeCore())
                result.append(writer._online_event.is_set())
                plan["connect"] = saved_plan
                writer._mode = original_mode
            elif roll < 0.97:
                wait = rng.choice([True, False, 1, 0, None])
                what = ["disconnect", safe(wait)]
                result = attempt(writer.disconnect, wait)
            else:
                writer._shutdown_requested = True
                what = ["write-after-shutdown"]
                result = attempt(writer.write, b"G1 X5\n")
                result.append(attempt(writer.connect))
                writer._shutdown_requested = False

            entry["steps"].append({
                "what": what, "result": result, "fake": list(fake_log),
                "state": writer_state(writer), "logs": capture.take(),
            })
            del fake_log[:]

        entry["final"] = attempt(writer.disconnect, rng.choice([True, False]))
        entry["final_fake"] = list(fake_log)
        entry["final_logs"] = capture.take()

    transcript["E_writer"] = records

    # ------------------------------------------------------------------
    # Phase F: end to end with the real printcore threads
    # ------------------------------------------------------------------

    writer_module.printcore = printcore
    capture.enabled = False
    rng = random.Random(SEED + 5)
    records = []
    current = {}

    class FakeDevice:
        """Replaces gscrib.printrun.device.Device: a scripted firmware."""

        def __init__(self, *args, **kwargs):
            self.force_dtr = None
            self.written = []
            self.replies = queue.Queue()
            self.connected = False
            self.dead = False
            self.flow = False
            self.lock = threading.Lock()
            self.script = current["script"]
            self.statements = 0
            current["device"] = self

        @property
        def is_connected(self):
            return self.connected

        @property
        def has_flow_control(self):
            return self.flow

        def connect(self, port=None, baudrate=None):
            self.port, self.baudrate = port, baudrate
            self.flow = ":" in str(port)
            self.connected = True
            greeting = self.script["greeting"]
            if greeting:
                self.replies.put((0.0, greeting))

        def disconnect(self):
            self.connected = False

        def write(self, data):
            with self.lock:
                self.written.append(data)
                text = data.decode("utf-8").strip()

                if self.dead:
                    return

                if text == "G4 P0" or "M110" in text:
                    # Grbl gets no M110, so the print thread is released
                    # by this very "ok": it must not come before startprint
                    greeting = self.script["greeting"] or ""
                    slow = 0.3 if greeting.startswith("Grbl") else 0.0
                    self.replies.put((slow, "ok"))
                    return

                index = self.statements
                self.statements += 1
                behaviour = self.script["behaviours"][index]
                latency = behaviour["latency"]

                for line in behaviour["lines"]:
                    if line is None:
                        self.dead = True
                        self.replies.put((latency, None))
                        return
                    self.replies.put((latency, line))
                    latency = 0.0

        def readline(self):
            try:
                latency, line = self.replies.get(timeout=0.01)
            except queue.Empty:
                return b""
            if latency:
                time.sleep(latency)
            if line is None:
                self.connected = False
                return None
            return (line + "\n").encode("utf-8")

        def reset(self):
            pass

    device_module.Device = FakeDevice
    assert printcore_module.device is device_module

    def settle(writer):
        """Wait until the fake firmware has nothing left to say."""
        device = current["device"]
        deadline = time.time() + 10

        while time.time() < deadline:
            if device.replies.empty() and not writer.has_pending_operations:
                break
            time.sleep(0.01)

        time.sleep(0.06)

    e2e_status = ["<Idle|MPos:1.000,2.000,3.000|FS:100,200>",
                  "<Run|WPos:4.5,5.5,6.5|FS:300,400>", "echo:busy: processing",
                  "[PRB:9.000,8.000,7.000:1]", "wait", "[MSG:hello]"]
    e2e_errors = ["error:20", "ALARM:1", "!! halted", "error: bad number",
                  "alarm:3 reset"]

    for run in range(36):
        count = rng.randint(3, 10)
        behaviours = []
        eof_at = rng.randrange(count) if rng.random() < 0.3 else None

        for index in range(count + 1):
            lines = [rng.choice(e2e_status)
                     for _ in range(rng.choice([0, 0, 1, 2, 4]))]
            value = round(rng.uniform(-50, 50), 3)

            if index == eof_at:
                lines.append(None)
            elif rng.random() < 0.2:
                lines.append(rng.choice(e2e_errors))
            else:
                lines.append(rng.choice(
                    ["ok", "ok X:%s Y:%s" % (value, -value),
                     "ok T:%s /0 B:%s" % (value, index)]))

            behaviours.append({
                "latency": rng.choice([0.0, 0.0, 0.002, 0.01, 0.03, 0.08]),
                "lines": lines})

        current["script"] = {
            "greeting": rng.choice([None, None, "start", "Grbl 1.1h ['$' for help]"]),
            "behaviours": behaviours}
        socket_mode = rng.random() < 0.4

        if socket_mode:
            wrapper = SocketWriter("10.0.0.%d" % rng.randint(1, 9), 8000 + run) \
                if rng.random() < 0.5 else None
            writer = wrapper._writer_delegate if wrapper else PrintrunWriter(
                DirectWrite.SOCKET, "10.0.0.5", str(8000 + run), 0)
        else:
            wrapper = SerialWriter("/dev/ttyFAKE%d" % run, 115200) \
                if rng.random() < 0.5 else None
            writer = wrapper._writer_delegate if wrapper else PrintrunWriter(
                "serial", "localhost", "/dev/ttyFAKE%d" % run, 250000)

        target = wrapper if wrapper else writer
        entry = {"run": run, "socket": socket_mode, "wrapped": bool(wrapper),
                 "eof_at": eof_at, "steps": []}
        records.append(entry)
        made = attempt(target.connect)
        entry["connect"] = made if made[0] == "exc" else "ok"
        device = current["device"]
        settle(writer)
        entry["handshake"] = safe(list(device.written))
        entry["port"] = [safe(device.port), safe(device.baudrate)]
        entry["numbers"] = writer._device._send_line_numbers
        alive = True

        for index in range(count):
            statement = ("G1 X%d Y%.2f F%d\n" % (
                index, rng.uniform(-9, 9), rng.randint(100, 3000))).encode()
            before = len(device.written)
            result = attempt(target.write, statement)
            # The acknowledged statement must already be on the wire
            on_wire = safe(device.written[before:])
            entry["steps"].append({
                "statement": safe(statement), "result": result,
                "on_wire": on_wire,
                "params": {n: safe(writer.get_parameter(n))
                           for n in ("X", "Y", "Z", "F", "S", "T", "B")},
            })

            if index == eof_at:
                alive = False
                break

        if alive:
            settle(writer)

        entry["disconnect"] = attempt(target.disconnect, True) if wrapper is None \
            else attempt(target.disconnect)
        entry["wire"] = safe(list(device.written))
        entry["after"] = {"connected": safe(writer.is_connected),
                          "device": writer._device is None,
                          "left": device.replies.qsize()}

    transcript["F_end_to_end"] = records

    sys.stdout.write(json.dumps(transcript, sort_keys=True))
    sys.stdout.flush()
    return 0


if __name__ == "__main__":
    if len(sys.argv) >= 3 and sys.argv[1] == "--child":
        sys.exit(run_child(sys.argv[2]))

    sys.exit(run_parent())
