#!/usr/bin/env python
"""Differential check for the C15 refactoring of gscrib/printrun/printcore.py.

Parent mode (no arguments): runs this same file twice as a child process,
once with PYTHONPATH=/repo (reference) and once with PYTHONPATH=/tmp/wtT-C15
(refactored), and asserts that both transcripts are identical. Exit 0 on
success.

Child mode (--child <expected-root>): drives printcore with in-process fake
devices and prints a JSON transcript on stdout.
"""

import json
import os
import subprocess
import sys

REF = "/repo"
NEW = "/tmp/wtT-C15"
SEED = 150915


# --------------------------------------------------------------------------
# child
# --------------------------------------------------------------------------

def child(expected_root):
    import logging
    import queue
    import random
    import threading
    import time

    logging.disable(logging.CRITICAL)

    import gscrib
    import importlib
    # gscrib.printrun re-exports the class under the module's name, so
    # fetch the real module object explicitly
    pc_mod = importlib.import_module("gscrib.printrun.printcore")
    pc_mod = sys.modules["gscrib.printrun.printcore"]
    from gscrib.printrun import gcoder, device

    root = os.path.realpath(expected_root)
    assert os.path.realpath(gscrib.__file__).startswith(root + os.sep), \
        (gscrib.__file__, root)
    assert os.path.realpath(pc_mod.__file__).startswith(root + os.sep)

    rng = random.Random(SEED)
    out = []  # the transcript

    def exname(fn, *a, **kw):
        try:
            return ["ret", repr(fn(*a, **kw))]
        except BaseException as e:  # noqa
            return ["exc", type(e).__name__]

    def first_line(msg):
        return str(msg).split("\n")[0]

    # ---- fakes -----------------------------------------------------------

    class SyncDevice:
        """Synchronous fake device: records writes, scripted reads."""

        def __init__(self, flow=False, fail_writes=(), script=(), core=None):
            self.has_flow_control = flow
            self.is_connected = True
            self.writes = []
            self.fail_writes = set(fail_writes)
            self.nwrites = 0
            self.script = list(script)
            self.core = core
            self.read_states = []

        def write(self, data):
            i = self.nwrites
            self.nwrites += 1
            if i in self.fail_writes:
                raise device.DeviceError("fake write failure %d" % i)
            self.writes.append(data.decode("latin-1"))

        def readline(self):
            if self.core is not None:
                self.read_states.append(
                    [self.core.resendfrom, bool(self.core.clear)])
            if not self.script:
                return device.READ_EOF
            item = self.script.pop(0)
            if isinstance(item, Exception):
                raise item
            return item

        def disconnect(self):
            self.is_connected = False

    def new_core():
        core = pc_mod.printcore()
        core.errors = []
        core.errorcb = lambda e: core.errors.append(first_line(e))
        return core

    def core_state(core):
        return {
            "lineno": core.lineno,
            "resendfrom": core.resendfrom,
            "queueindex": core.queueindex,
            "clear": bool(core.clear),
            "printing": core.printing,
            "paused": core.paused,
            "online": core.online,
            "writefailures": core.writefailures,
            "sent": list(map(repr, core.sent)),
            "sentlines": sorted((repr(k), repr(v))
                                for k, v in core.sentlines.items()),
            "errors": list(core.errors),
            "send_line_numbers": core._send_line_numbers,
        }

    # ---- input generators ------------------------------------------------

    WORDS = ["G0", "G1", "G2", "G28", "G90", "G91", "G92", "M104", "M105",
             "M106", "M110", "M114", "M83", "T0"]

    def rand_command():
        w = rng.choice(WORDS)
        parts = [w]
        for ax in rng.sample("XYZEFSPN", rng.randint(0, 4)):
            v = rng.choice([rng.randint(-50, 300),
                            round(rng.uniform(-100, 100), rng.randint(0, 5)),
                            0, -0.0, 1e-9])
            parts.append("%s%s" % (ax, v))
        return " ".join(parts)

    def rand_text():
        kind = rng.randrange(8)
        if kind == 0:
            return ""
        if kind == 1:
            return rng.choice("GMNX *;\n\x00\x7f")
        if kind == 2:
            return "".join(chr(rng.randint(0, 0x2ff))
                           for _ in range(rng.randint(1, 12)))
        if kind == 3:
            return "".join(chr(rng.choice([0x1F600, 0xE9, 0x4E2D, 0x661]))
                           for _ in range(rng.randint(1, 4)))
        return rand_command()

    # ---- A. _checksum ----------------------------------------------------

    core = new_core()
    for _ in range(150):
        s = rand_text()
        out.append(["checksum", repr(s), exname(core._checksum, s)])
    for bad in [None, 0, 1.5, b"", b"G1", b"G", [], ["a"], ["a", "b"],
                ["ab"], [1, 2], ("N", "1"), "a", "aa", "\x00", float("nan"),
                bytearray(b"N1"), {"a": 1}, {"a": 1, "b": 2}, iter("N0 G1")]:
        out.append(["checksum-bad", repr(bad) if not hasattr(bad, "__next__")
                    else "iter", exname(core._checksum, bad)])

    # ---- B. _send with a synchronous fake device ------------------------

    BAD_COMMANDS = [None, 0, 1.5, b"G1 X1", ["G1"], "", " ", "\xe9G1",
                    "G1 X1 ; c", "M110", "M110 N-1", "xM110x", "m110",
                    "G1\nG2", "*", "N5 G1*3"]
    BAD_LINENOS = [None, -1, -2, 0, 1, 2**70, 1.5, -0.0, float("nan"),
                   float("inf"), "7", "", True, (1, 2), b"3"]

    for i in range(260):
        core = new_core()
        has_printer = rng.random() > 0.08
        flow = rng.random() < 0.25
        dev = SyncDevice(flow=flow,
                         fail_writes=[k for k in range(4)
                                      if rng.random() < 0.2])
        core.printer = dev if has_printer else None
        core._send_line_numbers = rng.random() > 0.25
        steps = []
        for _ in range(rng.randint(1, 4)):
            cmd = rng.choice(BAD_COMMANDS) if rng.random() < 0.25 \
                else rand_text()
            if rng.random() < 0.3:
                lineno = rng.choice(BAD_LINENOS)
            else:
                lineno = rng.randint(-3, 5000)
            cs = rng.choice([True, True, False, 0, 1, None, "x"])
            mode = rng.randrange(3)
            if mode == 0:
                r = exname(core._send, cmd)
            elif mode == 1:
                r = exname(core._send, cmd, lineno)
            else:
                r = exname(core._send, cmd, lineno, cs)
            steps.append([repr(cmd), repr(lineno), repr(cs), mode, r])
        out.append(["send", i, has_printer, flow, steps, dev.writes,
                    core_state(core)])

    # _reset_line_numbers
    for i in range(24):
        core = new_core()
        flow = bool(i & 1)
        dev = SyncDevice(flow=flow, fail_writes=[0] if i & 2 else [])
        core.printer = dev if (i & 4) == 0 else None
        core._send_line_numbers = (i & 8) == 0
        core.lineno = rng.randint(0, 999)
        r = exname(core._reset_line_numbers)
        out.append(["reset", i, r, dev.writes, core_state(core)])

    # ---- C. _listen driven synchronously over scripted firmware text -----

    def rand_resend_line():
        n = rng.choice([rng.randint(0, 400), rng.randint(-5, 5), 2**40])
        templates = [
            "Resend: %s", "Resend:%s", "resend: %s", "RESEND: %s",
            "rs N%s Expected checksum 67", "rs N:%s", "rs %s", "rs N%s",
            "Resend: N%s", "Resend: N:%s", "resend N: %s ok",
            "rs:%s:9", "Resend %s %s" % ("%s", n + 1), "rsN%sN4",
            "Resend: last line %s", "rs abc %s", "Resend: +%s",
            "Resend: %s.0", "Resend: 0x%s", "Resend: 1_%s", "rs ١%s",
            "  Resend: %s", "Rs %s", "rS %s", "resend", "rs", "Resend:",
            "Resend: N", "Resend: abc def", "rs NNN:::", "rsvp %s",
            "Resend: %s\r", "Resend:\t%s\t7", "ok Resend: %s",
            "Error:Line Number is not Last Line Number+1, Last Line: %s",
            "Error:checksum mismatch, Last Line: %s",
        ]
        t = rng.choice(templates)
        return (t % n) if "%s" in t else t

    def rand_fw_line():
        k = rng.randrange(10)
        if k < 5:
            return rand_resend_line()
        return rng.choice(["ok", "ok T:200 /200 B:60 /60", "start",
                           "Grbl 1.1h ['$' for help]", "DEBUG_ rs 5",
                           "DEBUG_Resend: 9", "echo:busy", "T:20", "", "o",
                           "Error:Printer halted", "wait", "ok N12 P15 B3"])

    for i in range(220):
        core = new_core()
        script = []
        for _ in range(rng.randint(1, 8)):
            ln = rand_fw_line()
            data = (ln + rng.choice(["\n", "\n", "\r\n", ""])).encode("utf-8")
            script.append(data)
        tail = rng.randrange(6)
        if tail == 0:
            script.append(b"\xff\xfe rs 5\n")       # rubbish -> None
            script.append(b"Resend: 77\n")           # never read
        elif tail == 1:
            script.append(device.DeviceError("fake read failure"))
            script.append(b"Resend: 78\n")
        dev = SyncDevice(script=script, core=core)
        core.printer = dev
        core.online = True
        core.printing = rng.random() < 0.5
        core.lineno = rng.randint(0, 500)
        core.resendfrom = rng.choice([-1, -1, rng.randint(0, 100)])
        recvd = []
        core.recvcb = recvd.append
        r = exname(core._listen)
        out.append(["listen", i, [repr(s) for s in script], r,
                    dev.read_states, recvd, list(core.log),
                    core_state(core)])

    # ---- D. _sendnext driven synchronously, with injected resend requests

    def rand_job():
        lines = []
        for _ in range(rng.randint(0, 14)):
            k = rng.randrange(10)
            if k == 0:
                lines.append("; just a comment")
            elif k == 1:
                lines.append("")
            elif k == 2:
                lines.append("(paren comment)")
            elif k == 3:
                lines.append(rand_command() + " ; trailing")
            elif k == 4:
                lines.append("G1 Z%s" % round(rng.uniform(0, 5), 2))
            elif k == 5:
                lines.append("  " + rand_command() + "  ")
            else:
                lines.append(rand_command())
        return lines

    for i in range(120):
        core = new_core()
        job = rand_job()
        flow = rng.random() < 0.15
        dev = SyncDevice(flow=flow,
                         fail_writes=[k for k in range(30)
                                      if rng.random() < 0.05])
        core.printer = dev
        core.online = True
        core._send_line_numbers = rng.random() > 0.15
        core.tcp_streaming_mode = rng.random() < 0.2
        core.mainqueue = gcoder.GCode(job)
        core.printing = True
        core.clear = True
        steps = []
        r0 = exname(core._reset_line_numbers)
        for step in range(60):
            if not core.printing:
                break
            core.clear = True
            inj = None
            if rng.random() < 0.3:
                # Feed a resend request through the real parser
                req = rand_resend_line()
                if rng.random() < 0.6 and core.lineno > 0:
                    req = rng.choice(["Resend: %d\n", "rs N%d oops\n",
                                      "Resend: N:%d\n"]) \
                        % rng.randint(-1, core.lineno + 1)
                ldev = SyncDevice(script=[req.encode("utf-8")], core=core)
                core.printer = ldev
                core.stop_read_thread = False
                inj = [req, exname(core._listen)]
                core.printer = dev
                core.clear = True
            if rng.random() < 0.1:
                core.priqueue.put_nowait(rand_command())
            r = exname(core._sendnext)
            steps.append([inj, r, core.lineno, core.resendfrom,
                          core.queueindex, bool(core.clear),
                          len(dev.writes)])
        out.append(["sendnext", i, job, r0, steps, dev.writes,
                    core_state(core)])

    # ---- E. threaded end-to-end streaming against a fake firmware --------

    class Firmware:
        """In-process fake serial firmware with line-number/checksum checks.

        mode 'single': a bad line is answered with one 'rs N<k>' line only
        (strict ping-pong, so the whole transmission log is deterministic).
        mode 'double': a bad line is answered with 'Resend: <k>' + 'ok'
        like Marlin does (transmission log is timing dependent; only the
        accepted job is compared).
        """
        has_flow_control = False

        def __init__(self, corrupt, mode, lat_rng):
            self.is_connected = True
            self.corrupt = set(corrupt)
            self.mode = mode
            self.lat = lat_rng
            self.rx = queue.Queue()
            self.expected = None
            self.accepted = []
            self.tx_log = []
            self.tx_index = 0
            self.protocol_errors = []

        def _reply_bad(self):
            k = self.expected if self.expected is not None else 0
            if self.mode == "single":
                self.rx.put(("rs N%d Expected checksum\n" % k).encode())
            else:
                self.rx.put(("Resend: %d\n" % k).encode())
                self.rx.put(b"ok\n")

        def write(self, data):
            text = data.decode("ascii")
            self.tx_log.append(text)
            if not text.endswith("\n"):
                self.protocol_errors.append("no newline: %r" % text)
            text = text[:-1]
            if "M110" in text:
                body, _, cs = text.rpartition("*")
                x = 0
                for ch in body:
                    x ^= ord(ch)
                if not cs or str(x) != cs or not body.startswith("N-1 "):
                    self.protocol_errors.append("bad M110: %r" % text)
                self.expected = 0
                self.rx.put(b"ok\n")
                return
            idx = self.tx_index
            self.tx_index += 1
            if idx in self.corrupt:
                # flip one character on the wire
                pos = (idx * 7) % len(text)
                ch = text[pos]
                text = text[:pos] + ("#" if ch != "#" else "%") + text[pos+1:]
            body, star, cs = text.rpartition("*")
            ok = bool(star) and body.startswith("N")
            num = None
            if ok:
                x = 0
                for ch in body:
                    x ^= ord(ch)
                ok = (str(x) == cs)
            if ok:
                head, _, cmd = body.partition(" ")
                try:
                    num = int(head[1:])
                except ValueError:
                    ok = False
            if ok and num == self.expected:
                self.accepted.append(cmd)
                self.expected += 1
                self.rx.put(b"ok\n")
            else:
                self._reply_bad()

        def readline(self):
            try:
                item = self.rx.get(True, 0.005)
            except queue.Empty:
                return b""
            r = self.lat.random()
            if r < 0.15:
                time.sleep(self.lat.uniform(0, 0.003))
            return item

        def disconnect(self):
            self.is_connected = False

    strip = gcoder.gcode_strip_comment_exp

    def run_stream(i, mode):
        # M110 inside a job would reset the firmware's counter (and is never
        # kept for resending), so it is left out of streamed jobs
        job = [l for l in rand_job() + [rand_command()] if "M110" not in l]
        expected = [strip.sub("", l).strip() for l in job]
        expected = [l for l in expected if l]
        n = len(expected)
        # corrupted transmission indices (incl. repeated corruption of the
        # same resent line, which shows up as consecutive indices)
        corrupt = set()
        for _ in range(rng.randint(0, 5)):
            start = rng.randint(0, n + 3)
            for k in range(rng.choice([1, 1, 2, 3])):
                corrupt.add(start + k)
        fw = Firmware(corrupt, mode, random.Random(rng.random()))
        core = new_core()
        core.printer = fw
        core.online = True
        core.read_thread = threading.Thread(target=core._listen)
        core.read_thread.start()
        started = core.startprint(gcoder.GCode(job))
        pthread = core.print_thread
        deadline = time.time() + 20
        while core.printing and time.time() < deadline:
            time.sleep(0.002)
        timed_out = bool(core.printing)
        core.printing = False
        if pthread is not None:
            pthread.join(10)   # _print restarts the sender in its finally
        core.stop_read_thread = True
        core.read_thread.join(5)
        core._stop_sender()
        rec = ["stream", i, mode, job, sorted(corrupt), started, timed_out,
               fw.accepted, fw.accepted == expected, fw.protocol_errors,
               sorted(set(fw.tx_log)), list(core.errors), core.lineno,
               core.queueindex]
        if mode == "single":
            rec.append(fw.tx_log)
        out.append(rec)

    for i in range(45):
        run_stream(i, "single")
    for i in range(15):
        run_stream(i, "double")

    json.dump({"file": pc_mod.__file__, "transcript": out}, sys.stdout)


# --------------------------------------------------------------------------
# parent
# --------------------------------------------------------------------------

def run_child(root):
    env = dict(os.environ)
    env["PYTHONPATH"] = root
    env["PYTHONDONTWRITEBYTECODE"] = "1"
    env["PYTHONHASHSEED"] = "0"
    p = subprocess.run([sys.executable, os.path.abspath(__file__),
                        "--child", root],
                       env=env, cwd="/tmp/twin-C15", stdin=subprocess.DEVNULL,
                       stdout=subprocess.PIPE, stderr=subprocess.PIPE,
                       timeout=600)
    if p.returncode != 0:
        sys.stderr.write(p.stderr.decode()[-4000:])
        raise SystemExit("child for %s failed with %d" % (root, p.returncode))
    return json.loads(p.stdout.decode())


def main():
    ref = run_child(REF)
    new = run_child(NEW)
    assert ref["file"].startswith(REF + "/"), ref["file"]
    assert new["file"].startswith(NEW + "/"), new["file"]
    a, b = ref["transcript"], new["transcript"]
    kinds = {}
    for rec in a:
        kinds[rec[0]] = kinds.get(rec[0], 0) + 1
    ndiff = 0
    for k, (x, y) in enumerate(zip(a, b)):
        if x != y:
            ndiff += 1
            if ndiff <= 5:
                print("DIFF at record", k)
                print("  ref:", json.dumps(x)[:1500])
                print("  new:", json.dumps(y)[:1500])
    # sanity: the streaming scenarios really delivered the jobs
    streams = [r for r in a if r[0] == "stream"]
    delivered = sum(1 for r in streams if r[8] and not r[6] and not r[9])
    excs = sum(1 for r in a if '"exc"' in json.dumps(r))
    print("records:", len(a), len(b), kinds)
    print("records containing an exception outcome:", excs)
    print("stream scenarios delivered complete/in order: %d/%d"
          % (delivered, len(streams)))
    assert len(a) == len(b), (len(a), len(b))
    assert ndiff == 0, "%d differing records" % ndiff
    assert a == b
    assert delivered == len(streams)
    print("EQUIVALENT: transcripts identical")
    return 0


if __name__ == "__main__":
    if len(sys.argv) >= 3 and sys.argv[1] == "--child":
        child(sys.argv[2])
    else:
        sys.exit(main())
