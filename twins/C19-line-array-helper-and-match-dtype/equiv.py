#!/usr/bin/env python
"""Differential check for the C19 heightmap refactoring.

Runs the same seeded scenario against /repo (original) and /tmp/wtV-C19
(refactored) in separate subprocesses and asserts that the transcripts
are byte-for-byte identical. No hardware, no stdin; only temp files.

Note: the heightmap classes never emit G-code themselves (they are not
referenced by GCodeCore/GCodeBuilder), so there are no writer lines to
record; everything observable is return values, object state and
exception type names.
"""

import os
import subprocess
import sys

TREES = {"orig": "/repo", "new": "/tmp/wtV-C19"}
PYTHON = "/venv/bin/python"


# --------------------------------------------------------------------------
# Child: produce a transcript
# --------------------------------------------------------------------------

def child(expected_root: str) -> None:
    import random
    import tempfile
    import warnings

    import numpy
    import cv2 as cv

    warnings.simplefilter("ignore")

    import gscrib
    from gscrib.heightmaps import (
        BaseHeightMap, FlatHeightMap, RasterHeightMap, SparseHeightMap)
    from gscrib.heightmaps import raster_heightmap as raster_module

    root = os.path.dirname(os.path.dirname(os.path.abspath(gscrib.__file__)))
    assert root == expected_root, (root, expected_root)

    out = []
    rng = random.Random(190319)
    nrng = numpy.random.default_rng(190319)

    def show(value):
        """Bit-exact, type-revealing description of a value."""

        if isinstance(value, numpy.ndarray):
            return "ndarray(%s,%s,%s)" % (
                value.dtype.str, value.shape,
                numpy.ascontiguousarray(value).tobytes().hex())
        if isinstance(value, numpy.generic):
            return "%s(%s)" % (type(value).__name__, value.tobytes().hex())
        if isinstance(value, float):
            return "float(%s)" % value.hex()
        if isinstance(value, (list, tuple)):
            return "%s[%s]" % (
                type(value).__name__, ",".join(show(v) for v in value))
        if value is None or isinstance(value, (bool, int, str, bytes)):
            return "%s(%r)" % (type(value).__name__, value)
        return "<%s object>" % type(value).__name__  # no addresses

    def call(label, func, *args, **kwargs):
        try:
            result = func(*args, **kwargs)
        except BaseException as e:  # noqa: transcript records the type
            out.append("%s -> EXC %s" % (label, type(e).__name__))
            return None
        out.append("%s -> %s" % (label, show(result)))
        return result

    def state(label, hm):
        parts = []
        for name in ("_scale_z", "_tolerance"):
            parts.append("%s=%s" % (name, show(getattr(hm, name, "<none>"))))
        if isinstance(hm, RasterHeightMap):
            parts.append("map=" + show(hm._height_map))
            parts.append("wh=%r" % ((hm.get_width(), hm.get_height()),))
            tx, ty = hm._interpolator.get_knots()
            parts.append("knots=" + show(tx) + show(ty))
            parts.append("coeffs=" + show(hm._interpolator.get_coeffs()))
        if isinstance(hm, SparseHeightMap):
            parts.append("points=" + show(hm._interpolator.points))
            parts.append("values=" + show(hm._interpolator.values))
            parts.append("fill=" + show(hm._interpolator.fill_value))
            parts.append("simplices=" + show(hm._interpolator.tri.simplices))
        out.append("%s STATE %s" % (label, " ".join(parts)))

    def weird_number():
        return rng.choice([
            0, 0.0, -0.0, 1, -1, 0.5, -0.5, 1e-9, 1e9, float("nan"),
            float("inf"), float("-inf"), numpy.float64(2.5),
            numpy.float32(1.25), numpy.int64(3), True])

    def random_lines(width, height, count):
        """Valid, boundary and invalid line arguments."""

        lines = []
        for _ in range(count):
            kind = rng.randrange(12)
            span_x, span_y = width + 4, height + 4
            pts = [rng.uniform(-3, span_x), rng.uniform(-3, span_y),
                   rng.uniform(-3, span_x), rng.uniform(-3, span_y)]
            if kind == 0:
                lines.append([float(round(p)) for p in pts])
            elif kind == 1:
                lines.append(tuple(pts))
            elif kind == 2:
                lines.append(numpy.array(pts))
            elif kind == 3:
                lines.append(numpy.array(pts, dtype=numpy.float32))
            elif kind == 4:  # degenerate line
                lines.append([pts[0], pts[1], pts[0], pts[1]])
            elif kind == 5:  # axis aligned, inside
                y = float(rng.randrange(height))
                lines.append([0.0, y, float(width - 1), y])
            elif kind == 6:  # exact borders
                lines.append([0, 0, width, height])
            elif kind == 7:
                lines.append([int(round(p)) for p in pts])
            else:
                lines.append(pts)
        return lines

    invalid_lines = [
        [], [1.0], [1.0, 2.0, 3.0], [1.0, 2.0, 3.0, 4.0, 5.0],
        [[1.0, 2.0], [3.0, 4.0]], numpy.zeros((2, 2)), numpy.zeros((4, 1)),
        numpy.zeros((1, 4)), "abcd", ["a", "b", "c", "d"], None, 4, 4.0,
        [1.0, 2.0, None, 4.0], [1.0, 2.0, [3.0], 4.0], ("1", "2", "3", "4"),
        [1 + 2j, 0, 0, 0], {"a": 1}, b"1234", numpy.array(5.0),
        [float("nan"), 0.0, 3.0, 3.0], [0.0, 0.0, float("inf"), 3.0],
        numpy.array([1, 2, 3, 4], dtype=object), range(4), (True, False, 1, 2),
        [-0.0, -0.0, -0.0, -0.0],
    ]

    # ---- module level API -------------------------------------------------
    out.append("consts %s %s %r" % (
        show(raster_module.UINT8_MAX), show(raster_module.UINT16_MAX),
        raster_module.uint16 is numpy.uint16))
    out.append("abstract %r" % sorted(BaseHeightMap.__abstractmethods__))
    call("base()", BaseHeightMap)
    for cls in (FlatHeightMap, RasterHeightMap, SparseHeightMap):
        out.append("%s public=%r slots=%r" % (
            cls.__name__,
            sorted(n for n in dir(cls) if not n.startswith("_")),
            getattr(cls, "__slots__", None)))

    # ---- flat heightmap ---------------------------------------------------
    flat = FlatHeightMap()
    for i, line in enumerate(random_lines(10, 10, 40) + invalid_lines):
        call("flat.sample_path[%d]" % i, flat.sample_path, line)
    for i in range(20):
        call("flat.depth[%d]" % i, flat.get_depth_at,
             weird_number(), weird_number())
    call("flat.depth[str]", flat.get_depth_at, "1", 2)

    # ---- raster heightmaps ------------------------------------------------
    tmpdir = tempfile.mkdtemp(prefix="equiv-C19-")

    def random_image(case):
        height = rng.choice([4, 5, 6, 9, 17, 32])
        width = rng.choice([4, 5, 7, 12, 31])
        kind = case % 8
        if kind in (0, 1, 2):
            return nrng.integers(0, 256, (height, width), dtype=numpy.uint8)
        if kind in (3, 4):
            return nrng.integers(0, 65536, (height, width), dtype=numpy.uint16)
        if kind == 5:  # smooth gradient, 16 bit
            ys, xs = numpy.mgrid[0:height, 0:width]
            return ((xs * 1500 + ys * 700) % 65536).astype(numpy.uint16)
        if kind == 6:  # constant
            return numpy.full((height, width), rng.choice([0, 255]),
                              dtype=numpy.uint8)
        return nrng.integers(0, 2, (height, width), dtype=numpy.uint8) * 255

    bad_images = [
        ("f32", nrng.random((5, 6)).astype(numpy.float32)),
        ("f64", nrng.random((6, 5)) * 255),
        ("i32", nrng.integers(0, 1000, (5, 5)).astype(numpy.int32)),
        ("i64", nrng.integers(-5, 5, (4, 7))),
        ("bool", nrng.integers(0, 2, (6, 6)).astype(bool)),
        ("be16", nrng.integers(0, 65536, (5, 5)).astype(">u2")),
        ("le16", nrng.integers(0, 65536, (5, 5)).astype("<u2")),
        ("i16", nrng.integers(0, 30000, (5, 5)).astype(numpy.int16)),
        ("rgb", nrng.integers(0, 256, (6, 6, 3), dtype=numpy.uint8)),
        ("1d", numpy.arange(16, dtype=numpy.uint8)),
        ("0d", numpy.array(7, dtype=numpy.uint8)),
        ("3x3", numpy.ones((3, 3), dtype=numpy.uint8)),
        ("1x9", numpy.ones((1, 9), dtype=numpy.uint16)),
        ("empty", numpy.zeros((0, 0), dtype=numpy.uint8)),
        ("cplx", numpy.ones((5, 5), dtype=complex)),
        ("obj", numpy.ones((5, 5), dtype=object)),
        ("list", [[1, 2, 3, 4]] * 4),
        ("none", None),
        ("nan", numpy.full((5, 5), numpy.nan)),
        ("f16", numpy.ones((5, 5), dtype=numpy.float16)),
        ("str", numpy.array([["a"] * 4] * 4)),
    ]

    for name, data in bad_images:
        hm = call("raster.bad[%s]" % name, RasterHeightMap, data)
        if hm is not None:
            state("raster.bad[%s]" % name, hm)
            call("raster.bad[%s].depth" % name, hm.get_depth_at, 1.5, 2.5)
            call("raster.bad[%s].path" % name, hm.sample_path, [0, 0, 4, 3])

    for case in range(24):
        image = random_image(case)
        label = "raster[%d]" % case

        if case % 3 == 0:
            path = os.path.join(tmpdir, "img%d.png" % case)
            assert cv.imwrite(path, image)
            hm = call(label + ".from_path", RasterHeightMap.from_path, path)
        else:
            hm = call(label + ".init", RasterHeightMap, image)

        state(label, hm)
        height, width = image.shape

        if case % 2:
            call(label + ".set_scale", hm.set_scale, rng.uniform(0.01, 30.0))
        if case % 4 >= 2:
            call(label + ".set_tol", hm.set_tolerance,
                 rng.choice([0.0, 1e-6, 0.01, 0.1, 0.378, 1.0, 50.0]))

        # every stored sample, then random and odd queries
        grid = [hm.get_depth_at(x, y)
                for y in range(height) for x in range(width)]
        out.append(label + ".grid " + show(grid))

        for i in range(12):
            x = rng.uniform(-2, width + 2)
            y = rng.uniform(-2, height + 2)
            call(label + ".depth[%d]" % i, hm.get_depth_at, x, y)
        for i in range(6):
            call(label + ".depthw[%d]" % i, hm.get_depth_at,
                 weird_number(), weird_number())
        call(label + ".depth[edge]", hm.get_depth_at, width, height)
        call(label + ".depth[edge-]", hm.get_depth_at, width - 1, height - 1)
        call(label + ".depth[none]", hm.get_depth_at, None, 1)

        for i, line in enumerate(random_lines(width, height, 14)):
            call(label + ".path[%d]" % i, hm.sample_path, line)
        for i in rng.sample(range(len(invalid_lines)), 8):
            call(label + ".badpath[%d]" % i, hm.sample_path, invalid_lines[i])

        for value in (0.0, -1.0, 0, "x", None, float("nan"), float("inf"), 3):
            call(label + ".set_scale(%r)" % (value,), hm.set_scale, value)
            call(label + ".set_tol(%r)" % (value,), hm.set_tolerance, value)
        state(label + ".after", hm)
        call(label + ".path[after]", hm.sample_path, [0, 0, width - 1, height - 1])

        # private helpers that were refactored, called directly
        call(label + "._to_height_map", hm._to_height_map, image)
        spline = call(label + "._create_interpolator.type",
                      lambda: type(hm._create_interpolator(
                          hm._height_map)).__name__)

    for path in ("/nonexistent/file.png", "", os.path.join(tmpdir, "no.png"),
                 tmpdir, None, 5):
        call("raster.from_path(%r)" % (path if not path or "equiv" not in
                                         str(path) else "<tmp>",),
             RasterHeightMap.from_path, path)

    not_image = os.path.join(tmpdir, "text.png")
    with open(not_image, "w") as f:
        f.write("not an image")
    call("raster.from_path(text)", RasterHeightMap.from_path, not_image)

    # ---- sparse heightmaps ------------------------------------------------
    def random_points(case):
        count = rng.choice([4, 5, 8, 15, 40])
        kind = case % 5
        if kind == 0:  # regular grid
            side = rng.choice([2, 3, 5])
            xs, ys = numpy.meshgrid(numpy.arange(side) * 10.0,
                                    numpy.arange(side) * 7.0)
            zs = nrng.uniform(-5, 5, xs.size)
            return numpy.column_stack((xs.ravel(), ys.ravel(), zs))
        if kind == 1:  # negative coordinates too
            return nrng.uniform(-50, 50, (count, 3))
        if kind == 2:  # integer valued
            pts = nrng.integers(0, 60, (count + 4, 3)).astype(float)
            return numpy.unique(pts, axis=0)
        return numpy.column_stack((
            nrng.uniform(0, 100, count), nrng.uniform(0, 80, count),
            nrng.uniform(-3, 3, count)))

    bad_sparse = [
        ("3pts", nrng.random((3, 3))),
        ("2cols", nrng.random((6, 2))),
        ("4cols", nrng.random((6, 4)) * 10),
        ("collinear", numpy.array([[i, i, 1.0] for i in range(5)], float)),
        ("dupes", numpy.array([[0, 0, 1.0]] * 5)),
        ("1d", numpy.arange(9.0)),
        ("3d", nrng.random((5, 3, 3))),
        ("ints", numpy.array([[0, 0, 1], [10, 0, 2], [0, 10, 3], [10, 10, 4],
                              [5, 5, 9]])),
        ("f32", (nrng.random((7, 3)) * 20).astype(numpy.float32)),
        ("list", [[0, 0, 1], [1, 0, 1], [0, 1, 1], [1, 1, 2]]),
        ("none", None),
        ("nan", numpy.array([[0, 0, 1], [1, 0, numpy.nan], [0, 1, 1],
                             [1, 1, 2.0]])),
        ("nanxy", numpy.array([[0, 0, 1], [numpy.nan, 0, 1], [0, 1, 1],
                               [1, 1, 2.0]])),
        ("empty", numpy.zeros((0, 3))),
        ("obj", numpy.array([[0, 0, 1], [1, 0, 1], [0, 1, 1], [1, 1, 2]],
                            dtype=object)),
        ("cplx", numpy.array([[0, 0, 1], [1, 0, 1], [0, 1, 1], [1, 1, 2]],
                             dtype=complex)),
    ]

    for name, data in bad_sparse:
        label = "sparse.bad[%s]" % name
        hm = call(label, SparseHeightMap, data)
        if hm is not None:
            state(label, hm)
            call(label + ".depth", hm.get_depth_at, 0.4, 0.3)
            call(label + ".path", hm.sample_path, [0, 0, 1, 1])

    for case in range(20):
        data = random_points(case)
        label = "sparse[%d]" % case

        if case % 3 == 0:
            ext, delimiter = rng.choice(
                [(".csv", ","), (".tsv", "\t"), (".TSV", "\t"), (".txt", ",")])
            path = os.path.join(tmpdir, "pts%d%s" % (case, ext))
            numpy.savetxt(path, data, delimiter=delimiter)
            hm = call(label + ".from_path", SparseHeightMap.from_path, path)
        else:
            hm = call(label + ".init", SparseHeightMap, data)

        state(label, hm)

        if case % 2:
            call(label + ".set_scale", hm.set_scale, rng.uniform(0.01, 30.0))
        if case % 4 >= 2:
            call(label + ".set_tol", hm.set_tolerance,
                 rng.choice([1e-3, 0.01, 0.1, 0.378, 1.0, 50.0]))

        stored = [hm.get_depth_at(float(x), float(y)) for x, y, _ in data]
        out.append(label + ".stored " + show(stored))

        x_lo, y_lo = data[:, 0].min(), data[:, 1].min()
        x_hi, y_hi = data[:, 0].max(), data[:, 1].max()

        for i in range(12):
            x = rng.uniform(x_lo - 5, x_hi + 5)
            y = rng.uniform(y_lo - 5, y_hi + 5)
            call(label + ".depth[%d]" % i, hm.get_depth_at, x, y)
        for i in range(5):
            call(label + ".depthw[%d]" % i, hm.get_depth_at,
                 weird_number(), weird_number())
        call(label + ".depth[str]", hm.get_depth_at, "a", 1.0)

        for i in range(10):
            line = [rng.uniform(x_lo - 5, x_hi + 5),
                    rng.uniform(y_lo - 5, y_hi + 5),
                    rng.uniform(x_lo - 5, x_hi + 5),
                    rng.uniform(y_lo - 5, y_hi + 5)]
            shape = rng.randrange(4)
            if shape == 1:
                line = tuple(line)
            elif shape == 2:
                line = numpy.array(line)
            elif shape == 3:
                line = [line[0], line[1], line[0], line[1]]
            call(label + ".path[%d]" % i, hm.sample_path, line)
        for i in rng.sample(range(len(invalid_lines)), 8):
            if i in (20, 21):  # nan / inf ends: covered once below
                continue
            call(label + ".badpath[%d]" % i, hm.sample_path, invalid_lines[i])

        for value in (0.0, -1.0, 0, "x", None, float("nan"), 3):
            call(label + ".set_scale(%r)" % (value,), hm.set_scale, value)
            call(label + ".set_tol(%r)" % (value,), hm.set_tolerance, value)
        state(label + ".after", hm)
        call(label + ".set_tol(back)", hm.set_tolerance, 0.5)
        call(label + ".path[after]", hm.sample_path, [x_lo, y_lo, x_hi, y_hi])

        if case % 4 == 0:
            call(label + "._to_image", hm._to_image, 9, 7)
            image_path = os.path.join(tmpdir, "out%d.png" % case)
            call(label + ".save_image", hm.save_image, image_path)
            if os.path.exists(image_path):
                saved = cv.imread(image_path, cv.IMREAD_UNCHANGED)
                out.append(label + ".saved " + show(saved))

        call(label + "._create_interpolator.points",
             lambda: hm._create_interpolator(data).points)

    sparse = SparseHeightMap(numpy.array(
        [[0, 0, 1.0], [10, 0, 2.0], [0, 10, 3.0], [10, 10, 4.0]]))
    sparse.set_tolerance(0.5)
    call("sparse.path[nan]", sparse.sample_path, [float("nan"), 0.0, 3.0, 3.0])
    call("sparse.path[-0]", sparse.sample_path, [-0.0, -0.0, -0.0, -0.0])

    # file loading failures
    def write(name, text):
        path = os.path.join(tmpdir, name)
        with open(path, "w") as f:
            f.write(text)
        return path

    bad_files = [
        write("few.csv", "0,0,1\n1,0,1\n0,1,1\n"),
        write("cols.csv", "0,0\n1,0\n0,1\n1,1\n"),
        write("four.csv", "0,0,1,9\n1,0,1,9\n0,1,1,9\n1,1,2,9\n"),
        write("tabs.csv", "0\t0\t1\n1\t0\t1\n0\t1\t1\n1\t1\t2\n"),
        write("commas.tsv", "0,0,1\n1,0,1\n0,1,1\n1,1,2\n"),
        write("text.csv", "hello\nworld\n"),
        write("empty.csv", ""),
        write("line.csv", "0,0,1\n1,1,1\n2,2,1\n3,3,1\n"),
        write("ok.csv", "0,0,1\n1,0,1\n0,1,1\n1,1,2\n"),
        write("one.csv", "1,2,3\n"),
        os.path.join(tmpdir, "missing.csv"),
    ]

    for path in bad_files:
        label = "sparse.file[%s]" % os.path.basename(path)
        hm = call(label, SparseHeightMap.from_path, path)
        if hm is not None:
            state(label, hm)
    call("sparse.file[None]", SparseHeightMap.from_path, None)
    call("sparse.file[5]", SparseHeightMap.from_path, 5)

    import shutil
    shutil.rmtree(tmpdir, ignore_errors=True)

    sys.stdout.write("\n".join(out) + "\n")


# --------------------------------------------------------------------------
# Parent: run both trees, compare
# --------------------------------------------------------------------------

def run(tree: str) -> list:
    env = dict(os.environ)
    env["PYTHONPATH"] = tree
    env["PYTHONHASHSEED"] = "0"
    env["PYTHONDONTWRITEBYTECODE"] = "1"

    proc = subprocess.run(
        [PYTHON, os.path.abspath(__file__), "--child", tree],
        env=env, cwd="/tmp/twin3-C19", stdin=subprocess.DEVNULL,
        stdout=subprocess.PIPE, stderr=subprocess.PIPE, timeout=600, text=True)

    if proc.returncode != 0:
        sys.stderr.write(proc.stderr)
        raise SystemExit("child for %s failed (%d)" % (tree, proc.returncode))

    return proc.stdout.splitlines()


def main() -> int:
    transcripts = {name: run(tree) for name, tree in TREES.items()}
    orig, new = transcripts["orig"], transcripts["new"]

    failures = 0
    for i, (a, b) in enumerate(zip(orig, new)):
        if a != b:
            failures += 1
            if failures <= 10:
                print("DIFF line %d:\n  orig: %s\n  new:  %s"
                      % (i, a[:300], b[:300]))

    if len(orig) != len(new):
        print("transcript lengths differ: %d vs %d" % (len(orig), len(new)))
        failures += 1

    excs = sum(" -> EXC " in line for line in orig)
    print("records: %d (of which exceptions: %d), differences: %d"
          % (len(orig), excs, failures))

    assert len(orig) > 300, "scenario too small"
    assert failures == 0, "transcripts differ"
    print("OK: transcripts identical")
    return 0


if __name__ == "__main__":
    if len(sys.argv) >= 3 and sys.argv[1] == "--child":
        child(sys.argv[2])
    else:
        sys.exit(main())
