#!/usr/bin/env python
"""Differential check for the C01 refactoring (gscrib/gcode_core.py).

Runs the same seeded driver against two source trees (the untouched
/repo and the refactored /tmp/wtT-C01), each in its own subprocess, and
asserts that the two transcripts are byte-identical.

Observed per call: lines delivered to a registered in-process writer,
`position`, `distance_mode`, state position/mode (builder), the repr of
return values (repr keeps float / numpy scalar types, -0.0, nan, inf
apart) and the type name of any exception raised.

  parent:  python equiv.py
  child :  python equiv.py --drive      (PYTHONPATH selects the tree)
"""

import json
import os
import subprocess
import sys

TREES = {"base": "/repo", "twin": "/tmp/wtT-C01"}
SEEDS = int(os.environ.get("EQUIV_SEEDS", "260"))
PYTHON = "/venv/bin/python"


# ---------------------------------------------------------------------
# Child: drive one tree
# ---------------------------------------------------------------------

def drive():
    import math
    import random
    import logging

    import numpy as np

    import gscrib
    from gscrib import GCodeBuilder, GCodeCore
    from gscrib.geometry import Point
    from gscrib.writers import BaseWriter
    from gscrib.excepts import DeviceWriteError

    logging.disable(logging.CRITICAL)
    assert os.path.dirname(os.path.dirname(gscrib.__file__)) == \
        os.environ["EXPECT_TREE"], gscrib.__file__

    class Recorder(BaseWriter):
        """In-process fake device: records bytes, can fail on demand."""

        def __init__(self):
            self.lines = []
            self.fail_in = None      # fail at the n-th next write
            self.fail_with = None

        def connect(self):
            return self

        def disconnect(self, wait=True):
            pass

        def write(self, statement):
            if self.fail_in is not None:
                self.fail_in -= 1
                if self.fail_in <= 0:
                    self.fail_in = None
                    raise self.fail_with
            self.lines.append(statement.decode("utf-8"))

    class Boom(Exception):
        pass

    SPECIAL = [
        0, 0.0, -0.0, 1, -1, 0.5, 1e-7, -1e-7, 1e9, 123456.789012,
        float("nan"), float("inf"), float("-inf"),
        np.float64(2.5), np.float32(1.25), np.int64(3), np.float64(-0.0),
        True,
    ]

    def coord(rng):
        k = rng.random()
        if k < 0.25:
            return None
        if k < 0.40:
            return rng.choice(SPECIAL)
        if k < 0.55:
            return rng.randint(-50, 50)
        return round(rng.uniform(-200, 200), rng.randint(0, 7))

    def finite_coord(rng):
        if rng.random() < 0.3:
            return None
        return round(rng.uniform(-100, 100), rng.randint(0, 6))

    def point_like(rng, finite=False):
        c = finite_coord if finite else coord
        k = rng.random()
        xyz = (c(rng), c(rng), c(rng))
        if k < 0.35:
            return Point(*xyz)
        if k < 0.55:
            return list(xyz)
        if k < 0.75:
            return tuple(xyz)
        if k < 0.85:
            return tuple(xyz[:2])
        if k < 0.90:
            return np.array([v if v is not None else 0.0 for v in xyz])
        return tuple(xyz)

    def bad_point_like(rng):
        return rng.choice([
            (1, 2, 3, 4), "abc", "xy", 5, 2.5, (), [], [1], ("a", "b", "c"),
            (None, None, None, None), {"x": 1}, (1, "2", 3), b"123",
            Point(1, 2, 3) + Point(1, 1, 1), [[1, 2], [3, 4]], object(),
        ])

    def snapshot(g, rec):
        out = {
            "pos": repr(tuple(g.position)),
            "mode": repr(g.distance_mode),
            "n": len(rec.lines),
        }
        if isinstance(g, GCodeBuilder):
            out["spos"] = repr(tuple(g.state.position))
            out["smode"] = repr(g.state.distance_mode)
        return out

    def call(log, g, rec, name, fn):
        before = len(rec.lines)
        entry = {"op": name}
        try:
            ret = fn()
            entry["ret"] = repr(ret)
        except BaseException as e:   # noqa: transcript wants everything
            entry["exc"] = type(e).__name__
            ctx = e.__context__
            entry["ctx"] = type(ctx).__name__ if ctx is not None else None
        entry["lines"] = rec.lines[before:]
        entry.update(snapshot(g, rec))
        log.append(entry)

    def kw_of(rng, finite=False):
        c = finite_coord if finite else coord
        kw = {}
        for axis in rng.sample(["x", "y", "z"], rng.randint(0, 3)):
            kw[axis] = c(rng)
        if rng.random() < 0.3:
            kw["F"] = rng.choice([100, 1500.5, 0, -1, None, "fast"])
        if rng.random() < 0.15:
            kw["comment"] = rng.choice(["c", "", "a(b)", "x;y"])
        if rng.random() < 0.1:
            kw["E"] = rng.choice([0.1, 2, np.float64(0.25)])
        return kw

    def motion(rng, g, rec, log, depth):
        """One random operation (possibly a nested context)."""

        is_builder = isinstance(g, GCodeBuilder)
        ops = [
            "move", "rapid", "move_abs", "rapid_abs", "set_axis", "mode",
            "to_abs", "to_abs_list", "to_dm", "ctx", "ctx", "ctx",
            "bad_to_abs", "bad_to_abs_list", "fail_next", "decorator",
            "reuse",
        ]
        if is_builder:
            ops += ["home", "probe", "polyline", "spline", "arc", "bounds",
                    "transform", "polyline_bad"]
        op = rng.choice(ops)

        def args():
            if rng.random() < 0.5:
                return (point_like(rng),), {}
            return (), kw_of(rng)

        if op in ("move", "rapid", "move_abs", "rapid_abs", "set_axis"):
            meth = {"move": g.move, "rapid": g.rapid,
                    "move_abs": g.move_absolute,
                    "rapid_abs": g.rapid_absolute,
                    "set_axis": g.set_axis}[op]
            a, k = args()
            if rng.random() < 0.08:
                a = (bad_point_like(rng),)
            call(log, g, rec, op, lambda: meth(*a, **k))
        elif op == "home":
            a, k = args()
            call(log, g, rec, op, lambda: g.auto_home(*a, **k))
        elif op == "probe":
            a, k = args()
            m = rng.choice(["towards", "away", "towards-no-error",
                            "away-no-error", "nope"])
            call(log, g, rec, op, lambda: g.probe(m, *a, **k))
        elif op == "mode":
            m = rng.choice(["absolute", "relative", "relative", "bogus",
                            None, 3])
            call(log, g, rec, op, lambda: g.set_distance_mode(m))
        elif op == "to_abs":
            p = point_like(rng)
            call(log, g, rec, op, lambda: g.to_absolute(p))
        elif op == "bad_to_abs":
            p = bad_point_like(rng)
            call(log, g, rec, op, lambda: g.to_absolute(p))
        elif op == "to_abs_list":
            n = rng.choice([0, 0, 1, 2, 3, 7])
            pts = [point_like(rng) for _ in range(n)]
            if rng.random() < 0.3:
                pts = tuple(pts)
            call(log, g, rec, op, lambda: g.to_absolute_list(pts))
        elif op == "bad_to_abs_list":
            n = rng.choice([1, 2, 4])
            pts = [point_like(rng) for _ in range(n)]
            pts.insert(rng.randint(0, n), bad_point_like(rng))
            k = rng.random()
            if k < 0.15:
                pts = None
            elif k < 0.3:
                pts = "abc"
            elif k < 0.4:
                pts = iter(pts)
            elif k < 0.5:
                pts = 7
            call(log, g, rec, op, lambda: g.to_absolute_list(pts))
        elif op == "to_dm":
            p = Point(coord(rng), coord(rng), coord(rng))
            call(log, g, rec, op, lambda: g.to_distance_mode(p))
        elif op == "polyline":
            pts = [point_like(rng, True) for _ in range(rng.randint(0, 4))]
            k = {"F": 300} if rng.random() < 0.3 else {}
            call(log, g, rec, op, lambda: g.trace.polyline(pts, **k))
        elif op == "polyline_bad":
            pts = [point_like(rng, True), bad_point_like(rng),
                   point_like(rng, True)]
            call(log, g, rec, op, lambda: g.trace.polyline(pts))
        elif op == "spline":
            pts = [(rng.randint(-9, 9), rng.randint(-9, 9))
                   for _ in range(rng.randint(0, 4))]
            if rng.random() < 0.3:
                pts = [p + (rng.randint(-3, 3),) for p in pts]
            call(log, g, rec, op, lambda: g.trace.spline(pts))
        elif op == "arc":
            t = (rng.randint(-9, 9), rng.randint(-9, 9))
            c = (rng.randint(-5, 5), rng.randint(-5, 5))
            call(log, g, rec, op, lambda: g.trace.arc(t, c))
        elif op == "bounds":
            lo = rng.choice([-300, -50, -5])
            hi = rng.choice([5, 50, 300])
            call(log, g, rec, op, lambda: g.set_bounds(
                "axes", (lo, lo, lo), (hi, hi, hi)))
        elif op == "transform":
            k = rng.random()
            if k < 0.4:
                v = (rng.randint(-5, 5), rng.randint(-5, 5), 0)
                call(log, g, rec, op, lambda: g.transform.translate(*v))
            elif k < 0.6:
                call(log, g, rec, op, lambda: g.transform.scale(2))
            else:
                def reset():
                    g._transformer = type(g._transformer)()
                call(log, g, rec, "transform_reset", reset)
        elif op == "fail_next":
            rec.fail_in = rng.randint(1, 3)
            rec.fail_with = rng.choice([
                DeviceWriteError("x"), Boom("x"), ValueError("x"),
                StopIteration("x"), KeyboardInterrupt()])
            log.append({"op": "arm_fail", "in": rec.fail_in,
                        "with": type(rec.fail_with).__name__})
        elif op == "decorator":
            cm = rng.choice([g.absolute_mode, g.relative_mode])()

            @cm
            def decorated(p):
                g.move(p)
                return g.position

            for _ in range(rng.randint(1, 2)):
                p = point_like(rng)
                call(log, g, rec, op, lambda: decorated(p))
        elif op == "reuse":
            which = rng.choice(["absolute_mode", "relative_mode"])
            cm = getattr(g, which)()
            call(log, g, rec, "cm_type", lambda: (
                type(cm).__name__, hasattr(cm, "__enter__"),
                hasattr(cm, "__exit__"), callable(cm)))
            call(log, g, rec, "enter1", cm.__enter__)
            call(log, g, rec, "enter2", cm.__enter__)
            call(log, g, rec, "exit1",
                 lambda: cm.__exit__(None, None, None))
            call(log, g, rec, "exit2",
                 lambda: cm.__exit__(None, None, None))
        elif op == "ctx":
            if depth >= 3:
                return
            which = rng.choice(["absolute_mode", "relative_mode"])
            raise_inside = rng.choice([None, None, None, Boom, ValueError,
                                       StopIteration, GeneratorExit,
                                       KeyboardInterrupt])
            n_inner = rng.randint(0, 4)
            lazy = rng.random() < 0.2

            def body():
                cm = getattr(g, which)()
                if lazy:
                    # creating the manager must not emit / switch anything
                    log.append({"op": "created", **snapshot(g, rec)})
                    if rng.random() < 0.5:
                        g.set_distance_mode(
                            rng.choice(["absolute", "relative"]))
                with cm as bound:
                    log.append({"op": "enter:" + which,
                                "as": repr(bound), **snapshot(g, rec)})
                    for _ in range(n_inner):
                        motion(rng, g, rec, log, depth + 1)
                    if raise_inside is not None:
                        raise raise_inside("inside")
                return "done"

            call(log, g, rec, "ctx:" + which, body)

    def scenario(seed):
        rng = random.Random(seed)
        log = []
        rec = Recorder()
        cls = GCodeBuilder if seed % 4 else GCodeCore
        cfg = {}
        if rng.random() < 0.3:
            cfg["decimal_places"] = rng.choice([0, 1, 3, 8])
        g = cls(**cfg)
        g.add_writer(rec)
        log.append({"op": "new", "cls": cls.__name__, "cfg": cfg,
                    **snapshot(g, rec)})
        if rng.random() < 0.5:
            call(log, g, rec, "mode0",
                 lambda: g.set_distance_mode("relative"))
        for _ in range(rng.randint(8, 22)):
            motion(rng, g, rec, log, 0)
        log.append({"op": "end", "all": rec.lines, **snapshot(g, rec)})
        return log

    def api_facts():
        import inspect
        facts = {}
        for name in ("absolute_mode", "relative_mode", "to_absolute",
                     "to_absolute_list"):
            for cls in (GCodeCore, GCodeBuilder):
                f = getattr(cls, name)
                facts[f"{cls.__name__}.{name}"] = {
                    "sig": str(inspect.signature(f)),
                    "callable": callable(f),
                    "doc": inspect.getdoc(f),
                }
        public = sorted(n for n in dir(GCodeBuilder) if not n.startswith("_"))
        facts["public"] = public
        return facts

    transcript = {"api": api_facts(),
                  "runs": [scenario(s) for s in range(SEEDS)]}
    json.dump(transcript, sys.stdout, sort_keys=True)


# ---------------------------------------------------------------------
# Parent: run both trees, compare
# ---------------------------------------------------------------------

def run_tree(label, path):
    env = dict(os.environ)
    env["PYTHONPATH"] = path
    env["EXPECT_TREE"] = path
    env["PYTHONHASHSEED"] = "0"
    env["PYTHONDONTWRITEBYTECODE"] = "1"
    proc = subprocess.run(
        [PYTHON, os.path.abspath(__file__), "--drive"],
        env=env, cwd="/tmp/twin-C01", stdin=subprocess.DEVNULL,
        stdout=subprocess.PIPE, stderr=subprocess.PIPE, timeout=600)
    if proc.returncode != 0:
        sys.stderr.write(proc.stderr.decode()[-4000:])
        raise SystemExit(f"driver failed for {label} ({path})")
    return proc.stdout.decode()


def main():
    outs = {label: run_tree(label, path) for label, path in TREES.items()}
    base, twin = json.loads(outs["base"]), json.loads(outs["twin"])

    if base != twin:
        for i, (a, b) in enumerate(zip(base["runs"], twin["runs"])):
            if a != b:
                for j, (ea, eb) in enumerate(zip(a, b)):
                    if ea != eb:
                        print(f"seed {i} step {j}:\n base {ea}\n twin {eb}")
                        break
                break
        if base["api"] != twin["api"]:
            print("api facts differ")
        raise SystemExit("TRANSCRIPTS DIFFER")

    assert outs["base"] == outs["twin"]

    steps = sum(len(r) for r in base["runs"])
    excs = {}
    lines = 0
    for run in base["runs"]:
        for e in run:
            if "exc" in e:
                excs[e["exc"]] = excs.get(e["exc"], 0) + 1
            lines += len(e.get("lines", ()))
    print(f"identical transcripts: {len(base['runs'])} scenarios, "
          f"{steps} recorded steps, {lines} emitted lines, "
          f"{len(outs['base'])} bytes")
    print("exceptions seen (same in both):",
          ", ".join(f"{k}={v}" for k, v in sorted(excs.items())))
    return 0


if __name__ == "__main__":
    if "--drive" in sys.argv:
        drive()
    else:
        sys.exit(main())
