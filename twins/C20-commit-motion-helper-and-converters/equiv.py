#!/usr/bin/env python
"""Differential check for the C20 twin refactoring of gscrib/gcode_core.py.

Runs the same seeded scenarios against /repo (reference) and /tmp/wtU-C20
(refactored) in two separate subprocesses and asserts that the transcripts
(emitted lines, hook calls, state, return values, exception type names and
messages) are identical.  Exit status 0 means identical.

Usage:  /venv/bin/python /tmp/twin2-C20/equiv.py
"""

import json
import math
import os
import random
import subprocess
import sys

REFERENCE = "/repo"
REFACTORED = "/tmp/wtU-C20"
SCENARIOS = 400
OPS_PER_SCENARIO = 14


# ----------------------------------------------------------------------
# Worker: runs inside a subprocess with PYTHONPATH pointing at one tree
# ----------------------------------------------------------------------

def worker() -> None:
    import numpy as np
    import gscrib
    from gscrib import GCodeBuilder, GCodeCore
    from gscrib.geometry import Point
    from gscrib.hooks import extrusion_hook
    from gscrib.params import ParamsDict
    from gscrib.writers import BaseWriter

    expected_root = os.environ["EQUIV_EXPECTED_ROOT"]
    assert os.path.realpath(gscrib.__file__).startswith(
        os.path.realpath(expected_root) + os.sep), gscrib.__file__

    def enc(value):
        """Exact, JSON-friendly encoding of any observable value."""

        if value is None or isinstance(value, (bool, str)):
            return value
        if isinstance(value, Point):
            return ["Point"] + [enc(v) for v in value]
        if isinstance(value, (int, float, np.integer, np.floating)):
            return [type(value).__name__, repr(value)]
        if isinstance(value, bytes):
            return ["bytes", value.decode("latin-1")]
        if isinstance(value, dict):
            return [type(value).__name__,
                [[enc(k), enc(v)] for k, v in value.items()]]
        if isinstance(value, (list, tuple)):
            return [type(value).__name__] + [enc(v) for v in value]
        return [type(value).__name__, repr(value)]

    class RecordingWriter(BaseWriter):
        def __init__(self, log, fail_at=None):
            self.log = log
            self.fail_at = fail_at
            self.count = 0

        def connect(self):
            return self

        def disconnect(self, wait=True):
            self.log.append(["disconnect", wait])

        def write(self, statement):
            self.count += 1
            self.log.append(["write", enc(statement)])
            if self.fail_at is not None and self.count == self.fail_at:
                raise OSError("fake writer failure")

        def flush(self):
            self.log.append(["flush"])

    class HookError(Exception):
        pass

    def make_recording_hook(log, tag):
        def hook(origin, target, params, state):
            log.append(["hook", tag, enc(origin), enc(target), enc(params),
                enc(state.position), str(state.distance_mode),
                str(state.extrusion_mode), enc(state.get_parameter("E"))])
            return params
        return hook

    def make_failing_hook(log, fail_at):
        calls = {"n": 0}
        def hook(origin, target, params, state):
            calls["n"] += 1
            if calls["n"] == fail_at:
                log.append(["hook-raises"])
                raise HookError("hook failure")
            return params
        return hook

    def make_replacing_hook(log):
        def hook(origin, target, params, state):
            fresh = ParamsDict(params)
            fresh["Q"] = round(math.hypot(target.x - origin.x,
                                          target.y - origin.y), 6)
            return fresh
        return hook

    def snapshot(g):
        snap = {
            "position": enc(g.position),
            "distance_mode": str(g.distance_mode),
            "params": enc(g._current_params),
            "E": enc(g.get_parameter("E")),
            "F": enc(g.get_parameter("F")),
        }
        if isinstance(g, GCodeBuilder):
            st = g.state
            snap.update({
                "s.position": enc(st.position),
                "s.distance_mode": str(st.distance_mode),
                "s.extrusion_mode": str(st.extrusion_mode),
                "s.feed_rate": enc(st.feed_rate),
                "s.tool_power": enc(st.tool_power),
                "s.E": enc(st.get_parameter("E")),
                "s.halt_mode": str(st.halt_mode),
                "hooks": len(g._hooks),
            })
        return snap

    SPECIAL = [0, 0.0, -0.0, 1, -1, 1e-9, 1e9, 0.1, 12.5, -7.25,
               float("nan"), float("inf"), float("-inf")]
    INVALID = ["ten", b"1", [1], {"x": 1}, object, 1 + 2j]

    def coordinate(rng, allow_none=True, allow_bad=True):
        roll = rng.random()
        if allow_none and roll < 0.15:
            return None
        if roll < 0.25:
            return rng.choice(SPECIAL)
        if allow_bad and roll < 0.28:
            return rng.choice(INVALID)
        if roll < 0.40:
            return rng.randint(-50, 50)
        if roll < 0.45:
            return np.float64(rng.uniform(-50, 50))
        if roll < 0.48:
            return np.int64(rng.randint(-50, 50))
        return round(rng.uniform(-100, 100), rng.randint(0, 7))

    def point_like(rng):
        roll = rng.random()
        n = rng.choice([0, 1, 2, 3, 3, 3, 4])
        values = [coordinate(rng) for _ in range(n)]
        if roll < 0.3:
            return Point(*values[:3])
        if roll < 0.6:
            return tuple(values)
        if roll < 0.8:
            return list(values)
        if roll < 0.9:
            return np.array([rng.uniform(-20, 20) for _ in range(n)])
        return rng.choice([None, "xyz", 5, 2.5, Point.unknown(), Point.zero()])

    def move_kwargs(rng):
        kwargs = {}
        for key in ("x", "y", "z", "X", "Y"):
            if rng.random() < 0.35:
                kwargs[key] = coordinate(rng)
        if rng.random() < 0.3:
            kwargs[rng.choice(["F", "f"])] = rng.choice(
                [100, 1500.5, 0, -5, float("nan"), "fast", None,
                 np.float64(300)])
        if rng.random() < 0.15:
            kwargs["S"] = rng.choice([0, 10, -1, 1e9, "s", None])
        if rng.random() < 0.15:
            kwargs[rng.choice(["E", "e"])] = rng.choice([0.0, 1.5, -2, None])
        if rng.random() < 0.2:
            kwargs["comment"] = rng.choice(
                ["hello", "", "a;b", "multi\nline", "(paren)", None, 5])
        if rng.random() < 0.05:
            kwargs[rng.choice(["prepare", "kwargs", "move", "params",
                               "target_axes", "self_", "A"])] = rng.choice(
                [1, 2.5, "v", None])
        return kwargs

    def good_point(rng, dims=None):
        dims = dims or rng.choice([2, 3])
        return tuple(round(rng.uniform(-30, 30), 3) for _ in range(dims))

    def run_scenario(seed):
        rng = random.Random(seed)
        log = []
        use_core = rng.random() < 0.15
        cls = GCodeCore if use_core else GCodeBuilder
        config = {}
        if rng.random() < 0.3:
            config["decimal_places"] = rng.choice([0, 1, 3, 8])
        if rng.random() < 0.2:
            config["x_axis"] = "A"
        if rng.random() < 0.2:
            config["line_endings"] = rng.choice(["\n", "\r\n", "os"])
        g = cls(**config)
        fail_at = rng.randint(1, 12) if rng.random() < 0.2 else None
        g.add_writer(RecordingWriter(log, fail_at))
        if rng.random() < 0.2:
            g.add_writer(RecordingWriter(log))

        hooks = []
        if not use_core:
            if rng.random() < 0.8:
                hooks.append(make_recording_hook(log, "pre"))
            if rng.random() < 0.75:
                hooks.append(extrusion_hook(
                    layer_height=rng.choice([0.2, 0.1, 0.33, 1.0]),
                    nozzle_diameter=rng.choice([0.4, 0.6, 0.25]),
                    filament_diameter=rng.choice([1.75, 2.85, 3.0])))
            if rng.random() < 0.25:
                hooks.append(make_replacing_hook(log))
            if rng.random() < 0.2:
                hooks.append(make_failing_hook(log, rng.randint(1, 8)))
            if rng.random() < 0.6:
                hooks.append(make_recording_hook(log, "post"))
            for hook in hooks:
                g.add_hook(hook)

        def op_motion():
            name = rng.choice(["move", "move", "move", "rapid",
                               "move_absolute", "rapid_absolute"])
            method = getattr(g, name)
            style = rng.random()
            if style < 0.45:
                args, kwargs = (), move_kwargs(rng)
            elif style < 0.8:
                args, kwargs = (point_like(rng),), move_kwargs(rng)
            elif style < 0.9:
                args, kwargs = (), {"point": point_like(rng), **move_kwargs(rng)}
            else:
                args = (good_point(rng), good_point(rng))  # too many args
                kwargs = {}
            log.append(["call", name, enc(args), enc(kwargs)])
            return method(*args, **kwargs)

        def op_good_motion():
            name = rng.choice(["move", "move", "rapid", "move_absolute",
                               "rapid_absolute"])
            kwargs = {}
            if rng.random() < 0.4:
                kwargs["F"] = rng.choice([600, 1200, 3000.5])
            if rng.random() < 0.5:
                axes = dict(zip("xyz", good_point(rng, 3)))
                for key in list(axes):
                    if rng.random() < 0.3:
                        del axes[key]
                log.append(["call", name, enc(axes), enc(kwargs)])
                return getattr(g, name)(**axes, **kwargs)
            point = good_point(rng)
            log.append(["call", name, enc(point), enc(kwargs)])
            return getattr(g, name)(point, **kwargs)

        def op_distance_mode():
            mode = rng.choice(["absolute", "relative", "relative", "bogus"])
            log.append(["call", "set_distance_mode", mode])
            return g.set_distance_mode(mode)

        def op_extrusion_mode():
            if use_core:
                return None
            mode = rng.choice(["absolute", "relative", "bogus"])
            log.append(["call", "set_extrusion_mode", mode])
            return g.set_extrusion_mode(mode)

        def op_set_axis():
            roll = rng.random()
            if roll < 0.5:
                kwargs = {"E": rng.choice([0, 0.0, 5.5, -1])}
            elif roll < 0.8:
                kwargs = dict(zip("xyz", good_point(rng, 3)))
            else:
                kwargs = move_kwargs(rng)
            log.append(["call", "set_axis", enc(kwargs)])
            return g.set_axis(**kwargs)

        def op_convert():
            name = rng.choice(["to_absolute", "to_distance_mode",
                               "to_absolute_list"])
            if name == "to_absolute_list":
                arg = [point_like(rng) for _ in range(rng.randint(0, 3))]
            else:
                arg = point_like(rng)
            log.append(["call", name, enc(arg)])
            return getattr(g, name)(arg)

        def op_transform():
            roll = rng.random()
            if roll < 0.35:
                args = good_point(rng)
                log.append(["call", "translate", enc(args)])
                return g.transform.translate(*args)
            if roll < 0.6:
                angle = rng.choice([90, 45, -30, 12.5])
                axis = rng.choice(["x", "y", "z"])
                log.append(["call", "rotate", angle, axis])
                return g.transform.rotate(angle, axis)
            if roll < 0.8:
                factor = rng.choice([2, 0.5, 1.5])
                log.append(["call", "scale", factor])
                return g.transform.scale(factor)
            log.append(["call", "mirror"])
            return g.transform.mirror(rng.choice(["xy", "yz", "zx"]))

        def op_bounds():
            if use_core:
                return None
            roll = rng.random()
            if roll < 0.6:
                low = rng.choice([-20, -50, 0])
                high = rng.choice([20, 50, 10])
                log.append(["call", "set_bounds axes", low, high])
                return g.set_bounds("axes", (low,) * 3, (high,) * 3)
            log.append(["call", "set_bounds feed-rate"])
            return g.set_bounds("feed-rate", 100, 2000)

        def op_trace():
            if use_core:
                return None
            g.set_resolution(rng.choice([0.5, 1.0, 2.5]))
            kind = rng.choice(["polyline", "arc", "circle", "spline",
                               "arc_radius"])
            kwargs = {"F": 900} if rng.random() < 0.3 else {}
            log.append(["call", "trace." + kind])
            if kind == "polyline":
                points = [good_point(rng) for _ in range(rng.randint(0, 4))]
                return g.trace.polyline(points, **kwargs)
            if kind == "arc":
                radius = rng.choice([3, 5, 8])
                if rng.random() < 0.2:
                    return g.trace.arc((radius, radius + 1), (radius, 0))
                target = (radius, radius) if rng.random() < 0.5 else (
                    radius, -radius, rng.choice([0, 2]))
                if not g.distance_mode.is_relative:
                    here = g.position.resolve()
                    target = (here.x + target[0], here.y + target[1],
                              here.z + (target[2] if len(target) > 2 else 0))
                return g.trace.arc(target, (radius, 0), **kwargs)
            if kind == "circle":
                return g.trace.circle((rng.choice([2, 4, -3]), 0), **kwargs)
            if kind == "spline":
                points = [good_point(rng) for _ in range(rng.randint(1, 3))]
                return g.trace.spline(points, **kwargs)
            return g.trace.arc_radius(good_point(rng, 2),
                                      rng.choice([40, -45, 1, 0]), **kwargs)

        def op_hook_context():
            if use_core:
                return None
            extra = make_recording_hook(log, "ctx")
            log.append(["call", "move_hook context"])
            with g.move_hook(extra):
                op_good_motion()
                if rng.random() < 0.5:
                    with g.relative_mode():
                        op_good_motion()
                if rng.random() < 0.3:
                    op_motion()

        def op_mode_context():
            log.append(["call", "mode context"])
            manager = rng.choice([g.absolute_mode, g.relative_mode])
            with manager():
                op_good_motion()
                if rng.random() < 0.5:
                    op_motion()

        def op_remove_hook():
            if use_core or not hooks:
                return None
            hook = rng.choice(hooks)
            log.append(["call", "remove/add hook"])
            if rng.random() < 0.5:
                return g.remove_hook(hook)
            return g.add_hook(hook)

        operations = (
            [op_good_motion] * 6 + [op_motion] * 5 + [op_distance_mode] * 2 +
            [op_extrusion_mode] * 2 + [op_set_axis] * 2 + [op_convert] * 2 +
            [op_transform] + [op_bounds] + [op_trace] * 2 +
            [op_hook_context] + [op_mode_context] + [op_remove_hook]
        )

        for _ in range(OPS_PER_SCENARIO):
            operation = rng.choice(operations)
            try:
                result = operation()
                log.append(["ok", enc(result)])
            except BaseException as error:  # pylint: disable=broad-except
                if isinstance(error, (KeyboardInterrupt, SystemExit)):
                    raise
                log.append(["raised", type(error).__name__, str(error)])
            log.append(["state", snapshot(g)])

        try:
            g.teardown()
            log.append(["teardown ok"])
        except Exception as error:  # pylint: disable=broad-except
            log.append(["teardown raised", type(error).__name__, str(error)])

        return log

    transcript = [[seed, run_scenario(seed)] for seed in range(SCENARIOS)]
    json.dump(transcript, sys.stdout)


# ----------------------------------------------------------------------
# Driver
# ----------------------------------------------------------------------

def run_tree(root: str) -> list:
    env = dict(os.environ)
    env["PYTHONPATH"] = root
    env["PYTHONHASHSEED"] = "0"
    env["EQUIV_EXPECTED_ROOT"] = root
    env["PYTHONDONTWRITEBYTECODE"] = "1"

    process = subprocess.run(
        [sys.executable, os.path.abspath(__file__), "--worker"],
        env=env, cwd="/tmp", stdin=subprocess.DEVNULL,
        stdout=subprocess.PIPE, stderr=subprocess.PIPE,
        timeout=600, check=False)

    if process.returncode != 0:
        sys.stderr.write(process.stderr.decode(errors="replace"))
        raise SystemExit(f"worker for {root} failed ({process.returncode})")

    return json.loads(process.stdout)


def main() -> int:
    reference = run_tree(REFERENCE)
    refactored = run_tree(REFACTORED)

    assert len(reference) == len(refactored) == SCENARIOS

    events = writes = hook_calls = raised = 0
    exception_types = {}

    for (seed_a, log_a), (seed_b, log_b) in zip(reference, refactored):
        assert seed_a == seed_b
        if log_a != log_b:
            for index, (a, b) in enumerate(zip(log_a, log_b)):
                if a != b:
                    print(f"MISMATCH seed {seed_a} event {index}")
                    print("  reference :", json.dumps(a)[:600])
                    print("  refactored:", json.dumps(b)[:600])
                    break
            else:
                print(f"MISMATCH seed {seed_a}: lengths "
                      f"{len(log_a)} vs {len(log_b)}")
            return 1
        for event in log_a:
            events += 1
            writes += event[0] == "write"
            hook_calls += event[0] == "hook"
            if event[0] == "raised":
                raised += 1
                exception_types[event[1]] = exception_types.get(event[1], 0) + 1

    print(f"identical transcripts: {SCENARIOS} scenarios, {events} events, "
          f"{writes} emitted lines, {hook_calls} recorded hook calls, "
          f"{raised} exceptions {exception_types}")
    assert writes > 1000 and hook_calls > 1000 and raised > 100
    return 0


if __name__ == "__main__":
    if "--worker" in sys.argv[1:]:
        worker()
    else:
        sys.exit(main())
