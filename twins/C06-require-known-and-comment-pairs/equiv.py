#!/usr/bin/env python
"""Differential check: /repo (reference) versus /tmp/wtW-C06 (refactored).

Parent mode runs this same file as a worker in two subprocesses with a
different PYTHONPATH, and compares the JSON transcripts they print.
"""

import json
import os
import subprocess
import sys

TREES = {"ref": "/repo", "new": "/tmp/wtW-C06"}
SEED = 60606


def worker():
    import math
    import random

    import numpy as np
    import gscrib
    from gscrib import GCodeBuilder, GState
    from gscrib.writers import BaseWriter
    from gscrib.geometry.bounds import BoundManager
    from gscrib.geometry.point import Point
    from gscrib.formatters import DefaultFormatter
    from gscrib.enums import CoolantMode, HaltMode

    assert os.path.dirname(gscrib.__file__).startswith(os.environ["EXPECT_TREE"])

    rng = random.Random(SEED)
    log = []

    class FakeWriter(BaseWriter):
        def __init__(self):
            self.lines = []

        def connect(self):
            return self

        def disconnect(self, wait=True):
            pass

        def write(self, statement):
            self.lines.append(bytes(statement).decode("utf-8", "replace"))

        def flush(self):
            pass

    def show(value):
        if isinstance(value, float) and math.isnan(value):
            return "nan"
        return repr(value)

    def call(label, fn, *args, **kwargs):
        try:
            result = fn(*args, **kwargs)
            log.append([label, "ok", show(result)])
        except BaseException as exc:  # noqa
            log.append([label, "exc", type(exc).__name__, str(exc)])

    def state_of(state):
        names = (
            "is_tool_active", "is_coolant_active", "tool_power",
            "spin_mode", "power_mode", "coolant_mode", "halt_mode",
            "feed_rate", "tool_number", "tool_swap_mode",
            "temperature_units", "length_units",
            "target_bed_temperature", "target_hotend_temperature",
        )
        out = [show(getattr(state, n)) for n in names]
        for prop in ("tool-power", "feed-rate", "axes", "tool-number"):
            out.append(show(state.get_bounds(prop)))
        return out

    numbers = [
        0, 0.0, -0.0, 1, -1, 0.5, -0.5, 100, 1000.0, 1e-9, -1e-9, 1e12,
        float("nan"), float("inf"), float("-inf"), True, False,
        np.float64(2.5), np.float64(-3.0), np.float64("nan"), np.int64(7),
        np.float32(1.5), 255, 99.99999, 12000,
    ]
    junk = [None, "5", "", [1], (1, 2), {"a": 1}, 1 + 2j, b"x", object]
    points = [
        Point(0, 0, 0), Point(1, 2, 3), Point(-5, -5, -5), Point(10, 10, 10),
        Point(None, 1, None), Point(None, None, None), Point(0.5, -0.0, 1e6),
        Point(float("nan"), 0, 0), Point(100, -100, 0),
    ]
    prop_names = [
        "axes", "bed-temperature", "chamber-temperature",
        "hotend-temperature", "feed-rate", "tool-number", "tool-power",
        "bogus", "", "AXES", "tool_power", None, 3, ("axes",), ["axes"],
    ]

    def any_value():
        r = rng.random()
        if r < 0.6:
            return rng.choice(numbers)
        if r < 0.8:
            return rng.choice(points)
        if r < 0.9:
            return rng.uniform(-200, 200)
        return rng.choice(junk)

    # ---- 1. BoundManager in isolation --------------------------------
    for round_no in range(40):
        manager = BoundManager()
        for step in range(12):
            name = rng.choice(prop_names)
            op = rng.random()
            tag = f"bm{round_no}.{step}"
            if op < 0.4:
                low, high = any_value(), any_value()
                call(f"{tag} set {name!r} {show(low)} {show(high)}",
                     manager.set_bounds, name, low, high)
            elif op < 0.8:
                value = any_value()
                call(f"{tag} validate {name!r} {show(value)}",
                     manager.validate, name, value)
            else:
                call(f"{tag} get {name!r}", manager.get_bounds, name)
        log.append(["bm-final", sorted((k, show(v)) for k, v in manager._bounds.items())])

    # ---- 2. DefaultFormatter comment handling -------------------------
    symbols = [";", "(", "[", "{", "<", '"', "'", "/*", "#", ";;", " ( ",
               "//", "", "   ", ")", "*/", "(*", None, 5, "%", "{}", "{0}"]
    texts = ["plain", "", " ", "a)b", "x]y}z>", 'q"u\'o', "end */ more",
             "line1\nline2", "cr\r\nlf\rend\n", "tab\tbed", "{} {0} {x}",
             "uni sep\x0bvt\x0cff\x1cfs\x85nel", "Emergency halt: fire (now)",
             None, 12, b"bytes"]
    for sym in symbols:
        fmt = DefaultFormatter()
        call(f"fmt set_comment_symbols {sym!r}", fmt.set_comment_symbols, sym)
        log.append(["fmt-attrs", show(fmt._comment_template), show(fmt._comment_ending)])
        for text in texts:
            call(f"fmt[{sym!r}].comment {text!r}", fmt.comment, text)
            call(f"fmt[{sym!r}].command {text!r}", fmt.command, "M5", None, text)
            call(f"fmt[{sym!r}]._sanitize {text!r}", fmt._sanitize_comment, text)
        call(f"fmt[{sym!r}]._template", fmt._to_comment_template, sym)
        # a second change on the same object
        other = rng.choice(symbols)
        call(f"fmt re-set {other!r}", fmt.set_comment_symbols, other)
        log.append(["fmt-attrs2", show(fmt._comment_template), show(fmt._comment_ending)])
        call("fmt re-set comment", fmt.comment, "a)b]c}d>e*/f\ng")

    # ---- 3. GState in isolation ----------------------------------------
    from gscrib.enums import SpinMode, PowerMode, ToolSwapMode
    for round_no in range(40):
        state = GState()
        for step in range(14):
            tag = f"gs{round_no}.{step}"
            op = rng.randrange(10)
            if op == 0:
                name = rng.choice(["tool-power", "feed-rate", "tool-number", "axes"])
                low, high = any_value(), any_value()
                call(f"{tag} bounds {name} {show(low)} {show(high)}",
                     state._set_bounds, name, low, high)
            elif op == 1:
                mode = rng.choice(list(CoolantMode) + ["off", None, "flood"])
                call(f"{tag} coolant {mode!r}", state._set_coolant_mode, mode)
            elif op == 2:
                mode = rng.choice(list(HaltMode) + ["off", None])
                call(f"{tag} halt {mode!r}", state._set_halt_mode, mode)
            elif op == 3:
                value = any_value()
                call(f"{tag} feed {show(value)}", state._set_feed_rate, value)
                call(f"{tag} vfeed {show(value)}", state._validate_feed_rate, value)
            elif op == 4:
                value = any_value()
                call(f"{tag} power {show(value)}", state._set_tool_power, value)
                call(f"{tag} vpower {show(value)}", state._validate_tool_power, value)
            elif op == 5:
                mode = rng.choice(list(SpinMode))
                value = any_value()
                call(f"{tag} spin {mode!r} {show(value)}", state._set_spin_mode, mode, value)
            elif op == 6:
                mode = rng.choice(list(PowerMode))
                value = any_value()
                call(f"{tag} pmode {mode!r} {show(value)}", state._set_power_mode, mode, value)
            elif op == 7:
                call(f"{tag} spin-off", state._set_spin_mode, SpinMode.OFF)
                call(f"{tag} power-off", state._set_power_mode, PowerMode.OFF)
            elif op == 8:
                call(f"{tag} coolant-off", state._set_coolant_mode, CoolantMode.OFF)
            else:
                number = rng.choice([1, 0, -1, 5, 2.0, None, True])
                mode = rng.choice(list(ToolSwapMode))
                call(f"{tag} tool# {number!r}", state._set_tool_number, mode, number)
            log.append([tag, state_of(state)])

    # ---- 4. Builder scenarios (the property itself) --------------------
    bound_configs = [
        None, (0, 100), (1, 100), (10, 1000), (-5, -1), (0.001, 0.002),
        (-1000, 0), (5, 5), (9, 3), (float("-inf"), float("inf")),
        (float("nan"), 1), ("1", 2), (None, 4), (Point(0, 0, 0), Point(1, 1, 1)),
    ]
    comment_styles = [";", "(", "[", "/*", "#", '"']
    spin_modes = ["cw", "ccw", "clockwise", "counter", "off", "bogus"]
    power_modes = ["constant", "dynamic", "off", "bogus"]
    coolant_modes = ["flood", "mist", "off", "bogus"]
    halt_modes = [m.value for m in HaltMode] + ["bogus"]
    messages = ["overheat", "", "a)b\nc", "limit (X) hit */", "x" * 40, "{0} {}"]

    for round_no in range(90):
        writer = FakeWriter()
        style = rng.choice(comment_styles)
        try:
            g = GCodeBuilder(comment_symbols=style, line_endings="\\n",
                             decimal_places=rng.choice([0, 3, 5]))
        except BaseException as exc:  # noqa
            log.append([f"b{round_no} ctor", type(exc).__name__, str(exc)])
            continue
        g.add_writer(writer)
        config = rng.choice(bound_configs)
        if config is not None:
            call(f"b{round_no} set_bounds tool-power {show(config[0])} {show(config[1])}",
                 g.set_bounds, "tool-power", *config)
        if rng.random() < 0.3:
            call(f"b{round_no} set_bounds feed-rate", g.set_bounds, "feed-rate",
                 rng.choice([0, 10, -1]), rng.choice([5, 5000, 10]))
        if rng.random() < 0.3:
            call(f"b{round_no} set_bounds axes", g.set_bounds, "axes",
                 rng.choice(points), rng.choice(points))

        for step in range(rng.randrange(4, 14)):
            tag = f"b{round_no}.{step}"
            op = rng.randrange(16)
            if op == 0:
                mode, value = rng.choice(spin_modes), any_value()
                call(f"{tag} tool_on {mode} {show(value)}", g.tool_on, mode, value)
            elif op == 1:
                mode, value = rng.choice(power_modes), any_value()
                call(f"{tag} power_on {mode} {show(value)}", g.power_on, mode, value)
            elif op == 2:
                mode = rng.choice(coolant_modes)
                call(f"{tag} coolant_on {mode}", g.coolant_on, mode)
            elif op == 3:
                call(f"{tag} tool_off", g.tool_off)
            elif op == 4:
                call(f"{tag} power_off", g.power_off)
            elif op == 5:
                call(f"{tag} coolant_off", g.coolant_off)
            elif op == 6:
                mode = rng.choice(halt_modes)
                call(f"{tag} halt {mode}", g.halt, mode)
            elif op == 7:
                message, reset = rng.choice(messages), rng.choice([True, False])
                call(f"{tag} emergency_halt {message!r} {reset}",
                     g.emergency_halt, message, reset)
            elif op == 8:
                value = any_value()
                call(f"{tag} set_tool_power {show(value)}", g.set_tool_power, value)
            elif op == 9:
                value = any_value()
                call(f"{tag} set_feed_rate {show(value)}", g.set_feed_rate, value)
            elif op == 10:
                number = rng.choice([1, 3, 0, -2, 17, 2.5, None])
                mode = rng.choice(["manual", "automatic", "off", "bogus"])
                call(f"{tag} tool_change {mode} {number!r}", g.tool_change, mode, number)
            elif op == 11:
                point = rng.choice(points)
                call(f"{tag} move {point!r}", g.move, point, F=rng.choice([100, -1, 0]))
            elif op == 12:
                low, high = any_value(), any_value()
                name = rng.choice(["tool-power", "feed-rate", "tool-number", "axes", "bogus"])
                call(f"{tag} set_bounds {name} {show(low)} {show(high)}",
                     g.set_bounds, name, low, high)
            elif op == 13:
                message = rng.choice(messages)
                call(f"{tag} comment {message!r}", g.comment, message, 1, None)
            elif op == 14:
                call(f"{tag} stop", g.stop, rng.choice([True, False]))
                call(f"{tag} pause", g.pause, rng.choice([True, False]))
            else:
                units = rng.choice(["celsius", "kelvin", "bogus"])
                call(f"{tag} temp units {units}", g.set_temperature_units, units)
                call(f"{tag} bed temp", g.set_bed_temperature, rng.choice([60, -400, 0]))
            log.append([tag, state_of(g.state), len(writer.lines)])

        # the property's final sequence, from whatever state was reached
        for name in ("tool_off", "power_off", "coolant_off"):
            call(f"b{round_no} final {name}", getattr(g, name))
            log.append([f"b{round_no} after {name}", state_of(g.state)])
        call(f"b{round_no} final emergency", g.emergency_halt,
             rng.choice(messages), rng.choice([True, False]))
        log.append([f"b{round_no} end", state_of(g.state), writer.lines])
        call(f"b{round_no} teardown", g.teardown)

    json.dump({"calls": len(log), "log": log}, sys.stdout)


def main():
    outputs = {}
    for key, tree in TREES.items():
        env = dict(os.environ)
        env["PYTHONPATH"] = tree
        env["EXPECT_TREE"] = tree
        env["PYTHONHASHSEED"] = "0"
        env["PYTHONDONTWRITEBYTECODE"] = "1"
        proc = subprocess.run(
            [sys.executable, os.path.abspath(__file__), "--worker"],
            env=env, capture_output=True, text=True, timeout=600,
            stdin=subprocess.DEVNULL, cwd="/tmp/twin4-C06",
        )
        if proc.returncode != 0:
            print(f"worker {key} failed:\n{proc.stderr[-4000:]}")
            return 2
        outputs[key] = json.loads(proc.stdout)

    ref, new = outputs["ref"]["log"], outputs["new"]["log"]
    print(f"entries: ref={len(ref)} new={len(new)}")
    n_exc = sum(1 for e in ref if len(e) > 1 and e[1] == "exc")
    n_ok = sum(1 for e in ref if len(e) > 1 and e[1] == "ok")
    print(f"reference calls: ok={n_ok} raising={n_exc}")
    kinds = sorted({e[2] for e in ref if len(e) > 2 and e[1] == "exc"})
    print("exception types seen:", ", ".join(kinds))

    for index, (a, b) in enumerate(zip(ref, new)):
        if a != b:
            print(f"MISMATCH at entry {index}:\n  ref: {a}\n  new: {b}")
            return 1
    if len(ref) != len(new):
        print("MISMATCH: transcript lengths differ")
        return 1
    assert ref == new
    print("IDENTICAL transcripts")
    return 0


if __name__ == "__main__":
    if "--worker" in sys.argv:
        worker()
    else:
        sys.exit(main())
