#!/usr/bin/env python
"""Differential check for the C10 refactoring (PathTracer.arc_radius and
PathTracer._filter_segments in gscrib/geometry/tracer.py).

Runs the very same seeded scenario generator in two subprocesses, one
with PYTHONPATH=/repo (reference tree) and one with
PYTHONPATH=/tmp/wtT-C10 (refactored tree), and asserts that the two
transcripts are identical. A transcript records, per case: every line
emitted through a registered in-process writer, the builder position,
direction, resolution and distance mode afterwards, return values,
exception type names (and messages) and the categories of the warnings
that were issued. Exit status 0 means "no observable difference".
"""

import json
import os
import subprocess
import sys

REFERENCE = "/repo"
REFACTORED = "/tmp/wtT-C10"
SEED = 20261004


# ----------------------------------------------------------------------
# Worker: executed once per tree
# ----------------------------------------------------------------------

def worker():
    import math
    import random
    import time
    import warnings

    import numpy as np
    import gscrib
    from gscrib import GCodeBuilder
    from gscrib.geometry import Point
    from gscrib.geometry.tracer import PathTracer
    from gscrib.writers.base_writer import BaseWriter

    tree = os.path.dirname(os.path.dirname(os.path.abspath(gscrib.__file__)))
    rng = random.Random(SEED)
    transcript = []
    started = time.time()

    def progress(section):
        sys.stderr.write("%s: %s done after %.1fs (%d entries)\n" % (
            tree, section, time.time() - started, len(transcript)))

    class Recorder(BaseWriter):
        def __init__(self):
            self.lines = []

        def connect(self):
            return self

        def disconnect(self, wait=True):
            pass

        def write(self, statement):
            self.lines.append(bytes(statement).decode("utf-8"))

    def show(value):
        """Stable, lossless textual form of a value."""

        if isinstance(value, np.ndarray):
            return "ndarray%s%s:%s" % (
                value.dtype, list(value.shape),
                [show(v) for v in value.ravel().tolist()])
        if isinstance(value, (tuple, list)):
            return "%s(%s)" % (
                type(value).__name__, ",".join(show(v) for v in value))
        if isinstance(value, (float, np.floating)):
            return "%s:%s" % (type(value).__name__, float(value).hex()
                if math.isfinite(value) else repr(float(value)))
        return "%s:%r" % (type(value).__name__, value)

    def observe(g, recorder):
        return {
            "lines": list(recorder.lines),
            "position": show(tuple(g.position)),
            "direction": str(g.state.direction),
            "resolution": show(g.state.resolution),
            "mode": str(g.distance_mode),
        }

    def run(label, g, recorder, action, strict=False):
        """Run an action, recording everything that can be observed."""

        entry = {"label": label}
        began = time.time()

        if os.environ.get("EQUIV_TRACE"):
            sys.stderr.write("start: %s\n" % label[:400])

        with warnings.catch_warnings(record=True) as caught:
            warnings.simplefilter("error" if strict else "always")

            try:
                entry["return"] = show(action())
            except BaseException as e:  # noqa: transcript wants them all
                entry["raised"] = type(e).__name__
                entry["message"] = str(e)

            entry["warnings"] = [w.category.__name__ for w in caught]

        if g is not None:
            entry.update(observe(g, recorder))

        if time.time() - began > 2:
            sys.stderr.write("slow case (%.1fs, %d lines): %s\n" % (
                time.time() - began, len(entry.get("lines", ())),
                label[:400]))

        transcript.append(entry)

    def new_builder(**config):
        g = GCodeBuilder(**config)
        recorder = Recorder()
        g.add_writer(recorder)
        return g, recorder

    def coord(huge=True):
        kind = rng.random()
        if kind < 0.10:
            return float(rng.randint(-20, 20))
        if kind < 0.15:
            return 0.0
        if kind < 0.18:
            return -0.0
        if kind < 0.22:
            return rng.uniform(-1e-3, 1e-3)
        if kind < 0.25 and huge and allow_huge[0]:
            return rng.uniform(-1e4, 1e4)
        return rng.uniform(-50, 50)

    allow_huge = [True]

    def setup(g, huge=True):
        """Random but reproducible builder state."""

        allow_huge[0] = huge

        description = []
        resolution = rng.choice(
            [0.01, 0.05, 0.1, 0.25, 0.5, 1.0, 2.5, 7.0, 50.0,
             rng.uniform(0.02, 5)])
        g.set_resolution(resolution)
        description.append("res=%r" % resolution)

        direction = rng.choice(["cw", "ccw"])
        g.set_direction(direction)
        description.append(direction)

        if rng.random() < 0.15:
            angle = rng.choice([30, 45, 90, -60])
            axis = rng.choice(["x", "y", "z"])
            g.transform.rotate(angle, axis)
            description.append("rot%s%s" % (angle, axis))

        start = rng.random()

        if start < 0.12:
            description.append("start=unknown")
        elif start < 0.25:
            g.move(x=coord(), y=coord())
            description.append("start=xy")
        else:
            g.move(x=coord(), y=coord(), z=coord())
            description.append("start=xyz")

        mode = rng.choice(["absolute", "relative"])
        g.set_distance_mode(mode)
        description.append(mode)

        return ",".join(description)

    def chord_target(g, distance):
        """A target whose XY distance to the position is `distance`."""

        angle = rng.uniform(-math.pi, math.pi)
        dx = distance * math.cos(angle)
        dy = distance * math.sin(angle)

        if g.distance_mode.is_relative:
            target = [dx, dy]
        else:
            origin = g.position.resolve()
            target = [origin.x + dx, origin.y + dy]

        if rng.random() < 0.4:
            target.append(coord())

        shape = rng.random()

        if shape < 0.5:
            return tuple(target)
        if shape < 0.7:
            return list(target)
        if shape < 0.85:
            return Point(*target)
        return np.array(target)

    def random_kwargs():
        choice = rng.random()
        if choice < 0.6:
            return {}
        if choice < 0.8:
            return {"F": rng.choice([100, 1200.5])}
        if choice < 0.9:
            return {"comment": "twin"}
        return {"E": 0.25, "F": 300}

    # ------------------------------------------------------------------
    # 1. arc_radius: valid, boundary and invalid radii
    # ------------------------------------------------------------------

    def radius_for(distance):
        half = distance / 2
        kind = rng.random()

        if kind < 0.30:  # comfortably valid
            return rng.choice([-1, 1]) * half * rng.uniform(1.0001, 6)
        if kind < 0.38:  # exactly the half chord (semicircle)
            return rng.choice([-1, 1]) * half
        if kind < 0.50:  # just below the half chord, inside the margin
            return rng.choice([-1, 1]) * (half - rng.uniform(0, 0.0099))
        if kind < 0.56:  # right at the snapping margin
            return rng.choice([-1, 1]) * (half - 0.01)
        if kind < 0.64:  # just outside the margin
            return rng.choice([-1, 1]) * (half - rng.uniform(0.0101, 0.05))
        if kind < 0.70:  # clearly too small
            return rng.choice([-1, 1]) * half * rng.uniform(0, 0.9)
        if kind < 0.74:
            return rng.choice([0, 0.0, -0.0])
        if kind < 0.78:
            return rng.choice([float("nan"), float("inf"), -float("inf")])
        if kind < 0.82:  # numpy scalars
            value = half * rng.uniform(0.9, 3)
            return rng.choice([np.float64(value), np.float64(-value),
                np.float32(value)])
        if kind < 0.86:  # integers
            return rng.choice([-1, 1]) * max(1, int(half * 2))
        if kind < 0.90:  # wrong types
            return rng.choice([None, "10", True, (1, 2), 1j])
        if kind < 0.95:  # huge and tiny
            return rng.choice([1e6, -1e6, 1e-12, -1e-12, 1e300, -1e300])
        return rng.choice([-1, 1]) * half * (1 + rng.uniform(0, 1e-12))

    def bound_resolution(g, target, radius, distance, segments):
        if isinstance(radius, (int, float)) and abs(radius) < 1e100:
            rise = abs(g.to_absolute(target).z - g.position.resolve().z)
            longest = 2 * math.pi * max(abs(radius), distance / 2) + rise
            g.set_resolution(max(g.state.resolution, longest / segments))

    for index in range(420):
        g, recorder = new_builder()
        state = setup(g, huge=rng.random() < 0.1)
        recorder.lines.clear()

        kind = rng.random()

        if kind < 0.06:
            distance = 0.0  # target equals current position
        elif kind < 0.12:
            distance = rng.uniform(0, 0.02)
        elif kind < 0.20:
            distance = rng.uniform(100, 2000)
        else:
            distance = rng.uniform(0.05, 60)

        target = chord_target(g, distance)
        radius = radius_for(distance)
        kwargs = random_kwargs()
        strict = rng.random() < 0.25

        # Keep the number of emitted segments bounded: the longest
        # possible path is about a full turn of the requested radius

        bound_resolution(g, target, radius, distance, 250)

        if rng.random() < 0.03:
            target = rng.choice([(), (1,), None, "ab", (None, None),
                (1, 2, 3, 4), (None, 5)])

        label = "arc_radius#%d[%s] target=%s radius=%s kwargs=%r strict=%s" % (
            index, state, show(target), show(radius), kwargs, strict)

        run(label, g, recorder,
            lambda: g.trace.arc_radius(target, radius, **kwargs), strict)

        # A second call continues from wherever the first one ended

        if rng.random() < 0.3:
            distance = rng.uniform(0.5, 20)
            target = chord_target(g, distance)
            radius = radius_for(distance)
            bound_resolution(g, target, radius, distance, 40)
            run(label + " / again radius=%s" % show(radius), g, recorder,
                lambda: g.trace.arc_radius(target, radius=radius))

    progress("arc_radius")

    # ------------------------------------------------------------------
    # 2. _filter_segments: direct calls with all sorts of arrays
    # ------------------------------------------------------------------

    def random_points():
        kind = rng.random()
        n = rng.choice([0, 1, 2, 3, 4, 5, 8, 20, 60, 200])

        if kind < 0.45:  # smooth curve sampled densely
            thetas = np.linspace(0, 1, n + 1)[1:]
            scale = rng.choice([0.01, 0.3, 1, 5, 40])
            turns = rng.uniform(0.1, 3)
            return np.column_stack((
                scale * np.cos(2 * np.pi * turns * thetas),
                scale * np.sin(2 * np.pi * turns * thetas),
                rng.uniform(-2, 2) * thetas))
        if kind < 0.60:  # random walk
            steps = [[rng.gauss(0, 0.1) for _ in range(3)] for _ in range(n)]
            return np.cumsum(np.array(steps).reshape(n, 3), axis=0)
        if kind < 0.68:  # repeated points (zero length segments)
            return np.tile(np.array([[1.0, 2.0, 3.0]]), (n, 1))
        if kind < 0.74:  # steps exactly equal to a resolution multiple
            step = rng.choice([0.01, 0.05, 0.1, 0.25])
            return np.column_stack((
                step * np.arange(n), np.zeros(n), np.zeros(n)))
        if kind < 0.80:  # two columns
            return np.array(
                [[rng.uniform(-5, 5) for _ in range(2)] for _ in range(n)]
            ).reshape(n, 2)
        if kind < 0.85:  # one dimensional
            return np.array([rng.uniform(-5, 5) for _ in range(n)])
        if kind < 0.89:  # three dimensional
            middle = rng.choice([1, 3])
            return np.array([rng.uniform(-1, 1) for _ in range(n * 3)]
                ).reshape(n, middle, 3 // middle)
        if kind < 0.93:  # non finite members
            data = np.array(
                [[rng.uniform(-5, 5) for _ in range(3)] for _ in range(n)]
            ).reshape(n, 3)
            if n:
                data[rng.randrange(n), rng.randrange(3)] = rng.choice(
                    [np.nan, np.inf, -np.inf])
            return data
        if kind < 0.96:  # integer dtype
            return np.arange(n * 3).reshape(n, 3) * rng.choice([0, 1, 7])
        return rng.choice([[[0, 0, 0], [1, 1, 1], [2, 2, 2]], None, 3.5])

    for index in range(320):
        g, recorder = new_builder()
        state = setup(g)
        recorder.lines.clear()
        points = random_points()
        strict = rng.random() < 0.2
        label = "_filter_segments#%d[%s] %s" % (index, state, show(points))
        before = show(points)

        run(label, g, recorder,
            lambda: g.trace._filter_segments(points), strict)

        transcript[-1]["input_untouched"] = (show(points) == before)

    # Resolution values the public setter refuses, set behind its back

    for index, resolution in enumerate(
        [float("nan"), float("inf"), 0.0, -1.0, 1e-300, np.float64(0.1), 1]):
        g, recorder = new_builder()
        g.state._current_resolution = resolution
        points = np.column_stack((
            np.linspace(0, 1, 40), np.linspace(0, 2, 40), np.zeros(40)))
        run("_filter_segments/odd-resolution#%d %s" % (index, show(resolution)),
            g, recorder, lambda: g.trace._filter_segments(points))

    # A tracer over an object that is not a builder at all

    run("_filter_segments/no-builder", None, None,
        lambda: PathTracer(object())._filter_segments(np.ones((5, 3))))
    run("_filter_segments/no-builder-small", None, None,
        lambda: PathTracer(object())._filter_segments(np.ones((0, 3))))
    run("arc_radius/no-builder", None, None,
        lambda: PathTracer(object()).arc_radius((1, 2), 3.0))

    progress("_filter_segments")

    # ------------------------------------------------------------------
    # 3. Every other tracer operation (they all filter their segments)
    # ------------------------------------------------------------------

    def operation(g):
        kind = rng.randrange(9)

        if kind == 0:
            origin = g.position.resolve()
            radius = rng.uniform(0.2, 30)
            a0 = rng.uniform(-math.pi, math.pi)
            a1 = rng.uniform(-math.pi, math.pi)
            center = (-radius * math.cos(a0), -radius * math.sin(a0))
            tx = center[0] + radius * math.cos(a1)
            ty = center[1] + radius * math.sin(a1)
            if not g.distance_mode.is_relative:
                tx += origin.x; ty += origin.y
            target = (tx, ty) if rng.random() < 0.6 else (tx, ty, coord())
            if rng.random() < 0.1:
                center = (center[0] * 1.5, center[1])  # not equidistant
            return ("arc %s %s" % (show(target), show(center)),
                lambda: g.trace.arc(target, center))
        if kind == 1:
            center = (coord(), coord())
            return ("circle %s" % show(center),
                lambda: g.trace.circle(center))
        if kind == 2:
            count = rng.choice([0, 1, 2, 3, 6])
            targets = [(coord(), coord()) if rng.random() < 0.5 else
                (coord(), coord(), coord()) for _ in range(count)]
            return ("spline %s" % show(targets),
                lambda: g.trace.spline(targets))
        if kind == 3:
            target = (coord(), coord(), coord())
            center = (coord(), coord())
            turns = rng.choice([-1, 0, 1, 2, 3])
            return ("helix %s %s %s" % (show(target), show(center), turns),
                lambda: g.trace.helix(target, center, turns))
        if kind == 4:
            target = (coord(), coord(), coord())
            pitch = rng.choice([0, -1, 10, 12.5, 25, 1000])
            return ("thread %s %s" % (show(target), pitch),
                lambda: g.trace.thread(target, pitch))
        if kind == 5:
            target = (coord(), coord()) if rng.random() < 0.5 else (
                coord(), coord(), coord())
            turns = rng.choice([0, 1, 3])
            return ("spiral %s %s" % (show(target), turns),
                lambda: g.trace.spiral(target, turns))
        if kind == 6:
            targets = [(coord(), coord()) for _ in range(rng.randrange(4))]
            return ("polyline %s" % show(targets),
                lambda: g.trace.polyline(targets))
        if kind == 7:
            scale = rng.uniform(0.1, 20)
            length = rng.choice([0, -1, scale, 2 * math.pi * scale,
                float("nan"), 1e-9])

            def curve(thetas):
                return np.column_stack((
                    scale * np.cos(2 * np.pi * thetas),
                    scale * np.sin(2 * np.pi * thetas),
                    np.zeros(thetas.shape)))

            return ("parametric circle %r %r" % (scale, length),
                lambda: g.trace.parametric(curve, length))

        shape = rng.choice(["1d", "2col", "3d", "list", "4col"])

        def odd(thetas):
            if shape == "1d":
                return thetas * 3
            if shape == "2col":
                return np.column_stack((thetas, thetas))
            if shape == "3d":
                return np.column_stack(
                    (thetas, thetas, thetas)).reshape(-1, 1, 3)
            if shape == "list":
                return [[t, t, t] for t in thetas]
            return np.column_stack((thetas, thetas, thetas, thetas))

        return ("parametric odd %s" % shape,
            lambda: g.trace.parametric(odd, 2.0))

    for index in range(250):
        g, recorder = new_builder(
            decimal_places=rng.choice([5, 5, 3, 8]))
        state = setup(g, huge=False)
        g.set_resolution(max(g.state.resolution, 1.0))
        recorder.lines.clear()
        name, action = operation(g)
        strict = rng.random() < 0.15
        run("trace#%d[%s] %s strict=%s" % (index, state, name, strict),
            g, recorder, action, strict)

    progress("other operations")

    # estimate_length is untouched but cheap to pin as a return value

    g, recorder = new_builder()
    run("estimate_length", g, recorder, lambda: g.trace.estimate_length(
        50, lambda th: np.column_stack((th, th * th, th))))

    json.dump({"tree": tree, "transcript": transcript}, sys.stdout)


# ----------------------------------------------------------------------
# Driver
# ----------------------------------------------------------------------

def collect(tree):
    env = dict(os.environ)
    env["PYTHONPATH"] = tree
    env["PYTHONHASHSEED"] = "0"
    env["PYTHONDONTWRITEBYTECODE"] = "1"

    result = subprocess.run(
        [sys.executable, os.path.abspath(__file__), "--worker"],
        env=env, cwd="/tmp", stdin=subprocess.DEVNULL,
        stdout=subprocess.PIPE, stderr=subprocess.PIPE, timeout=840)

    sys.stderr.write(result.stderr.decode("utf-8", "replace")[-3000:])

    if result.returncode != 0:
        raise SystemExit("worker failed for %s" % tree)

    data = json.loads(result.stdout)
    assert os.path.realpath(data["tree"]) == os.path.realpath(tree), (
        "worker imported gscrib from %s, expected %s" % (data["tree"], tree))

    return data["transcript"]


def main():
    reference = collect(REFERENCE)
    refactored = collect(REFACTORED)

    assert len(reference) == len(refactored), (
        "transcript lengths differ: %d vs %d" % (
            len(reference), len(refactored)))

    for index, (a, b) in enumerate(zip(reference, refactored)):
        if a != b:
            print("MISMATCH at entry %d: %s" % (index, a["label"][:300]))
            for key in sorted(set(a) | set(b)):
                if a.get(key) != b.get(key):
                    print("  %s:\n    reference:  %r\n    refactored: %r" % (
                        key, str(a.get(key))[:600], str(b.get(key))[:600]))
            raise SystemExit(1)

    assert reference == refactored

    raised = {}
    emitted = 0
    warned = 0

    for entry in reference:
        emitted += len(entry.get("lines", ()))
        warned += bool(entry.get("warnings"))
        if "raised" in entry:
            raised[entry["raised"]] = raised.get(entry["raised"], 0) + 1

    print("identical transcripts: %d cases, %d emitted lines, "
        "%d cases with warnings, exceptions: %s" % (
            len(reference), emitted, warned,
            ", ".join("%s=%d" % kv for kv in sorted(raised.items()))))


if __name__ == "__main__":
    if "--worker" in sys.argv[1:]:
        worker()
    else:
        main()
