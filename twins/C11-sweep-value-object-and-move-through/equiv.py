#!/usr/bin/env python
"""Differential check for the C11 tracer refactoring.

Runs the same seeded scenario generator against the unmodified tree
(/repo) and the refactored tree (/tmp/wtV-C11) in two subprocesses and
asserts that the transcripts (emitted bytes, positions, state, return
values, exception type names) are identical. Exit status 0 on success.

    /venv/bin/python /tmp/twin3-C11/equiv.py
"""

import json
import os
import subprocess
import sys

TREES = {"orig": "/repo", "new": "/tmp/wtV-C11"}
N_CASES = 1000
SEED = 110311


# ----------------------------------------------------------------------
# Driver: runs inside a subprocess with PYTHONPATH set to one tree
# ----------------------------------------------------------------------

def drive():
    import math
    import random
    import warnings

    import numpy as np

    warnings.simplefilter("ignore")
    np.seterr(all="ignore")

    import gscrib
    from gscrib import GCodeBuilder
    from gscrib.excepts import DeviceWriteError
    from gscrib.geometry import Point
    from gscrib.writers.base_writer import BaseWriter

    assert os.path.dirname(os.path.dirname(gscrib.__file__)) == \
        os.environ["EXPECTED_TREE"], gscrib.__file__

    class Recorder(BaseWriter):
        """In-process fake device that records what it is sent."""

        def __init__(self, fail_after=None):
            self.lines = []
            self.fail_after = fail_after

        def connect(self):
            return self

        def disconnect(self, wait=True):
            pass

        def write(self, statement):
            if self.fail_after is not None:
                if len(self.lines) >= self.fail_after:
                    raise DeviceWriteError("fake device is gone")
            self.lines.append(statement.decode("utf-8"))

    def rep(value):
        """Exact, JSON friendly representation of a value."""
        if isinstance(value, tuple) and hasattr(value, "_fields"):
            return [type(value).__name__] + [rep(v) for v in value]
        if isinstance(value, (list, tuple)):
            return [rep(v) for v in value]
        if isinstance(value, np.ndarray):
            return ["ndarray", str(value.dtype), rep(value.tolist())]
        if isinstance(value, (float, np.floating)):
            return type(value).__name__ + ":" + repr(float(value))
        if isinstance(value, (int, np.integer)) and not isinstance(value, bool):
            return type(value).__name__ + ":" + repr(int(value))
        if value is None or isinstance(value, (bool, str)):
            return value
        return repr(value)

    rng = random.Random(SEED)

    def coord(special=0.06):
        roll = rng.random()
        if roll < special:
            return rng.choice([
                0, 0.0, -0.0, float("nan"), float("inf"), -float("inf"),
                1e-12, 1e12, None, np.float64(2.5), 7,
            ])
        if roll < 0.3:
            return float(rng.randint(-20, 20))
        return round(rng.uniform(-50, 50), rng.choice([0, 1, 3, 9]))

    def pointlike(dims=None, special=0.06):
        dims = dims if dims is not None else rng.choice([2, 2, 2, 2, 3, 3, 3, 3, 3, 1, 0, 4])
        values = [coord(special) for _ in range(dims)]
        roll = rng.random()
        if roll < 0.02:
            return None
        if roll < 0.05 and dims >= 2:
            values[1] = "b"  # not caught by the (first item only) typecheck
            return tuple(values)
        if roll < 0.25 and dims <= 3:
            return Point(*values)
        if roll < 0.4:
            return list(values)
        if roll < 0.5 and None not in values:
            return np.array(values, dtype=float)
        return tuple(values)

    def on_circle_target(g, center, relative):
        """A target at the same distance from the center as the origin."""
        o = g.position.resolve()
        cx, cy = o.x + center[0], o.y + center[1]
        radius = math.hypot(o.x - cx, o.y - cy)
        angle = rng.uniform(-math.pi, math.pi)
        tx, ty = cx + radius * math.cos(angle), cy + radius * math.sin(angle)
        values = [tx, ty] + ([coord(0)] if rng.random() < 0.5 else [])
        if relative:
            values[0] -= o.x
            values[1] -= o.y
            if len(values) > 2:
                values[2] = values[2] - o.z
        return tuple(values)

    def user_functions():
        def line(thetas):
            return np.column_stack((10 * thetas, 5 * thetas, thetas))

        def wave(thetas):
            return np.column_stack((
                20 * thetas, 4 * np.sin(6 * thetas), np.zeros(thetas.shape)))

        def two_columns(thetas):
            return np.column_stack((thetas, 2 * thetas))

        def four_columns(thetas):
            return np.column_stack((thetas, thetas, thetas, thetas))

        def flat(thetas):
            return np.array([1.0, 2.0])

        def flat_long(thetas):
            return thetas

        def as_list(thetas):
            return [[1.0, 2.0, 3.0]]

        def with_nan(thetas):
            points = np.column_stack((thetas, thetas, thetas))
            points[len(points) // 2, 1] = np.nan
            return points

        def failing(thetas):
            raise KeyError("user function failed")

        def not_array(thetas):
            return None

        return [line, wave, line, wave, line, wave, line, wave, two_columns, four_columns, flat,
                flat_long, as_list, with_nan, failing, not_array]

    functions = user_functions()

    def extra_kwargs():
        roll = rng.random()
        if roll < 0.55:
            return {}
        if roll < 0.7:
            return {"F": rng.choice([100, 1500.5, 0, -5, 99999])}
        if roll < 0.78:
            return {"comment": "traced", "E": 0.25}
        if roll < 0.84:
            return {"s": rng.choice([10, 2000])}
        if roll < 0.9:
            return {"point": (1, 2, 3)}  # clashes with move(point, ...)
        if roll < 0.95:
            return {"x": 3.0}  # silently overridden by the traced point
        return {"F": "fast"}

    def hook(origin, target, params, state):
        params.update(E=round(abs(target.x - origin.x), 6))
        return params

    def bad_hook(origin, target, params, state):
        if target.x > 5:
            raise RuntimeError("hook refused the move")
        return params

    def build_case(index):
        """Create a builder in a random state and pick an operation."""
        fail_after = rng.choice([None] * 7 + [rng.randint(0, 12)])
        recorder = Recorder(fail_after)
        g = GCodeBuilder(decimal_places=rng.choice([5, 5, 3, 8]))
        g.add_writer(recorder)
        log = []

        def attempt(label, function, *args, **kwargs):
            try:
                result = function(*args, **kwargs)
                log.append([label, "ok", rep(result)])
            except Exception as error:  # pylint: disable=broad-except
                log.append([label, "raised", type(error).__name__])

        # --- set-up: position, transforms, modes, bounds, hooks

        if rng.random() < 0.85:
            attempt("start", g.move, pointlike(rng.choice([1, 2, 3]), 0.02))
        if rng.random() < 0.15:
            attempt("set_axis", g.set_axis, x=coord(0), z=coord(0))
        if rng.random() < 0.25:
            attempt("rotate", g.transform.rotate,
                    rng.choice([15, 45, 90, -30]), rng.choice("xyz"))
        if rng.random() < 0.2:
            attempt("translate", g.transform.translate,
                    coord(0), coord(0), coord(0))
        if rng.random() < 0.12:
            attempt("scale", g.transform.scale, rng.choice([2, 0.5, -1]))
        if rng.random() < 0.2:
            attempt("bounds", g.set_bounds, "axes",
                    (-40, -40, -40), (40, 40, 40))
        if rng.random() < 0.1:
            attempt("feed-bounds", g.set_bounds, "feed-rate", 10, 5000)
        if rng.random() < 0.15:
            g.add_hook(hook)
        if rng.random() < 0.06:
            g.add_hook(bad_hook)

        attempt("direction", g.set_direction,
                rng.choice(["cw", "ccw", "clockwise", "counter"]))
        attempt("resolution", g.set_resolution,
                rng.choice([0.1, 0.5, 1.0, 2.0, 7.5, 50.0]))

        relative = rng.random() < 0.5
        attempt("mode", g.set_distance_mode,
                "relative" if relative else "absolute")

        # --- the traced operation

        kwargs = extra_kwargs()
        kind = rng.choice([
            "arc", "arc", "arc_valid", "arc_valid", "arc_valid", "circle",
            "circle", "arc_radius", "helix", "helix", "helix", "thread",
            "thread", "spiral", "spiral", "polyline", "polyline", "spline",
            "parametric", "parametric", "parametric", "estimate",
            "nested", "sequence",
        ])

        if kind == "arc":
            attempt(kind, g.trace.arc, pointlike(), pointlike(), **kwargs)
        elif kind == "arc_valid":
            center = (coord(0) or 3.0, coord(0) or 0.0)
            target = on_circle_target(g, center, relative)
            attempt(kind, g.trace.arc, target, center, **kwargs)
        elif kind == "circle":
            center = rng.choice([pointlike(2, 0.02), (coord(0), coord(0))])
            attempt(kind, g.trace.circle, center, **kwargs)
        elif kind == "arc_radius":
            radius = rng.choice([coord(0), 30, -30, 100.0, 0, 1e6])
            attempt(kind, g.trace.arc_radius, pointlike(), radius, **kwargs)
        elif kind == "helix":
            turns = rng.choice([1, 1, 2, 3, 0, -1, 5, 2.5, True])
            attempt(kind, g.trace.helix, pointlike(), pointlike(),
                    turns, **kwargs)
        elif kind == "thread":
            pitch = rng.choice([1, 0.5, 2.0, 0, -1, 25, float("nan")])
            attempt(kind, g.trace.thread, pointlike(), pitch, **kwargs)
        elif kind == "spiral":
            turns = rng.choice([1, 2, 4, 0, -3])
            attempt(kind, g.trace.spiral, pointlike(), turns, **kwargs)
        elif kind == "polyline":
            count = rng.choice([0, 1, 2, 3, 6])
            targets = [pointlike() for _ in range(count)]
            attempt(kind, g.trace.polyline,
                    tuple(targets) if rng.random() < 0.3 else targets,
                    **kwargs)
        elif kind == "spline":
            count = rng.choice([0, 1, 2, 3, 5])
            targets = [pointlike(rng.choice([2, 3]), 0.02)
                       for _ in range(count)]
            attempt(kind, g.trace.spline, targets, **kwargs)
        elif kind == "parametric":
            function = rng.choice(functions)
            length = rng.choice([
                10.0, 25, 3.3, 0.2, 10.0, 25, 60.5, 7, 0, -4,
                float("nan"), 1e-9, 400.0, "long"])
            attempt(kind + ":" + function.__name__, g.trace.parametric,
                    function, length, **kwargs)
        elif kind == "estimate":
            function = rng.choice(functions)
            samples = rng.choice([2, 10, 500, 1, 0])
            attempt(kind + ":" + function.__name__, g.trace.estimate_length,
                    samples, function)
        elif kind == "nested":
            # Mode context managers around tracer operations
            context = rng.choice([g.absolute_mode, g.relative_mode])
            try:
                with context():
                    attempt("nested-circle", g.trace.circle,
                            (coord(0), coord(0)), **kwargs)
                    attempt("nested-spiral", g.trace.spiral,
                            (coord(0), coord(0), coord(0)), 2, **kwargs)
                    attempt("nested-abs", g.move_absolute,
                            x=coord(0), y=coord(0))
                    attempt("nested-poly", g.trace.polyline,
                            [(1, 2), (3, 4, 5)], **kwargs)
            except Exception as error:  # pylint: disable=broad-except
                log.append(["nested-context", "raised", type(error).__name__])
        elif kind == "sequence":
            # A longer toolpath mixing moves, rapids and shapes
            attempt("seq-rapid", g.rapid, x=coord(0), y=coord(0), z=coord(0))
            center = (coord(0) or 4.0, coord(0) or 1.0)
            attempt("seq-arc", g.trace.arc,
                    on_circle_target(g, center, relative), center, **kwargs)
            attempt("seq-rapid-abs", g.rapid_absolute, z=coord(0))
            attempt("seq-helix", g.trace.helix,
                    (coord(0), coord(0), coord(0)), (coord(0), coord(0)), 2)
            attempt("seq-thread", g.trace.thread,
                    (coord(0), coord(0), coord(0)), 1.5, **kwargs)
            attempt("seq-spline", g.trace.spline,
                    [(coord(0), coord(0)) for _ in range(3)])

        # --- everything observable afterwards

        snapshot = {
            "case": index,
            "kind": kind,
            "log": log,
            "lines": recorder.lines,
            "position": rep(g.position),
            "state_position": rep(g.state.position),
            "distance_mode": str(g.distance_mode),
            "state_distance_mode": str(g.state.distance_mode),
            "direction": str(g.state.direction),
            "resolution": rep(g.state.resolution),
            "feed_rate": rep(g.state.feed_rate),
            "tool_power": rep(g.state.tool_power),
            "params": {
                name: rep(g.get_parameter(name))
                for name in ("X", "Y", "Z", "F", "E", "S")
            },
        }

        # A follow-up move shows that the tracked position is usable

        try:
            g.move(x=1.25, y=-2.5)
            snapshot["follow_up"] = "ok"
        except Exception as error:  # pylint: disable=broad-except
            snapshot["follow_up"] = type(error).__name__

        snapshot["final_lines"] = len(recorder.lines)
        snapshot["final_position"] = rep(g.position)
        return snapshot

    transcript = [build_case(index) for index in range(N_CASES)]
    json.dump(transcript, sys.stdout)


# ----------------------------------------------------------------------
# Parent: run both trees and compare
# ----------------------------------------------------------------------

def run_tree(name, path):
    env = dict(os.environ)
    env["PYTHONPATH"] = path
    env["EXPECTED_TREE"] = path
    env["PYTHONHASHSEED"] = "0"
    env["PYTHONDONTWRITEBYTECODE"] = "1"

    process = subprocess.run(
        [sys.executable, os.path.abspath(__file__), "--drive"],
        env=env, cwd="/tmp", stdin=subprocess.DEVNULL,
        capture_output=True, text=True, timeout=600, check=False)

    if process.returncode != 0:
        sys.stderr.write(process.stderr[-4000:])
        raise SystemExit(f"driver failed on tree {name}")

    return json.loads(process.stdout)


def main():
    results = {name: run_tree(name, path) for name, path in TREES.items()}
    orig, new = results["orig"], results["new"]
    assert len(orig) == len(new) == N_CASES

    mismatches = [
        (a, b) for a, b in zip(orig, new)
        if json.dumps(a, sort_keys=True) != json.dumps(b, sort_keys=True)
    ]

    for a, b in mismatches[:5]:
        print("MISMATCH in case", a["case"], a["kind"])
        for key in a:
            if a[key] != b[key]:
                print("  ", key, "\n     orig:", str(a[key])[:600],
                      "\n     new: ", str(b[key])[:600])

    # Some statistics, to show the scenarios are not vacuous

    outcomes = {}
    total_lines = 0
    for case in orig:
        total_lines += len(case["lines"])
        for label, status, detail in case["log"]:
            if label.split(":")[0] in ("start", "direction", "resolution",
                                       "mode", "rotate", "translate", "scale",
                                       "bounds", "feed-bounds", "set_axis"):
                continue
            key = status if status == "ok" else detail
            outcomes[key] = outcomes.get(key, 0) + 1

    print(f"cases: {N_CASES}, emitted lines compared: {total_lines}")
    print("operation outcomes:", dict(sorted(outcomes.items())))

    if mismatches:
        raise SystemExit(f"{len(mismatches)} transcripts differ")

    print("OK: transcripts are identical")


if __name__ == "__main__":
    if "--drive" in sys.argv:
        drive()
    else:
        main()
