#!/usr/bin/env python
"""Differential equivalence check for the C14 refactoring.

Parent mode (no args): runs this file as a child twice, once with
PYTHONPATH=/repo and once with PYTHONPATH=/tmp/wtT-C14, each in its own
empty temporary working directory, and asserts that the two JSON
transcripts are identical.

Child mode (--child OUT): drives FileWriter / ConsoleWriter / GCodeCore /
GCodeBuilder with seeded random histories and records everything
observable: bytes delivered to fakes, file contents, writer state,
return values, exception type names (and cause type names), error logs.
"""

import json
import os
import subprocess
import sys
import tempfile

TREES = {"orig": "/repo", "twin": "/tmp/wtT-C14"}
SEED = 140014


# --------------------------------------------------------------------------
# child
# --------------------------------------------------------------------------

def child(out_path):
    import io
    import logging
    import random

    import gscrib
    from gscrib import GCodeBuilder, GCodeCore
    from gscrib.writers import BaseWriter, ConsoleWriter, FileWriter
    from gscrib.excepts import DeviceError, GCodeError, GscribError
    from gscrib.excepts import DeviceWriteError, ToolStateError

    tree = os.path.dirname(os.path.dirname(os.path.abspath(gscrib.__file__)))
    rng = random.Random(SEED)
    transcript = []

    def rec(*items):
        transcript.append(list(items))

    def srepr(data):
        """repr without memory addresses."""
        if isinstance(data, memoryview):
            return "memoryview:" + repr(bytes(data))
        return repr(data)

    def exc_name(e):
        cause = e.__cause__
        return [type(e).__name__, type(cause).__name__ if cause else None]

    # ---- error log capture -------------------------------------------

    class ListHandler(logging.Handler):
        def __init__(self):
            super().__init__(level=logging.DEBUG)
            self.items = []

        def emit(self, record):
            if record.levelno >= logging.INFO:
                try:
                    msg = record.getMessage()
                except Exception as e:  # pragma: no cover
                    msg = "unformattable:" + type(e).__name__
                self.items.append([record.name, record.levelname, msg])

    handler = ListHandler()
    root = logging.getLogger()
    root.addHandler(handler)
    root.setLevel(logging.DEBUG)

    def drain_logs():
        items, handler.items = handler.items, []
        return items

    # ---- fake file objects -------------------------------------------

    class FakeBin:
        """Binary file-like object, no 'encoding' attribute."""

        def __init__(self, tag, tty=None, fail_write=False, fail_flush=False,
                     fail_isatty=False, fail_close=False):
            self.tag = tag
            self.log = []
            self._tty = tty
            self._fail_write = fail_write
            self._fail_flush = fail_flush
            self._fail_isatty = fail_isatty
            self._fail_close = fail_close
            if tty is not None or fail_isatty:
                self.isatty = self._isatty

        def _isatty(self):
            self.log.append(["isatty"])
            if self._fail_isatty:
                raise OSError("isatty failed")
            return self._tty

        def write(self, data):
            self.log.append(["write", type(data).__name__, srepr(data)])
            if self._fail_write:
                raise OSError("write failed")
            return len(data)

        def flush(self):
            self.log.append(["flush"])
            if self._fail_flush:
                raise ValueError("flush failed")

        def close(self):
            self.log.append(["close"])
            if self._fail_close:
                raise OSError("close failed")

    class FakeText(FakeBin):
        encoding = "utf-8"

    class NoWrite:
        """Object with neither write nor isatty."""
        tag = "nowrite"
        log = []

    class OnlyWrite:
        """Object with write only (no isatty, no flush, no close)."""

        def __init__(self):
            self.tag = "onlywrite"
            self.log = []

        def write(self, data):
            self.log.append(["write", type(data).__name__, srepr(data)])

    class StrSub(str):
        pass

    # ---- inputs -------------------------------------------------------

    STATEMENTS = [
        b"G1 X10 Y10\n", b"", b"\n", b"\r\n", b"G0 Z5 ; caf\xc3\xa9\r\n",
        "; ñandú ü 日本語 €\n".encode("utf-8"), b"M2\r", b"\x00\x01",
        b"\xff\xfe bad utf8\n", b"\xc3", b"A" * 5000 + b"\n",
        bytearray(b"G4 P1\n"), memoryview(b"G92 X0\n"),
        "a string\n", None, 17, 1.5, ["x"], b"T1\n", b"; \xf0\x9f\x98\x80\n",
    ]

    def pick_statement():
        if rng.random() < 0.6:
            n = rng.randint(0, 6)
            chars = "GXYZ0123456789 .-;()éñ日€\t"
            s = "".join(rng.choice(chars) for _ in range(n * 3))
            return (s + rng.choice(["\n", "\r\n", "\r", ""])).encode("utf-8")
        return rng.choice(STATEMENTS)

    path_counter = [0]

    def make_output(kind):
        """Returns (output, probe) where probe() -> observable snapshot."""

        if kind == "path":
            path_counter[0] += 1
            depth = rng.randint(0, 3)
            parts = ["d%d_%d" % (path_counter[0], i) for i in range(depth)]
            p = os.path.join(*(parts + ["out%d.gcode" % path_counter[0]]))
            if rng.random() < 0.2:
                p = StrSub(p)
            return p, lambda: read_path(p)
        if kind == "path_existing":
            path_counter[0] += 1
            p = "pre%d.gcode" % path_counter[0]
            with open(p, "wb") as f:
                f.write(b"OLD CONTENT THAT IS LONG\n")
            return p, lambda: read_path(p)
        if kind == "badpath":
            path_counter[0] += 1
            blocker = "blocker%d" % path_counter[0]
            with open(blocker, "wb") as f:
                f.write(b"x")
            p = os.path.join(blocker, "sub", "out.gcode")
            return p, lambda: read_path(blocker)
        if kind == "dirpath":
            path_counter[0] += 1
            d = "isdir%d" % path_counter[0]
            os.mkdir(d)
            return d, lambda: sorted(os.listdir(d))
        if kind == "emptypath":
            return "", lambda: None
        if kind == "stringio":
            o = io.StringIO(newline="")
            return o, lambda: ["closed"] if o.closed else repr(o.getvalue())
        if kind == "bytesio":
            o = io.BytesIO()
            return o, lambda: ["closed"] if o.closed else repr(o.getvalue())
        if kind == "closed_bytesio":
            o = io.BytesIO()
            o.close()
            return o, lambda: ["closed", o.closed]
        if kind == "realtext":
            path_counter[0] += 1
            p = "rt%d.txt" % path_counter[0]
            o = open(p, "w", encoding="utf-8", newline="")
            return o, lambda: [o.closed, read_path(p)]
        if kind == "realbin":
            path_counter[0] += 1
            p = "rb%d.bin" % path_counter[0]
            o = open(p, "wb")
            return o, lambda: [o.closed, read_path(p)]
        if kind == "latin1text":
            path_counter[0] += 1
            p = "l1_%d.txt" % path_counter[0]
            o = open(p, "w", encoding="latin-1", newline="")
            return o, lambda: [o.closed, read_path(p)]
        if kind == "pathlib":
            import pathlib
            o = pathlib.Path("pathlib_obj.gcode")
            return o, lambda: os.path.exists("pathlib_obj.gcode")
        if kind == "none":
            return None, lambda: None
        if kind == "int":
            return 42, lambda: None
        if kind == "nowrite":
            return NoWrite(), lambda: None
        if kind == "onlywrite":
            o = OnlyWrite()
            return o, lambda: list(o.log)
        fakes = {
            "fakebin": lambda: FakeBin("fakebin"),
            "fakebin_tty": lambda: FakeBin("fakebin_tty", tty=True),
            "fakebin_notty": lambda: FakeBin("fakebin_notty", tty=False),
            "fakebin_tty1": lambda: FakeBin("fakebin_tty1", tty=1),
            "fakebin_ttynone": lambda: FakeBin(
                "fakebin_ttynone", fail_isatty=False, tty=0),
            "faketext": lambda: FakeText("faketext"),
            "faketext_tty": lambda: FakeText("faketext_tty", tty=True),
            "faketext_notty": lambda: FakeText("faketext_notty", tty=False),
            "fail_write": lambda: FakeBin("fail_write", fail_write=True),
            "fail_write_text": lambda: FakeText(
                "fail_write_text", tty=True, fail_write=True),
            "fail_flush_tty": lambda: FakeBin(
                "fail_flush_tty", tty=True, fail_flush=True),
            "fail_isatty": lambda: FakeText("fail_isatty", fail_isatty=True),
            "fail_close": lambda: FakeBin("fail_close", fail_close=True),
        }
        o = fakes[kind]()
        return o, lambda: list(o.log)

    OUTPUT_KINDS = [
        "path", "path", "path", "path_existing", "badpath", "dirpath",
        "emptypath", "stringio", "bytesio", "closed_bytesio", "realtext",
        "realbin", "latin1text", "pathlib", "none", "int", "nowrite",
        "onlywrite", "fakebin", "fakebin_tty", "fakebin_notty",
        "fakebin_tty1", "fakebin_ttynone", "faketext", "faketext_tty",
        "faketext_notty", "fail_write", "fail_write_text", "fail_flush_tty",
        "fail_isatty", "fail_close",
    ]

    def read_path(p):
        try:
            with open(p, "rb") as f:
                return repr(f.read())
        except Exception as e:
            return ["unreadable", type(e).__name__]

    def writer_state(w):
        f = getattr(w, "_file", "missing")
        if f is None:
            fdesc = None
        elif f is getattr(w, "_output", object()):
            fdesc = "is_output"
        else:
            fdesc = [type(f).__name__, getattr(f, "mode", None),
                     getattr(f, "closed", None)]
        return [fdesc, repr(getattr(w, "_is_terminal", "missing")),
                type(getattr(w, "_output", None)).__name__]

    def call(label, fn, *args, **kwargs):
        try:
            r = fn(*args, **kwargs)
            return [label, "ok", None if r is None else type(r).__name__]
        except BaseException as e:  # noqa
            return [label, "raise"] + exc_name(e)

    # ---- part 1: FileWriter driven directly ---------------------------

    def filewriter_history(i):
        kind = OUTPUT_KINDS[i % len(OUTPUT_KINDS)]
        output, probe = make_output(kind)
        w = FileWriter(output)
        rec("FW", i, kind, "init", writer_state(w))
        held = []
        for step in range(rng.randint(3, 14)):
            op = rng.choice(["write"] * 6 + ["connect", "disconnect",
                             "disconnect_nowait", "flush", "with",
                             "connect_ret", "probe"])
            if op == "write":
                st = pick_statement()
                res = call("write", w.write, st)
                res.append(repr(bytes(st)) if isinstance(
                    st, (bytes, bytearray, memoryview)) else repr(st))
            elif op == "connect":
                res = call("connect", w.connect)
            elif op == "connect_ret":
                try:
                    r = w.connect()
                    res = ["connect_ret", "ok", r is w]
                except BaseException as e:  # noqa
                    res = ["connect_ret", "raise"] + exc_name(e)
            elif op == "disconnect":
                f = getattr(w, "_file", None)
                if f is not None and not isinstance(f, str):
                    held.append(f)
                res = call("disconnect", w.disconnect)
            elif op == "disconnect_nowait":
                f = getattr(w, "_file", None)
                if f is not None and not isinstance(f, str):
                    held.append(f)
                res = call("disconnect_nowait", w.disconnect, False)
            elif op == "flush":
                res = call("flush", w.flush)
            elif op == "with":
                def use():
                    with w as ww:
                        assert ww is w
                        ww.write(b"; in with \xc3\xa9\n")
                res = call("with", use)
            else:
                res = ["probe"]
            rec("FW", i, kind, step, res, writer_state(w),
                [getattr(h, "closed", None) for h in held], probe())
        # final cleanup is part of the observable behaviour too
        rec("FW", i, kind, "final", call("disconnect", w.disconnect),
            writer_state(w), probe())
        if hasattr(output, "close") and not isinstance(output, FakeBin):
            try:
                output.close()
            except Exception:
                pass
        rec("FW", i, kind, "after_close", probe())

    for i in range(len(OUTPUT_KINDS) * 6):
        filewriter_history(i)

    # ---- part 2: ConsoleWriter with faked sys.stdout / sys.stderr ------

    class FakeStd:
        def __init__(self, with_buffer, tty):
            self.log = []
            self.encoding = "utf-8"
            self._tty = tty
            if with_buffer:
                self.buffer = FakeBin("stdbuf", tty=tty)

        def isatty(self):
            self.log.append(["isatty"])
            return self._tty

        def write(self, data):
            self.log.append(["write", type(data).__name__, srepr(data)])

        def flush(self):
            self.log.append(["flush"])

    def console_history(i):
        with_buffer = bool(i % 2)
        tty = bool((i // 2) % 2)
        use_err = bool((i // 4) % 2)
        saved = sys.stdout, sys.stderr
        fo, fe = FakeStd(with_buffer, tty), FakeStd(with_buffer, tty)
        sys.stdout, sys.stderr = fo, fe
        results = []
        try:
            w = ConsoleWriter(stderr=use_err)
            results.append(["init", writer_state(w)])
            for step in range(rng.randint(2, 8)):
                op = rng.choice(["write"] * 4 + ["connect", "disconnect",
                                                 "flush"])
                if op == "write":
                    results.append(call("write", w.write, pick_statement()))
                elif op == "connect":
                    results.append(call("connect", w.connect))
                elif op == "disconnect":
                    results.append(call("disconnect", w.disconnect))
                else:
                    results.append(call("flush", w.flush))
                results.append(writer_state(w))
        finally:
            sys.stdout, sys.stderr = saved
        rec("CW", i, results, fo.log, fe.log,
            fo.buffer.log if with_buffer else None,
            fe.buffer.log if with_buffer else None)

    for i in range(24):
        console_history(i)

    # ---- part 3: GCodeCore / GCodeBuilder histories -------------------

    class RecWriter(BaseWriter):
        def __init__(self, tag, fail=None, fail_after=0, fail_disc=None,
                     fail_flush=None):
            self.tag = tag
            self.log = []
            self.fail = fail
            self.fail_after = fail_after
            self.fail_disc = fail_disc
            self.fail_flush = fail_flush
            self.count = 0

        def connect(self):
            self.log.append(["connect"])
            return self

        def disconnect(self, wait=True):
            self.log.append(["disconnect", wait])
            if self.fail_disc is not None:
                raise self.fail_disc("disc " + self.tag)

        def write(self, statement):
            self.count += 1
            self.log.append(["write", type(statement).__name__,
                             srepr(statement)])
            if self.fail is not None and self.count > self.fail_after:
                raise self.fail("write " + self.tag)

        def flush(self):
            self.log.append(["flush"])
            if self.fail_flush is not None:
                raise self.fail_flush("flush " + self.tag)

    class EqAll(RecWriter):
        """A writer that compares equal to every other writer."""

        def __eq__(self, other):
            return isinstance(other, BaseWriter)

        __hash__ = None

    class NoFlushWriter(BaseWriter):
        """Relies on the default BaseWriter.flush."""

        def __init__(self):
            self.tag = "noflush"
            self.log = []

        def connect(self):
            return self

        def disconnect(self, wait=True):
            self.log.append(["disconnect", wait])

        def write(self, statement):
            self.log.append(["write", srepr(statement)])

    class BadFormatter:
        pass

    FAILS = [None, None, None, DeviceError, DeviceWriteError, GCodeError,
             ToolStateError, GscribError, ValueError, OSError, KeyError,
             TypeError, UnicodeDecodeError.__mro__[1]]

    COMMENTS = ["plain", "café ñ", "日本語 コメント", "€ ü ö", "", " ",
                "emoji \U0001F600", "tab\tinside", "semi;colon", "(paren)",
                "line\nbreak", "lone \ud800 surrogate", "nul \x00 char"]

    RAW = ["G1 X10 Y20", "", " ", "M3 S1000", "G0 Z5 ; é", "; 日本",
           "T1\nM6", "x" * 300, "lone \udc80", "G1 X1\r", "\n", "\r\n"]

    LINE_ENDINGS = ["os", "lf", "crlf", "cr", "\n", "\r\n", "bogus"]

    def new_pool(i):
        pool = []
        probes = []
        for k in range(rng.randint(2, 6)):
            r = rng.random()
            if r < 0.35:
                kind = rng.choice(["path", "path_existing", "stringio",
                                   "bytesio", "realtext", "realbin",
                                   "faketext_tty", "fakebin", "badpath",
                                   "fail_write", "closed_bytesio",
                                   "latin1text"])
                o, p = make_output(kind)
                pool.append(FileWriter(o))
                probes.append(p)
            elif r < 0.85:
                f = rng.choice(FAILS)
                w = RecWriter("w%d" % k, fail=f,
                              fail_after=rng.randint(0, 3),
                              fail_disc=rng.choice([None] * 6 + [OSError,
                                                                 DeviceError]),
                              fail_flush=rng.choice([None] * 6 + [OSError,
                                                                  DeviceError]))
                pool.append(w)
                probes.append(lambda w=w: list(w.log))
            elif r < 0.92:
                w = EqAll("eq%d" % k)
                pool.append(w)
                probes.append(lambda w=w: list(w.log))
            else:
                w = NoFlushWriter()
                pool.append(w)
                probes.append(lambda w=w: list(w.log))
        return pool, probes

    def registered(g, pool):
        out = []
        for w in g._writers:
            idx = [j for j, p in enumerate(pool) if p is w]
            out.append(idx[0] if idx else type(w).__name__)
        return out

    def builder_history(i):
        cls = GCodeBuilder if i % 3 else GCodeCore
        le = rng.choice(LINE_ENDINGS)
        kwargs = {"line_endings": le}
        if rng.random() < 0.3:
            o, p0 = make_output("path")
            kwargs["output"] = o
        else:
            p0 = lambda: None  # noqa
        if rng.random() < 0.3:
            kwargs["comment_symbols"] = rng.choice(["(", ";", "#", "%"])
        try:
            g = cls(**kwargs) if i % 5 else cls(dict(kwargs))
        except BaseException as e:  # noqa
            rec("GB", i, "ctor", kwargs.get("line_endings"), exc_name(e))
            return
        pool, probes = new_pool(i)
        rec("GB", i, cls.__name__, le, registered(g, pool))
        for step in range(rng.randint(5, 22)):
            op = rng.choice(
                ["write"] * 5 + ["comment"] * 4 + ["move"] * 2 +
                ["add"] * 5 + ["remove"] * 2 + ["flush", "teardown",
                 "teardown_nowait", "add_bad", "remove_bad", "get_writer",
                 "write_bad", "teardown_bad", "bad_formatter", "rapid"])
            if op == "write":
                res = call(op, g.write, rng.choice(RAW))
            elif op == "comment":
                res = call(op, g.comment, rng.choice(COMMENTS))
            elif op == "move":
                res = call(op, g.move, x=rng.choice([0, 1.5, -0.0, 10]),
                           y=rng.randint(-5, 5),
                           comment=rng.choice([None, "mové", "日本"]))
            elif op == "rapid":
                res = call(op, g.rapid, z=rng.choice([0, 2.25, -1]))
            elif op == "add":
                res = call(op, g.add_writer, rng.choice(pool))
            elif op == "remove":
                res = call(op, g.remove_writer, rng.choice(pool))
            elif op == "add_bad":
                res = call(op, g.add_writer,
                           rng.choice([None, "x", 3, io.BytesIO(), object]))
            elif op == "remove_bad":
                res = call(op, g.remove_writer,
                           rng.choice([None, "x", 3, io.BytesIO()]))
            elif op == "get_writer":
                idx = rng.choice([0, 1, -1, 5, -7, "0", None, 1.0])
                try:
                    w = g.get_writer(idx)
                    j = [k for k, p in enumerate(pool) if p is w]
                    res = [op, "ok", j[0] if j else type(w).__name__]
                except BaseException as e:  # noqa
                    res = [op, "raise"] + exc_name(e)
            elif op == "write_bad":
                res = call(op, g.write,
                           rng.choice([None, b"G1", 5, ["G1"], 1.0]))
            elif op == "teardown_bad":
                res = call(op, g.teardown, rng.choice([None, "yes", 1, 0.0]))
            elif op == "bad_formatter":
                saved = g._formatter
                g._formatter = rng.choice([BadFormatter(), None])
                res = call(op, g.write, "G1 X1")
                g._formatter = saved
            elif op == "flush":
                res = call(op, g.flush)
            elif op == "teardown":
                res = call(op, g.teardown)
            else:
                res = call(op, g.teardown, False)
            rec("GB", i, step, res, registered(g, pool),
                [p() for p in probes], p0(),
                [writer_state(w) for w in pool if isinstance(w, FileWriter)],
                drain_logs())
        rec("GB", i, "final", call("teardown", g.teardown),
            registered(g, pool), [p() for p in probes], p0(), drain_logs())

    for i in range(240):
        builder_history(i)

    # ---- part 4: context-managed builder, flush/teardown file contents -

    for i in range(40):
        le = rng.choice(["lf", "crlf", "cr", "os"])
        o, probe = make_output("path")
        snapshots = []
        try:
            with GCodeBuilder(output=o, line_endings=le) as g:
                extra_o, extra_probe = make_output(
                    rng.choice(["stringio", "bytesio", "realtext", "path"]))
                extra = FileWriter(extra_o)
                for step in range(rng.randint(1, 12)):
                    r = rng.random()
                    if r < 0.5:
                        g.comment(rng.choice(COMMENTS[:10]))
                    elif r < 0.7:
                        g.move(x=step, y=-step)
                    elif r < 0.8:
                        g.add_writer(extra)
                    elif r < 0.85:
                        g.remove_writer(extra)
                    else:
                        g.flush()
                        snapshots.append([step, probe(), extra_probe()])
                if rng.random() < 0.3:
                    raise RuntimeError("inside with")
            status = "ok"
        except BaseException as e:  # noqa
            status = exc_name(e)
        rec("CTX", i, le, status, snapshots, probe(), extra_probe(),
            writer_state(extra), drain_logs())

    with open(out_path, "w", encoding="utf-8") as f:
        json.dump({"tree": tree, "transcript": transcript}, f,
                  ensure_ascii=True)


# --------------------------------------------------------------------------
# parent
# --------------------------------------------------------------------------

def parent():
    results = {}
    for name, tree in TREES.items():
        with tempfile.TemporaryDirectory(prefix="c14eq_") as tmp:
            work = os.path.join(tmp, "work")
            os.mkdir(work)
            out = os.path.join(tmp, "transcript.json")
            env = dict(os.environ)
            env["PYTHONPATH"] = tree
            env["PYTHONHASHSEED"] = "0"
            env["PYTHONDONTWRITEBYTECODE"] = "1"
            proc = subprocess.run(
                [sys.executable, os.path.abspath(__file__), "--child", out],
                cwd=work, env=env, stdin=subprocess.DEVNULL,
                stdout=subprocess.PIPE, stderr=subprocess.PIPE, timeout=600)
            if proc.returncode != 0:
                sys.stderr.write(proc.stderr.decode("utf-8", "replace"))
                raise SystemExit("child for %s failed" % name)
            with open(out, encoding="utf-8") as f:
                results[name] = json.load(f)
        assert os.path.realpath(results[name]["tree"]) == \
            os.path.realpath(tree), (name, results[name]["tree"])

    a = results["orig"]["transcript"]
    b = results["twin"]["transcript"]
    raised = sum(1 for e in a if '"raise"' in json.dumps(e))
    print("entries: orig=%d twin=%d (entries containing a raise: %d)"
          % (len(a), len(b), raised))
    for k, (x, y) in enumerate(zip(a, b)):
        if x != y:
            print("FIRST DIFFERENCE at entry", k)
            print(" orig:", json.dumps(x)[:2000])
            print(" twin:", json.dumps(y)[:2000])
            raise SystemExit(1)
    assert len(a) == len(b), "transcript lengths differ"
    assert a == b
    assert len(a) > 300
    print("IDENTICAL transcripts")


if __name__ == "__main__":
    if len(sys.argv) == 3 and sys.argv[1] == "--child":
        child(sys.argv[2])
    else:
        parent()
