#!/usr/bin/env python
"""Differential check: /repo (reference) vs /tmp/wtT-C09 (refactored).

Runs the same seeded scenario list in two subprocesses, one per tree,
records everything observable and asserts both transcripts are equal.
"""

import json
import os
import subprocess
import sys

REFERENCE = "/repo"
CANDIDATE = "/tmp/wtT-C09"
SEED = 90909


# --------------------------------------------------------------------------
# Worker (runs inside one tree)
# --------------------------------------------------------------------------

def worker(expected_root):
    import logging
    import random

    logging.disable(logging.CRITICAL)

    import gscrib
    from gscrib import GCodeBuilder, GCodeCore
    from gscrib.formatters import DefaultFormatter
    from gscrib.writers.base_writer import BaseWriter

    root = os.path.realpath(os.path.dirname(os.path.dirname(gscrib.__file__)))
    assert root == os.path.realpath(expected_root), (root, expected_root)

    rng = random.Random(SEED)
    transcript = []

    class Recorder(BaseWriter):
        def __init__(self, fail_after=None):
            self.lines = []
            self.fail_after = fail_after

        def connect(self):
            return self

        def disconnect(self, wait=True):
            pass

        def write(self, statement):
            if self.fail_after is not None and len(self.lines) >= self.fail_after:
                raise RuntimeError("writer gave up")
            self.lines.append(repr(statement))

    class BadStr:
        def __str__(self):
            raise ZeroDivisionError("no str")

    class StrSub(str):
        pass

    FRAGMENTS = [
        "", " ", "  ", "hello", "G1 X10", "M112", "\n", "\r", "\r\n", "\n\n",
        "\v", "\f", "\x1c", "\x1d", "\x1e", "\x85", " ", " ", "\t",
        ";", "(", ")", "[", "]", "{", "}", "<", ">", '"', "'", "/*", "*/",
        "*", "/", "{}", "{0}", "{x}", "%", "%s", "\\n", "\\", "café",
        "日本", "\U0001f600", "\x00", "\ud800", "G0 Z-5 ; plunge",
        ") G1 X0 (", "*/ M3 S1000 /*", "\nM30\n", "\rG28", "]M5[", "'", '"x"',
    ]

    def rand_text():
        n = rng.choice([0, 1, 1, 2, 3, 5, 8])
        return "".join(rng.choice(FRAGMENTS) for _ in range(n))

    STYLES = [
        ";", "(", "[", "{", "<", '"', "'", "/*", "//", "#", "%", ";;", " ; ",
        " ( ", "\t/*\n", "{x}", "{0}", "{}", "{", "}", "()", "*/", ")", "(;",
        "", " ", "\n", StrSub("("), StrSub(";"),
    ]
    BAD_STYLES = [None, 5, b"(", ("(",), ["("]]

    PARAMS = [
        None, {}, {"X": 1}, {"x": 1.5, "y": -0.0, "F": 1200},
        {"X": float("nan")}, {"Z": float("inf")}, {"X": "text"},
        {"S": "abc", "P": 2}, {"E": 0, "x": 1e-9}, {"T": True},
        {"X": 1 + 2j}, {1: 2}, [], "X1", 0, {"A": None},
    ]

    def attempt(label, func):
        try:
            value = func()
            entry = ["ok", repr(value)]
        except BaseException as e:  # noqa: record the type only
            entry = ["raise", type(e).__name__]
        transcript.append([label] + entry)

    def fmt_state(fmt):
        state = {}
        for name in ("_comment_template", "_comment_ending", "_line_endings",
                     "_decimal_places", "_labels"):
            state[name] = repr(getattr(fmt, name, "<unset>"))
        return state

    # ---- 1. formatter level ------------------------------------------------

    for style in STYLES + BAD_STYLES:
        fmt = DefaultFormatter()
        attempt(f"set_symbols {style!r}", lambda: fmt.set_comment_symbols(style))
        transcript.append(["state", fmt_state(fmt)])

        for _ in range(6):
            text = rand_text()
            params = rng.choice(PARAMS)
            attempt(f"comment {text!r}", lambda: fmt.comment(text))
            attempt(f"sanitize {text!r}", lambda: fmt._sanitize_comment(text))
            attempt(f"command {text!r} {params!r}",
                    lambda: fmt.command("G1", params, text))
            attempt(f"command-noparams {text!r}",
                    lambda: fmt.command("M3", comment=text))
            attempt(f"command-nocomment {params!r}",
                    lambda: fmt.command("G0", params))
            attempt(f"command-none {params!r}",
                    lambda: fmt.command("G0", params, None))

        for bad in (None, 7, b"x", ["a"], StrSub("a\nb)")):
            attempt(f"comment bad {bad!r}", lambda: fmt.comment(bad))
            attempt(f"sanitize bad {bad!r}", lambda: fmt._sanitize_comment(bad))
            attempt(f"command bad comment {bad!r}",
                    lambda: fmt.command("G1", {"X": 1}, bad))
            attempt(f"command bad command {bad!r}",
                    lambda: fmt.command(bad, {"X": 1}, "c"))

        # private template builder called directly, state observed after
        for sym in STYLES[:12] + BAD_STYLES[:3]:
            attempt(f"template {sym!r}", lambda: fmt._to_comment_template(sym))
            transcript.append(["state", fmt_state(fmt)])

    # switching styles on one formatter: the ending must follow the style
    fmt = DefaultFormatter()
    for _ in range(60):
        style = rng.choice(STYLES + BAD_STYLES)
        text = rand_text()
        attempt(f"switch {style!r}", lambda: fmt.set_comment_symbols(style))
        attempt(f"switch comment {text!r}", lambda: fmt.comment(text))
        transcript.append(["state", fmt_state(fmt)])

    # ---- 2. generator level ------------------------------------------------

    ARGSETS = [
        (), (1,), ("a", "b"), (None,), (1.5, "x\ny"), (")", "*/"), ("",),
        (BadStr(),), ("ok", BadStr(), "never"), ([1, 2], {"k": "v"}),
        (StrSub("s\r\n"),), (b"bytes",), (float("nan"),),
    ]

    def make(cls, style, fail_after=None):
        g = cls(comment_symbols=style, line_endings="\\n")
        rec = Recorder(fail_after)
        g.add_writer(rec)
        return g, rec

    def observe(g, rec, label):
        state = {
            "lines": list(rec.lines),
            "position": repr(g.position),
            "distance_mode": repr(g.distance_mode),
            "fmt": fmt_state(g.format),
        }
        if hasattr(g, "state"):
            s = g.state
            for name in ("is_tool_active", "is_coolant_active", "halt_mode",
                         "tool_power", "spin_mode", "coolant_mode"):
                try:
                    state[name] = repr(getattr(s, name))
                except BaseException as e:
                    state[name] = "raise " + type(e).__name__
        transcript.append([label, state])

    GOOD_STYLES = [";", "(", "[", "{", "<", '"', "'", "/*", "//", "#", " ( "]

    for cls in (GCodeCore, GCodeBuilder):
        for style in GOOD_STYLES:
            for fail_after in (None, rng.choice([0, 1, 2, 3])):
                g, rec = make(cls, style, fail_after)
                tag = f"{cls.__name__} {style!r} fail={fail_after}"

                for _ in range(4):
                    text = rand_text()
                    args = rng.choice(ARGSETS)
                    key = rng.choice(["tool", "a_b", "1bad", "", "x y", "café"])
                    x = rng.choice([0, 1, -2.5, 1e3])

                    attempt(f"{tag} comment {text!r} {len(args)}",
                            lambda: g.comment(text, *args))
                    attempt(f"{tag} annotate {key!r} {text!r}",
                            lambda: g.annotate(key, text))
                    attempt(f"{tag} move {text!r}",
                            lambda: g.move(x=x, y=2, comment=text))
                    attempt(f"{tag} rapid {text!r}",
                            lambda: g.rapid(z=x, comment=text))
                    attempt(f"{tag} set_axis {text!r}",
                            lambda: g.set_axis(x=0, comment=text))
                    attempt(f"{tag} move_absolute {text!r}",
                            lambda: g.move_absolute(x=x, comment=text))
                    if cls is GCodeBuilder:
                        attempt(f"{tag} auto_home {text!r}",
                                lambda: g.auto_home(x=0, comment=text))
                    attempt(f"{tag} move nan {text!r}",
                            lambda: g.move(x=float("nan"), comment=text))
                    attempt(f"{tag} move badcomment",
                            lambda: g.move(x=1, comment=5))
                    attempt(f"{tag} comment badmsg",
                            lambda: g.comment(None, "x"))

                    if cls is GCodeBuilder:
                        reset = rng.choice([False, True])
                        attempt(f"{tag} halt {text!r} {reset}",
                                lambda: g.emergency_halt(text, reset))
                        attempt(f"{tag} halt bad",
                                lambda: g.emergency_halt(None))

                    observe(g, rec, f"{tag} observe")

    # comment symbols that make the template itself unusable
    for style in ("{x}", "{0}", "{", "}"):
        for cls in (GCodeCore, GCodeBuilder):
            def run():
                g, rec = make(cls, style)
                out = []
                for call in (
                    lambda: g.comment("a", 1),
                    lambda: g.move(x=1, comment="c)"),
                    lambda: g.move(x=2),
                    lambda: g.annotate("k", "v"),
                ):
                    try:
                        out.append(repr(call()))
                    except BaseException as e:
                        out.append(type(e).__name__)
                return out, rec.lines, repr(g.position)
            attempt(f"broken style {style!r} {cls.__name__}", run)

    json.dump(transcript, sys.stdout)


# --------------------------------------------------------------------------
# Driver
# --------------------------------------------------------------------------

def run_tree(root):
    env = dict(os.environ)
    env["PYTHONPATH"] = root
    env["PYTHONHASHSEED"] = "0"
    env["PYTHONDONTWRITEBYTECODE"] = "1"
    proc = subprocess.run(
        [sys.executable, os.path.abspath(__file__), "--worker", root],
        env=env, cwd="/tmp", stdin=subprocess.DEVNULL,
        stdout=subprocess.PIPE, stderr=subprocess.PIPE, timeout=600,
    )
    if proc.returncode != 0:
        sys.stderr.write(proc.stderr.decode("utf-8", "replace"))
        raise SystemExit(f"worker for {root} failed ({proc.returncode})")
    return json.loads(proc.stdout.decode("utf-8"))


def main():
    reference = run_tree(REFERENCE)
    candidate = run_tree(CANDIDATE)

    assert len(reference) == len(candidate), (len(reference), len(candidate))

    for index, (a, b) in enumerate(zip(reference, candidate)):
        assert a == b, f"transcripts differ at #{index}:\n  ref: {a}\n  new: {b}"

    kinds = {}
    for entry in reference:
        kind = entry[1] if entry[1] in ("ok", "raise") else "state"
        kinds[kind] = kinds.get(kind, 0) + 1

    excs = sorted({e[2] for e in reference if e[1] == "raise"})
    print(f"identical transcripts: {len(reference)} records {kinds}")
    print(f"exception types seen: {excs}")


if __name__ == "__main__":
    if len(sys.argv) == 3 and sys.argv[1] == "--worker":
        worker(sys.argv[2])
    else:
        main()
