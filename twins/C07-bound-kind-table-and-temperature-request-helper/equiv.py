#!/usr/bin/env python
"""Differential check for the C07 refactoring (twin3).

Runs the same seeded scenarios against the reference tree (/repo) and
the refactored tree (/tmp/wtV-C07), each in its own subprocess, and
asserts that the two transcripts are identical. Everything observable
is recorded after every call: emitted lines (through a registered
in-process writer), the whole GState, the builder position and move
parameters, the user bounds, return values and exception type names
and messages.

Usage:  /venv/bin/python /tmp/twin3-C07/equiv.py
"""

import json
import os
import subprocess
import sys

TREES = {"reference": "/repo", "refactored": "/tmp/wtV-C07"}
SEEDS = list(range(12))
TIMEOUT = 600


# ---------------------------------------------------------------------
# Worker (runs with PYTHONPATH pointing to one of the trees)
# ---------------------------------------------------------------------

def worker(seed: int) -> None:
    import math
    import random

    import numpy as np
    import gscrib
    from gscrib import GCodeBuilder
    from gscrib.params import ParamsDict
    from gscrib.geometry import Point
    from gscrib.geometry.bounds import BoundManager, VALID_PROPERTIES
    from gscrib.writers import BaseWriter

    assert os.path.dirname(os.path.dirname(gscrib.__file__)) == \
        os.environ["EXPECTED_TREE"], gscrib.__file__

    rng = random.Random(seed)
    transcript = []

    def show(value):
        """Stable, type-revealing representation of a value."""

        if isinstance(value, float):
            return f"{type(value).__name__}:{value!r}"
        if isinstance(value, Point):
            return "Point(" + ",".join(show(c) for c in value) + ")"
        if isinstance(value, (tuple, list)):
            return type(value).__name__ + \
                "[" + ",".join(show(c) for c in value) + "]"
        if isinstance(value, dict):
            return type(value).__name__ + "{" + ",".join(
                f"{k!r}:{show(v)}" for k, v in value.items()) + "}"
        return f"{type(value).__name__}:{value!r}"

    class Recorder(BaseWriter):
        def __init__(self):
            self.lines = []
            self.fail_next = False

        def connect(self):
            return self

        def disconnect(self, wait=True):
            self.lines.append(f"<disconnect {wait}>")

        def write(self, statement):
            if self.fail_next:
                self.fail_next = False
                raise OSError("fake device failure")
            self.lines.append(statement.decode("utf-8"))

    def attempt(label, fn, *args, **kwargs):
        try:
            result = fn(*args, **kwargs)
            outcome = ("ok", show(result))
        except Exception as e:  # pylint: disable=broad-except
            outcome = ("raise", type(e).__name__, str(e))
        transcript.append([label, show(args), show(kwargs), outcome])
        return outcome

    # -- value pools ---------------------------------------------------

    numbers = [
        0, 1, -1, 2, 5, 10, 50, 100, 250, 1000, 0.0, -0.0, 0.5, -0.5,
        1.5, 19.999, 20.0, 20.001, 60.0, 200.0, 1e-9, 1e9,
        float("nan"), float("inf"), float("-inf"),
        np.float64(12.5), np.float64("nan"), np.int64(7), True, False,
    ]

    junk = [None, "12", "abc", [1, 2], (1, 2, 3), {"a": 1}, b"x", 3 + 4j]

    def number():
        if rng.random() < 0.25:
            return round(rng.uniform(-300, 300), rng.choice([0, 1, 3]))
        return rng.choice(numbers)

    def maybe_junk():
        return rng.choice(junk) if rng.random() < 0.12 else number()

    def coord():
        r = rng.random()
        if r < 0.2:
            return None
        if r < 0.3:
            return rng.choice(numbers)
        return round(rng.uniform(-30, 30), rng.choice([0, 1, 2]))

    def point():
        return Point(coord(), coord(), coord())

    names = list(VALID_PROPERTIES) + [
        "axis", "", "AXES", "feed_rate", "tool-power ", None, 7]

    def prop_name():
        return rng.choice(names if rng.random() < 0.2
            else list(VALID_PROPERTIES))

    def bound_for(name):
        r = rng.random()
        if name == "axes" and r < 0.8:
            return point()
        if r < 0.1:
            return point()
        if r < 0.2:
            return rng.choice(junk)
        return number()

    # -- scenario 1: the bounds manager on its own ---------------------

    def bounds_snapshot(manager):
        return show({k: v for k, v in manager._bounds.items()})

    manager = BoundManager()

    for _ in range(260):
        action = rng.choice(["set", "set", "validate", "validate", "get"])
        name = prop_name()

        if action == "set":
            lo, hi = bound_for(name), bound_for(name)
            if rng.random() < 0.5 and not isinstance(lo, Point):
                try:
                    lo, hi = sorted((lo, hi))
                except Exception:  # pylint: disable=broad-except
                    pass
            attempt("bm.set_bounds", manager.set_bounds, name, lo, hi)
        elif action == "validate":
            value = point() if rng.random() < 0.4 else maybe_junk()
            attempt("bm.validate", manager.validate, name, value)
        else:
            attempt("bm.get_bounds", manager.get_bounds, name)

        transcript.append(["bm.state", bounds_snapshot(manager)])

    # -- scenario 2: call histories over the builder -------------------

    STATE_FIELDS = [
        "position", "is_coolant_active", "is_tool_active", "tool_number",
        "tool_power", "feed_rate", "spin_mode", "power_mode",
        "coolant_mode", "distance_mode", "extrusion_mode", "feed_mode",
        "tool_swap_mode", "halt_mode", "length_units", "time_units",
        "temperature_units", "plane", "direction", "resolution",
        "target_hotend_temperature", "target_bed_temperature",
        "target_chamber_temperature",
    ]

    def snapshot(g, rec):
        state = {f: show(getattr(g.state, f)) for f in STATE_FIELDS}
        state["state.params"] = show(g.state._current_params)
        state["core.params"] = show(g._current_params)
        state["core.position"] = show(g.position)
        state["core.distance_mode"] = show(g.distance_mode)
        state["bounds"] = bounds_snapshot(g.state._user_bounds)
        state["params_shared"] = \
            g.state._current_params is g._current_params
        state["param.F"] = show(g.get_parameter("f"))
        state["param.S"] = show(g.state.get_parameter("S"))
        lines, rec.lines = rec.lines, []
        return [state, lines]

    # Hooks: exercise every shape of params a hook may hand back

    def hook_scale(origin, target, params, state):
        if params.get("F") is not None and \
                isinstance(params.get("F"), (int, float)):
            params.update(F=params.get("F") * 2)
        return params

    def hook_plain_dict(origin, target, params, state):
        return {**params, "S": 33.0, "E": 0.25}

    def hook_lower_keys(origin, target, params, state):
        return {"f": 120, "s": 4, "X": params.get("X")}

    def hook_none(origin, target, params, state):
        return None

    def hook_negative(origin, target, params, state):
        params["S"] = -5
        return params

    def hook_raises(origin, target, params, state):
        raise RuntimeError("hook failed")

    hooks = [hook_scale, hook_plain_dict, hook_lower_keys, hook_none,
        hook_negative, hook_raises]

    def move_kwargs():
        kw = {}
        for axis in "xyz":
            if rng.random() < 0.6:
                kw[rng.choice([axis, axis.upper()])] = coord()
        if rng.random() < 0.6:
            kw[rng.choice(["F", "f"])] = maybe_junk()
        if rng.random() < 0.4:
            kw[rng.choice(["S", "s"])] = maybe_junk()
        if rng.random() < 0.2:
            kw["E"] = number()
        if rng.random() < 0.1:
            kw["comment"] = "a move"
        return kw

    def temperature():
        return maybe_junk()

    enum_pool = {
        "set_temperature_units": ["celsius", "kelvin", "fahrenheit"],
        "set_time_units": ["seconds", "milliseconds", "s", "ms", "h"],
        "set_length_units": ["millimeters", "inches", "mm", "in", "ft"],
        "set_plane": ["xy", "zx", "yz", "xz"],
        "set_distance_mode": ["absolute", "relative", "polar"],
        "set_extrusion_mode": ["absolute", "relative", "x"],
        "set_feed_mode": ["units/min", "units/rev", "1/time", "x"],
        "set_direction": ["clockwise", "counter", "cw", "ccw", "x"],
    }

    halt_modes = ["off", "pause", "optional-pause", "end-without-reset",
        "end-with-reset", "pallet-exchange", "wait-for-bed",
        "wait-for-hotend", "wait-for-chamber", "wait-for-motion", "x"]

    def step(g, rec):
        r = rng.random()

        if r < 0.30:
            name = rng.choice(["move", "rapid", "move_absolute",
                "rapid_absolute", "set_axis", "auto_home"])
            kw = move_kwargs()
            if rng.random() < 0.15:
                return attempt(name, getattr(g, name), point(), **{
                    k: v for k, v in kw.items()
                    if k.lower() not in "xyz"})
            return attempt(name, getattr(g, name), **kw)

        if r < 0.36:
            mode = rng.choice(["away", "towards", "away-no-error",
                "towards-no-error", "x"])
            return attempt("probe", g.probe, mode, **move_kwargs())

        if r < 0.50:
            name = rng.choice(["set_bed_temperature",
                "set_hotend_temperature", "set_chamber_temperature"])
            return attempt(name, getattr(g, name), temperature())

        if r < 0.58:
            name = prop_name()
            lo, hi = bound_for(name), bound_for(name)
            if rng.random() < 0.7:
                if name == "axes":
                    lo = Point(-40, -40, rng.choice([-40, None]))
                    hi = Point(40, rng.choice([40, 15]), 40)
                    if rng.random() < 0.3:
                        lo, hi = tuple(lo), list(hi)
                elif isinstance(name, str):
                    lo, hi = rng.choice([(0, 100), (10, 250.5),
                        (-50, 60), (1, 3), (0.0, 1e9)])
            return attempt("set_bounds", g.set_bounds, name, lo, hi)

        if r < 0.62:
            return attempt("get_bounds", g.state.get_bounds, prop_name())

        if r < 0.70:
            name = rng.choice(list(enum_pool))
            return attempt(name, getattr(g, name),
                rng.choice(enum_pool[name]))

        if r < 0.76:
            name = rng.choice(["set_feed_rate", "set_tool_power"])
            return attempt(name, getattr(g, name), maybe_junk())

        if r < 0.84:
            kw = {}
            if rng.random() < 0.6:
                kw[rng.choice(["S", "s"])] = temperature()
            if rng.random() < 0.4:
                kw[rng.choice(["R", "r"])] = temperature()
            return attempt("halt", g.halt, rng.choice(halt_modes), **kw)

        if r < 0.90:
            name, modes = rng.choice([
                ("tool_on", ["clockwise", "counter", "off", "cw", "x"]),
                ("power_on", ["constant", "dynamic", "off", "x"])])
            return attempt(name, getattr(g, name),
                rng.choice(modes), maybe_junk())

        if r < 0.94:
            name = rng.choice(["tool_off", "power_off", "coolant_off",
                "wait", "pause", "stop"])
            return attempt(name, getattr(g, name))

        if r < 0.96:
            return attempt("coolant_on", g.coolant_on,
                rng.choice(["mist", "flood", "off", "x"]))

        if r < 0.98:
            return attempt("tool_change", g.tool_change,
                rng.choice(["manual", "automatic", "off"]),
                rng.choice([0, 1, 2, 3, 12, 100, -1, 2.0, "1", None]))

        if rng.random() < 0.5:
            hook = rng.choice(hooks)
            transcript.append(["add_hook", hook.__name__])
            g.add_hook(hook)
        elif rng.random() < 0.5:
            for hook in hooks:
                g.remove_hook(hook)
            transcript.append(["remove_hooks"])
        else:
            rec.fail_next = True
            transcript.append(["device will fail"])

        return None

    for history in range(14):
        g = GCodeBuilder(
            decimal_places=rng.choice([5, 2, 0]), line_endings="\n")
        rec = Recorder()
        g.add_writer(rec)
        transcript.append(["history", history])

        if rng.random() < 0.5:
            hook = rng.choice(hooks[:3])
            g.add_hook(hook)
            transcript.append(["add_hook", hook.__name__])

        for _ in range(70):
            step(g, rec)
            transcript.append(snapshot(g, rec))

        attempt("teardown", g.teardown)
        transcript.append(snapshot(g, rec))

    # -- scenario 3: private helpers driven directly -------------------

    g = GCodeBuilder(line_endings="\n")
    rec = Recorder()
    g.add_writer(rec)
    g.set_bounds("feed-rate", 10, 500)
    g.set_bounds("tool-power", 0, 90)
    g.set_bounds("axes", (-5, -5, -5), (5, 5, 5))

    for _ in range(150):
        params_source = {}
        if rng.random() < 0.7:
            params_source[rng.choice(["F", "f"])] = maybe_junk()
        if rng.random() < 0.7:
            params_source[rng.choice(["S", "s"])] = maybe_junk()
        if rng.random() < 0.3:
            params_source["E"] = number()

        params = rng.choice([
            ParamsDict(params_source), dict(params_source), None])
        axes = rng.choice([point(), Point(0, 0, 0), Point.unknown()])

        name = rng.choice(["_validate_move", "_update_axes"])
        if name == "_validate_move" or rng.random() < 0.5:
            attempt("_validate_move", g._validate_move, axes, params)
        else:
            attempt("_update_axes", g._update_axes, axes, params)

        attempt("_track_move_params", g._track_move_params, params)
        transcript.append(snapshot(g, rec))

    json.dump(transcript, sys.stdout)


# ---------------------------------------------------------------------
# Driver
# ---------------------------------------------------------------------

def run_tree(tree: str, seed: int) -> list:
    env = dict(os.environ)
    env["PYTHONPATH"] = tree
    env["EXPECTED_TREE"] = tree
    env["PYTHONDONTWRITEBYTECODE"] = "1"
    env["PYTHONHASHSEED"] = "0"

    proc = subprocess.run(
        [sys.executable, os.path.abspath(__file__), "--worker", str(seed)],
        env=env, cwd="/tmp", stdin=subprocess.DEVNULL,
        capture_output=True, text=True, timeout=TIMEOUT, check=False,
    )

    if proc.returncode != 0:
        sys.stderr.write(proc.stderr[-4000:])
        raise SystemExit(f"worker failed for {tree} (seed {seed})")

    return json.loads(proc.stdout)


def main() -> int:
    total = raised = lines = 0

    for seed in SEEDS:
        reference = run_tree(TREES["reference"], seed)
        refactored = run_tree(TREES["refactored"], seed)

        for index, (a, b) in enumerate(zip(reference, refactored)):
            if a != b:
                print(f"seed {seed}: transcripts differ at entry {index}")
                print("  reference :", json.dumps(a)[:1500])
                print("  refactored:", json.dumps(b)[:1500])
                return 1

        assert len(reference) == len(refactored), "length mismatch"
        assert reference == refactored

        total += len(reference)
        for entry in reference:
            if len(entry) == 4 and isinstance(entry[3], list):
                raised += entry[3][0] == "raise"
            if len(entry) == 2 and isinstance(entry[1], list):
                lines += len(entry[1])

    print(f"OK: {len(SEEDS)} seeds, {total} transcript entries identical "
        f"({raised} calls raised, {lines} emitted lines)")
    return 0


if __name__ == "__main__":
    if len(sys.argv) == 3 and sys.argv[1] == "--worker":
        worker(int(sys.argv[2]))
    else:
        sys.exit(main())
