#!/usr/bin/env python
"""Differential check: /repo (original) vs /tmp/wtW-C03 (refactored).

Parent mode runs this same file twice as a child, each with a different
PYTHONPATH, and compares the JSON transcripts. Child mode drives the
builder with seeded random call sequences and records everything
observable: emitted bytes (through a registered in-process writer),
positions, state properties, return values and exception type names.
"""

import json
import math
import os
import random
import subprocess
import sys

TREES = {"orig": "/repo", "refactored": "/tmp/wtW-C03"}
N_SCENARIOS = 400


# --------------------------------------------------------------------------
# child
# --------------------------------------------------------------------------

def child():
    import gscrib
    from gscrib import GCodeBuilder, GCodeCore
    from gscrib.geometry import Point
    from gscrib.writers import BaseWriter

    tree = os.path.dirname(os.path.dirname(os.path.abspath(gscrib.__file__)))

    class FakeWriter(BaseWriter):
        def __init__(self, fail_after=None):
            self.lines = []
            self.fail_after = fail_after
            self.count = 0

        def connect(self):
            return self

        def disconnect(self, wait=True):
            self.lines.append("<disconnect %r>" % (wait,))

        def write(self, statement):
            self.count += 1
            if self.fail_after is not None and self.count > self.fail_after:
                raise OSError("fake device failure")
            self.lines.append(repr(statement))

        def flush(self):
            self.lines.append("<flush>")

    def enc(v):
        if isinstance(v, float):
            return repr(v)
        if isinstance(v, (list, tuple)):
            return [type(v).__name__] + [enc(x) for x in v]
        if isinstance(v, dict):
            return {str(k): enc(x) for k, x in sorted(v.items(), key=lambda kv: str(kv[0]))}
        if v is None or isinstance(v, (int, str, bool)):
            return repr(v)
        return "%s:%s" % (type(v).__name__, v)

    def snapshot(g):
        snap = {
            "axes": enc(g._current_axes),
            "pos": enc(g.position),
            "dm": str(g._distance_mode),
            "params": enc(dict(g._current_params)),
        }
        state = getattr(g, "state", None)
        if state is not None:
            snap.update({
                "s.pos": enc(state.position),
                "s.F": enc(state.feed_rate),
                "s.S": enc(state.tool_power),
                "s.T": enc(state.tool_number),
                "s.dm": str(state.distance_mode),
                "s.tool": enc(state.is_tool_active),
                "s.bed": enc(state.target_bed_temperature),
                "s.hot": enc(state.target_hotend_temperature),
                "s.params": enc({k: state.get_parameter(k) for k in "XYZFSE"}),
            })
        return snap

    SPECIAL = [0, 0.0, -0.0, 1, -1, 10, 10.0, -10.0, 5.5, 1e-9, 1e9,
               math.nan, math.inf, -math.inf, None,
               math.nextafter(10.0, math.inf), math.nextafter(10.0, -math.inf),
               math.nextafter(-10.0, -math.inf), math.nextafter(-10.0, math.inf)]
    BAD = ["1", "abc", [1], {}, b"x", object, True, 1j]

    def num(rng, bad=0.06):
        r = rng.random()
        if r < bad:
            return rng.choice(BAD)
        if r < 0.35:
            return rng.choice(SPECIAL)
        if r < 0.5:
            return rng.randint(-15, 15)
        return round(rng.uniform(-15, 15), rng.choice([0, 1, 3, 9]))

    def pointlike(rng):
        r = rng.random()
        n = rng.choice([3, 3, 3, 3, 0, 1, 2, 4, 5])
        vals = [num(rng) for _ in range(n)]
        if r < 0.35:
            return tuple(vals)
        if r < 0.55:
            return list(vals)
        if r < 0.8:
            try:
                return Point(*vals[:3])
            except Exception:
                return tuple(vals)
        if r < 0.85:
            return rng.choice(["xyz", 7, {"x": 1}, b"abc", (("a",),)])
        return None

    def move_kwargs(rng):
        kw = {}
        for key in ("x", "y", "z", "X", "Y", "Z"):
            if rng.random() < 0.3:
                kw[key] = num(rng)
        for key in ("F", "f", "S", "E", "e", "I", "comment", "Comment", "A"):
            if rng.random() < 0.18:
                kw[key] = (rng.choice(["hello", "", None, 3])
                           if key.lower() == "comment" else num(rng))
        if rng.random() < 0.03:
            kw[rng.choice(["", "1", "xx", "prepare_name", "kwargs", "mode"])] = num(rng)
        return kw

    def hook_factory(rng):
        kind = rng.choice(["extrude", "feed", "bad", "raise", "newdict"])

        def hook(origin, target, params, state):
            if kind == "extrude":
                params.update(E=round(abs((target - origin).x or 0) * 0.1, 4))
                return params
            if kind == "feed":
                params["F"] = 1234
                return params
            if kind == "bad":
                return None
            if kind == "raise":
                raise RuntimeError("hook failure")
            return type(params)({**params, "S": 7})
        hook.kind = kind
        return hook

    def scenario(seed):
        rng = random.Random(seed)
        log = []
        use_core = rng.random() < 0.25
        cls = GCodeCore if use_core else GCodeBuilder
        cfg = {}
        if rng.random() < 0.3:
            cfg["decimal_places"] = rng.choice([0, 2, 8])
        if rng.random() < 0.2:
            cfg.update(x_axis="A", z_axis="W")
        g = cls(cfg)
        writer = FakeWriter(fail_after=rng.choice([None, None, None, 5, 12]))
        g.add_writer(writer)
        active_hooks = []
        cms = []

        def record(name, fn):
            before = len(writer.lines)
            try:
                out = fn()
                res = ["ok", enc(out)]
            except BaseException as exc:  # noqa
                res = ["exc", type(exc).__name__]
            log.append([name, res, writer.lines[before:], snapshot(g)])

        if not use_core and rng.random() < 0.8:
            lo = sorted([rng.choice([-10, -5, 0, -10.0]), rng.choice([10, 5, 10.0, 20])])
            record("bounds-axes", lambda: g.set_bounds(
                "axes", (lo[0], lo[0], rng.choice([lo[0], -1])), (lo[1], lo[1], lo[1])))
            if rng.random() < 0.7:
                record("bounds-F", lambda: g.set_bounds("feed-rate", 1, 10))
            if rng.random() < 0.7:
                record("bounds-S", lambda: g.set_bounds("tool-power", 0, 10.0))

        ops = ["move", "rapid", "move_absolute", "rapid_absolute", "move",
               "to_absolute_list", "to_absolute", "to_distance_mode", "set_axis",
               "distance", "abs_cm", "rel_cm", "transform", "polyline", "spline",
               "arc", "hook", "unhook", "auto_home", "nested_cm", "cm_decorator",
               "cm_raise"]

        for step in range(rng.randint(6, 16)):
            op = rng.choice(ops)
            tag = "%d:%s" % (step, op)

            if op in ("move", "rapid", "move_absolute", "rapid_absolute", "set_axis"):
                meth = getattr(g, op)
                p, kw = pointlike(rng), move_kwargs(rng)
                if rng.random() < 0.5:
                    p = None
                if rng.random() < 0.1:
                    record(tag + "-kwpoint", lambda: meth(point=p, **kw))
                else:
                    record(tag, lambda: meth(p, **kw))
            elif op == "auto_home":
                if use_core:
                    continue
                p = pointlike(rng)
                record(tag, lambda: g.auto_home(p))
            elif op == "to_absolute_list":
                r = rng.random()
                n = rng.choice([0, 1, 2, 3, 6])
                pts = [pointlike(rng) for _ in range(n)]
                if r < 0.1:
                    pts = tuple(pts)
                elif r < 0.15:
                    pts = rng.choice([None, 5, "ab", iter([(1, 2, 3)])])
                before = enc(g._current_axes)
                record(tag, lambda: g.to_absolute_list(pts))
                assert before == enc(g._current_axes)
            elif op == "to_absolute":
                p = pointlike(rng)
                record(tag, lambda: g.to_absolute(p))
            elif op == "to_distance_mode":
                p = pointlike(rng)
                record(tag, lambda: g.to_distance_mode(p))
            elif op == "distance":
                m = rng.choice(["absolute", "relative", "relative", "bogus", None])
                record(tag, lambda: g.set_distance_mode(m))
            elif op in ("abs_cm", "rel_cm"):
                name = "absolute_mode" if op == "abs_cm" else "relative_mode"
                kw = move_kwargs(rng)

                def run_cm():
                    cm = getattr(g, name)()
                    kind = type(cm).__name__
                    with cm as value:
                        inner = str(g._distance_mode)
                        g.move(**kw)
                        if rng.random() < 0.3:
                            g.set_distance_mode(rng.choice(["absolute", "relative"]))
                    return [kind, enc(value), inner]
                record(tag, run_cm)
            elif op == "nested_cm":
                def run_nested():
                    seen = []
                    with g.relative_mode():
                        seen.append(str(g._distance_mode))
                        with g.absolute_mode():
                            seen.append(str(g._distance_mode))
                            g.rapid(x=1)
                            with g.relative_mode():
                                g.move_absolute(y=2, F=5)
                                seen.append(str(g._distance_mode))
                        seen.append(str(g._distance_mode))
                    return seen
                record(tag, run_nested)
            elif op == "cm_decorator":
                def run_deco():
                    cm = getattr(g, rng.choice(["absolute_mode", "relative_mode"]))()

                    @cm
                    def body():
                        g.move(x=1, y=1)
                        return str(g._distance_mode)
                    return [body(), body()]
                record(tag, run_deco)
            elif op == "cm_raise":
                def run_raise():
                    with getattr(g, rng.choice(["absolute_mode", "relative_mode"]))():
                        g.move(x=2)
                        raise KeyError("inside")
                record(tag, run_raise)
                # unused context manager must have no effect at all
                record(tag + "-unused", lambda: type(g.absolute_mode()).__name__)
            elif op == "transform":
                t = rng.choice(["translate", "rotate", "scale", "mirror", "reset"])
                if t == "translate":
                    a, b = num(rng, 0), num(rng, 0)
                    record(tag + t, lambda: g.transform.translate(a, b))
                elif t == "rotate":
                    a = rng.choice([90, 45, 30.5, 180])
                    record(tag + t, lambda: g.transform.rotate(a))
                elif t == "scale":
                    a = rng.choice([2, 0.5, -1])
                    record(tag + t, lambda: g.transform.scale(a))
                elif t == "mirror":
                    record(tag + t, lambda: g.transform.mirror())
                else:
                    record(tag + t, lambda: g.transform.restore_state("nonexistent"))
            elif op in ("polyline", "spline", "arc"):
                if use_core:
                    continue
                if op == "polyline":
                    pts = [pointlike(rng) for _ in range(rng.choice([0, 1, 3]))]
                    kw = move_kwargs(rng)
                    record(tag, lambda: g.trace.polyline(pts, **kw))
                elif op == "spline":
                    pts = [(rng.randint(-12, 12), rng.randint(-12, 12), 0)
                           for _ in range(rng.choice([1, 2, 4]))]
                    record(tag, lambda: g.trace.spline(pts, F=rng.choice([5, 50])))
                else:
                    t = (rng.randint(-12, 12), rng.randint(-12, 12))
                    record(tag, lambda: (g.set_resolution(1.0),
                                         g.trace.arc_radius(t, rng.choice([8, 20, 0.1])))[1])
            elif op == "hook":
                if use_core:
                    continue
                h = hook_factory(rng)
                active_hooks.append(h)
                record(tag + h.kind, lambda: g.add_hook(h))
            elif op == "unhook":
                if use_core or not active_hooks:
                    continue
                h = active_hooks.pop()
                record(tag, lambda: g.remove_hook(h))

        record("teardown", lambda: g.teardown())
        log.append(["all-lines", writer.lines])
        return log

    out = {"tree": tree, "scenarios": [scenario(s) for s in range(N_SCENARIOS)]}
    sys.stdout.write(json.dumps(out))


# --------------------------------------------------------------------------
# parent
# --------------------------------------------------------------------------

def run_tree(path):
    env = dict(os.environ, PYTHONPATH=path, PYTHONHASHSEED="0")
    proc = subprocess.run(
        [sys.executable, os.path.abspath(__file__), "--child"],
        env=env, cwd="/tmp/twin4-C03", stdin=subprocess.DEVNULL,
        stdout=subprocess.PIPE, stderr=subprocess.PIPE, timeout=600)
    if proc.returncode != 0:
        sys.stderr.write(proc.stderr.decode()[-4000:])
        raise SystemExit("child failed for %s" % path)
    return json.loads(proc.stdout)


def main():
    results = {name: run_tree(path) for name, path in TREES.items()}
    for name, path in TREES.items():
        assert results[name]["tree"] == path, (name, results[name]["tree"])
    a = results["orig"]["scenarios"]
    b = results["refactored"]["scenarios"]
    assert len(a) == len(b) == N_SCENARIOS
    calls = excs = lines = 0
    kinds = {}
    for seed, (sa, sb) in enumerate(zip(a, b)):
        if sa != sb:
            for ea, eb in zip(sa, sb):
                if ea != eb:
                    print("MISMATCH seed", seed)
                    print(" orig      :", json.dumps(ea)[:1500])
                    print(" refactored:", json.dumps(eb)[:1500])
                    break
            raise SystemExit(1)
        for entry in sa[:-1]:
            calls += 1
            lines += len(entry[2])
            if entry[1][0] == "exc":
                excs += 1
                kinds[entry[1][1]] = kinds.get(entry[1][1], 0) + 1
    print("identical transcripts: %d scenarios, %d calls, %d raised %s, %d emitted lines"
          % (N_SCENARIOS, calls, excs, json.dumps(kinds, sort_keys=True), lines))


if __name__ == "__main__":
    if "--child" in sys.argv:
        child()
    else:
        main()
