#!/usr/bin/env python
"""Differential check: /repo (reference) vs /tmp/wtV-C05 (refactored).

The parent process starts one child per tree (PYTHONPATH selects the
tree), each child drives the refactored code with the same seeded random
inputs and prints a JSON transcript; the parent asserts both transcripts
are identical.  No device is touched: the only writer is an in-process
fake that records the bytes it is given.
"""

import json
import os
import subprocess
import sys

TREES = {"reference": "/repo", "refactored": "/tmp/wtV-C05"}
SEED = 50505


# ---------------------------------------------------------------------
# Child side
# ---------------------------------------------------------------------

def child(expected_root: str) -> None:
    import math
    import random
    from decimal import Decimal
    from fractions import Fraction

    import numpy as np
    import gscrib

    root = os.path.realpath(os.path.dirname(os.path.dirname(gscrib.__file__)))
    assert root == os.path.realpath(expected_root), (root, expected_root)

    from gscrib import GCodeBuilder
    from gscrib.enums import (
        CoolantMode, DistanceMode, HaltMode, PowerMode, ProbingMode,
        SpinMode, ToolSwapMode)
    from gscrib.formatters import DefaultFormatter
    from gscrib.geometry import Point
    from gscrib.geometry.bounds import BoundManager, VALID_PROPERTIES
    from gscrib.params import ParamsDict
    from gscrib.writers import BaseWriter

    rng = random.Random(SEED)
    transcript = []

    # -- helpers ------------------------------------------------------

    def show(value):
        """Deterministic, type-revealing rendering of a value."""

        if isinstance(value, Point):
            return "Point(" + ", ".join(show(v) for v in value) + ")"
        if isinstance(value, (tuple, list)):
            return type(value).__name__ + "[" + ", ".join(map(show, value)) + "]"
        if isinstance(value, dict):
            items = ", ".join(f"{show(k)}: {show(v)}" for k, v in value.items())
            return type(value).__name__ + "{" + items + "}"
        if isinstance(value, (bool, int, float, str, bytes, type(None))):
            return f"{type(value).__name__}:{value!r}"
        if isinstance(value, np.generic):
            return f"{type(value).__name__}:{value!r}"
        if isinstance(value, (Decimal, Fraction, complex)):
            return f"{type(value).__name__}:{value!r}"
        if hasattr(value, "value") and hasattr(value, "name"):
            return f"{type(value).__name__}.{value.name}"
        return f"<{type(value).__name__}>"

    def attempt(label, fn, *args, **kwargs):
        """Call fn and record its outcome."""

        try:
            result = fn(*args, **kwargs)
            outcome = ["ok", show(result)]
        except BaseException as e:  # pylint: disable=broad-except
            outcome = ["raise", type(e).__name__, str(e)]

        transcript.append([label, outcome])
        return outcome

    class Chatty:
        """Non numeric parameter value that logs when it is rendered."""

        log = []

        def __init__(self, name, fail=False):
            self.name = name
            self.fail = fail

        def __str__(self):
            Chatty.log.append(self.name)
            if self.fail:
                raise RuntimeError(f"cannot render {self.name}")
            return f"<{self.name}>"

    NUMBERS = [
        0, 1, -1, 7, 255, 256, 10 ** 12, True, False,
        0.0, -0.0, 0.5, -0.5, 1e-7, -1e-7, 1e-5, 5e-6, 123.456789123,
        1e21, -2.5e-3, 99.999995, 0.1 + 0.2,
        float("nan"), float("inf"), float("-inf"),
        np.float64(2.25), np.float64("nan"), np.float32(0.1), np.int64(3),
        np.float64(-0.0), np.int32(0),
        Fraction(1, 3), Decimal("1.25"), Decimal("NaN"), complex(1, 2),
    ]

    def any_number():
        if rng.random() < 0.5:
            return rng.choice(NUMBERS)
        if rng.random() < 0.5:
            return rng.randint(-500, 500)
        return round(rng.uniform(-500, 500), rng.randint(0, 8))

    def sane_number(lo=-50.0, hi=150.0):
        kind = rng.random()
        if kind < 0.12:
            return rng.choice([
                float("nan"), float("inf"), float("-inf"), -0.0, 0, 0.0,
                np.float64(12.5), np.float64("inf"), np.int64(4), True])
        if kind < 0.4:
            return rng.randint(int(lo), int(hi))
        return round(rng.uniform(lo, hi), rng.randint(0, 6))

    # =================================================================
    # 1. DefaultFormatter.parameters / command / _iter_words users
    # =================================================================

    KEYS = [
        "X", "Y", "Z", "x", "y", "z", "F", "f", "S", "s", "E", "e", "P",
        "R", "I", "J", "K", "T", "ab", "Ab", "", "é", "ß", "comment",
    ]

    class LoudFormatter(DefaultFormatter):
        """A formatter whose number() is overridden by a subclass."""

        __slots__ = ("calls",)

        def __init__(self):
            super().__init__()
            self.calls = []

        def number(self, number):
            self.calls.append(show(number))
            return "#" + super().number(number)

    class BrokenFormatter(DefaultFormatter):
        """A formatter whose number() does not return a string."""

        def number(self, number):
            return 42

    def random_params():
        size = rng.choice([0, 0, 1, 1, 2, 3, 4, 6, 9])
        keys = [rng.choice(KEYS) for _ in range(size)]
        params = {}

        for index, key in enumerate(keys):
            kind = rng.random()
            if kind < 0.62:
                value = any_number()
            elif kind < 0.72:
                value = None
            elif kind < 0.84:
                value = rng.choice(["on", "", " ", "1.50", "a b", "\n"])
            elif kind < 0.94:
                value = Chatty(f"c{index}", fail=rng.random() < 0.25)
            else:
                value = rng.choice([[1, 2], (3,), {"k": 1}, b"raw"])
            params[key] = value

        if rng.random() < 0.04:
            params[rng.choice([5, None, 2.5, ("X",)])] = 1

        return params

    def make_formatter():
        kind = rng.random()
        formatter = (
            LoudFormatter() if kind < 0.25 else
            BrokenFormatter() if kind < 0.30 else
            DefaultFormatter()
        )

        if rng.random() < 0.5:
            formatter.set_decimal_places(rng.choice([0, 1, 2, 3, 5, 8, 12]))
        if rng.random() < 0.3:
            formatter.set_axis_label(
                rng.choice(["x", "y", "z"]), rng.choice(["a", "U", " w ", "xx"]))
        if rng.random() < 0.3:
            formatter.set_comment_symbols(rng.choice(["(", ";", "#", "/*", "'"]))

        return formatter

    for case in range(420):
        formatter = make_formatter()
        params = random_params()
        Chatty.log = []
        label = f"fmt{case}"

        transcript.append([label + ".in", show(params)])
        attempt(label + ".parameters", formatter.parameters, params)
        transcript.append([label + ".rendered", list(Chatty.log)])
        Chatty.log = []

        wrapped = rng.choice([params, ParamsDict, None, "dict-subclass", 7])
        if wrapped is ParamsDict:
            wrapped = ParamsDict({
                k: v for k, v in params.items() if isinstance(k, str)})
        elif wrapped == "dict-subclass":
            wrapped = type("Sub", (dict,), {})(params)

        comment = rng.choice([
            None, None, "", "  ", "note", " padded ", "a\nb", "x ) y", "é"])
        code = rng.choice(["G1", "G0", "M104", "", "g92"])
        attempt(label + ".command", formatter.command, code, wrapped, comment)
        transcript.append([label + ".rendered2", list(Chatty.log)])

        if isinstance(formatter, LoudFormatter):
            transcript.append([label + ".number_calls", list(formatter.calls)])

    # Invalid argument types for the type checked entry points

    plain = DefaultFormatter()

    for index, bad in enumerate([None, [], "X1", 3, (("X", 1),)]):
        attempt(f"fmt.badparams{index}", plain.parameters, bad)
        attempt(f"fmt.badcommand{index}", plain.command, "G1", bad)
        attempt(f"fmt.badcomment{index}", plain.command, "G1", None, bad)

    # =================================================================
    # 2. BoundManager.set_bounds
    # =================================================================

    def random_point():
        def coord():
            kind = rng.random()
            if kind < 0.15:
                return None
            if kind < 0.22:
                return rng.choice([float("nan"), float("inf"), float("-inf")])
            return rng.choice([rng.randint(-20, 20), round(rng.uniform(-20, 20), 2)])
        return Point(coord(), coord(), coord())

    def random_bound(name):
        kind = rng.random()
        if kind < 0.55:
            if name == "axes":
                return random_point()
            return sane_number(-100, 300)
        if kind < 0.70:
            return random_point()
        if kind < 0.85:
            return sane_number(-100, 300)
        return rng.choice([
            None, "10", [1, 2, 3], (1, 2, 3), [1, 2], (0, 0, None),
            np.array([1.0, 2.0, 3.0]), b"1", {"x": 1}, object, complex(1, 1),
            np.float64(3.5), np.int64(2), True, Decimal("2"), Fraction(5, 2)])

    NAMES = list(VALID_PROPERTIES) + ["", "Axes", "feed_rate", "tool", 5, None]
    manager = BoundManager()

    for case in range(480):
        if rng.random() < 0.04:
            manager = BoundManager()

        name = rng.choice(NAMES)
        low, high = random_bound(name), random_bound(name)
        label = f"bounds{case}"
        transcript.append([label + ".in", [show(name), show(low), show(high)]])
        attempt(label + ".set", manager.set_bounds, name, low, high)

        if rng.random() < 0.15:
            attempt(label + ".kw", manager.set_bounds, name=name, min=low, max=high)

        transcript.append([label + ".table", show(dict(manager._bounds))])

        if name in VALID_PROPERTIES:
            attempt(label + ".get", manager.get_bounds, name)

    # =================================================================
    # 3. GCodeBuilder: moves, rejected commands, tracked state
    # =================================================================

    class MemoryWriter(BaseWriter):
        """In-process fake device: remembers the bytes it is given."""

        def __init__(self):
            self.lines = []
            self.fail_next = False

        def connect(self):
            return self

        def disconnect(self, wait=True):
            self.lines.append(("disconnect", wait))

        def write(self, statement):
            if self.fail_next:
                self.fail_next = False
                raise OSError("fake device unplugged")
            self.lines.append(statement)

    class CountingParams(ParamsDict):
        """Params returned by a hook; counts how often they are read."""

        reads = []

        def get(self, key, default=None):
            CountingParams.reads.append(key)
            return super().get(key, default)

    def snapshot(g):
        state = g.state
        return [
            show(g.position), show(state.position),
            show(g.distance_mode), show(state.distance_mode),
            show(state.feed_rate), show(state.tool_power),
            show(state.tool_number), show(state.tool_swap_mode),
            show(state.spin_mode), show(state.power_mode),
            show(state.coolant_mode), show(state.halt_mode),
            show(state.is_tool_active), show(state.is_coolant_active),
            show(state.feed_mode), show(state.extrusion_mode),
            show(state.target_bed_temperature),
            show(state.target_hotend_temperature),
            show(state.target_chamber_temperature),
            show(dict(g._current_params)), show(dict(state._current_params)),
            show(dict(state._user_bounds._bounds)),
        ]

    def move_kwargs():
        kwargs = {}

        for axis in "xyz":
            if rng.random() < 0.55:
                kwargs[rng.choice([axis, axis.upper()])] = sane_number(-40, 140)

        for word, lo, hi in (("F", -200, 3000), ("S", -50, 400)):
            if rng.random() < 0.45:
                key = rng.choice([word, word.lower()])
                kwargs[key] = rng.choice([
                    sane_number(lo, hi), sane_number(0, hi), None, "fast"])

        if rng.random() < 0.2:
            kwargs[rng.choice(["E", "e", "P", "A"])] = rng.choice([
                sane_number(), "txt", None])
        if rng.random() < 0.2:
            kwargs["comment"] = rng.choice(["go", "", "a\nb", None, 5])

        return kwargs

    def move_args():
        kind = rng.random()
        if kind < 0.6:
            return (), move_kwargs()

        point = rng.choice([
            Point(sane_number(), sane_number(), sane_number()),
            Point(x=sane_number()),
            [sane_number(), sane_number(), sane_number()],
            (sane_number(), None, sane_number()),
            [1, 2], (1, 2, 3, 4), np.array([1.5, 2.5, 3.5]), "abc", 7,
            Point.unknown(),
        ])
        kwargs = {
            k: v for k, v in move_kwargs().items() if k.upper() not in "XYZ"}
        return (point,), kwargs

    SPIN = list(SpinMode) + ["clockwise", "counter", "off", "sideways", 3]
    POWER = list(PowerMode) + ["constant", "dynamic", "off", "max", None]
    COOL = list(CoolantMode) + ["mist", "flood", "off", "foam"]
    SWAP = list(ToolSwapMode) + ["manual", "automatic", "off", "robot"]
    HALT = list(HaltMode) + [
        "pause", "wait-for-bed", "wait-for-hotend", "wait-for-chamber",
        "off", "forever"]
    PROBE = list(ProbingMode) + ["towards", "away", "sideways"]
    DIST = list(DistanceMode) + ["absolute", "relative", "diagonal"]

    def feed_hook(origin, target, params, state):
        params.update(F=rng.choice([600, 1200, -5, float("nan"), None]))
        return params

    def counting_hook(origin, target, params, state):
        return CountingParams(params)

    def plain_dict_hook(origin, target, params, state):
        return dict(params)

    def power_hook(origin, target, params, state):
        params["S"] = rng.choice([10, 250, -1, float("inf")])
        return params

    HOOKS = [feed_hook, counting_hook, plain_dict_hook, power_hook]

    def random_command(g, writer):
        """Pick one builder call; returns (name, callable)."""

        pick = rng.random()

        if pick < 0.34:
            name = rng.choice([
                "move", "move", "rapid", "move_absolute", "rapid_absolute",
                "set_axis", "auto_home"])
            args, kwargs = move_args()
            return f"{name}{show(args)}{show(kwargs)}", (
                lambda: getattr(g, name)(*args, **kwargs))

        if pick < 0.40:
            mode = rng.choice(PROBE)
            args, kwargs = move_args()
            return f"probe {show(mode)}{show(args)}{show(kwargs)}", (
                lambda: g.probe(mode, *args, **kwargs))

        if pick < 0.52:
            name = rng.choice([
                "feed-rate", "tool-power", "tool-number", "axes",
                "bed-temperature", "hotend-temperature",
                "chamber-temperature", "nozzle"])
            if name == "axes" and rng.random() < 0.8:
                low = rng.choice([(0, 0, -10), (-5, -5, -5), [0, 0, 0], (0, None, 0)])
                high = rng.choice([(100, 100, 50), (50, 50, 5), (0, 0, 0), 9])
            else:
                low, high = random_bound(name), random_bound(name)
            return f"set_bounds {name} {show(low)} {show(high)}", (
                lambda: g.set_bounds(name, low, high))

        if pick < 0.57:
            value = rng.choice([sane_number(-100, 3000), "x", None])
            return f"set_feed_rate {show(value)}", lambda: g.set_feed_rate(value)

        if pick < 0.62:
            value = rng.choice([sane_number(-100, 500), "x", None])
            return f"set_tool_power {show(value)}", lambda: g.set_tool_power(value)

        if pick < 0.67:
            mode, value = rng.choice(SPIN), sane_number(-100, 500)
            return f"tool_on {show(mode)} {show(value)}", (
                lambda: g.tool_on(mode, value))

        if pick < 0.71:
            mode, value = rng.choice(POWER), sane_number(-100, 500)
            return f"power_on {show(mode)} {show(value)}", (
                lambda: g.power_on(mode, value))

        if pick < 0.75:
            name = rng.choice(["tool_off", "power_off", "coolant_off", "wait"])
            return name, lambda: getattr(g, name)()

        if pick < 0.78:
            mode = rng.choice(COOL)
            return f"coolant_on {show(mode)}", lambda: g.coolant_on(mode)

        if pick < 0.82:
            mode = rng.choice(SWAP)
            number = rng.choice([0, 1, 2, 7, 12, 100, -3, 2.0, True, None])
            return f"tool_change {show(mode)} {show(number)}", (
                lambda: g.tool_change(mode, number))

        if pick < 0.88:
            mode = rng.choice(HALT)
            kwargs = {}
            for key in ("S", "s", "R", "r", "P"):
                if rng.random() < 0.3:
                    kwargs[key] = rng.choice([
                        sane_number(-20, 320), None, "hot"])
            return f"halt {show(mode)} {show(kwargs)}", (
                lambda: g.halt(mode, **kwargs))

        if pick < 0.92:
            name = rng.choice([
                "set_bed_temperature", "set_hotend_temperature",
                "set_chamber_temperature", "sleep"])
            value = rng.choice([sane_number(-20, 320), "warm"])
            return f"{name} {show(value)}", lambda: getattr(g, name)(value)

        if pick < 0.94:
            speed, fan = sane_number(-20, 300), rng.choice([0, 1, -1, 2.5])
            return f"set_fan_speed {show(speed)} {show(fan)}", (
                lambda: g.set_fan_speed(speed, fan))

        if pick < 0.96:
            mode = rng.choice(DIST)
            return f"set_distance_mode {show(mode)}", (
                lambda: g.set_distance_mode(mode))

        if pick < 0.98:
            hook = rng.choice(HOOKS)
            action = rng.choice(["add_hook", "add_hook", "remove_hook"])
            return f"{action} {hook.__name__}", lambda: getattr(g, action)(hook)

        def unplugged_move():
            writer.fail_next = True
            g.move(x=sane_number(0, 10), F=1000)

        return "move on unplugged device", unplugged_move

    step_total = 0

    for scenario in range(60):
        g = GCodeBuilder(
            decimal_places=rng.choice([5, 5, 3, 0]),
            line_endings=rng.choice(["\\n", "\\r\\n", "os"]),
            comment_symbols=rng.choice([";", "(", "#"]),
            x_axis=rng.choice(["X", "X", "A"]),
        )
        writer = MemoryWriter()
        g.add_writer(writer)

        if rng.random() < 0.3:
            second = MemoryWriter()
            g.add_writer(second)
        else:
            second = None

        if rng.random() < 0.3:
            g.transform.translate(rng.randint(-5, 5), rng.randint(-5, 5), 0)
        if rng.random() < 0.15:
            g.transform.rotate(rng.choice([90, 45, 30]), "z")

        transcript.append([f"sc{scenario}.start", snapshot(g)])

        for step in range(rng.randint(15, 40)):
            step_total += 1
            label = f"sc{scenario}.{step}"
            name, call = random_command(g, writer)
            CountingParams.reads = []
            before = len(writer.lines)

            transcript.append([label + ".call", name])
            attempt(label + ".result", call)
            transcript.append([label + ".emitted", [
                show(line) for line in writer.lines[before:]]])
            transcript.append([label + ".hook_reads", list(CountingParams.reads)])
            transcript.append([label + ".state", snapshot(g)])

        if second is not None:
            transcript.append([f"sc{scenario}.second", [
                show(line) for line in second.lines]])

        attempt(f"sc{scenario}.teardown", g.teardown)
        transcript.append([f"sc{scenario}.all", [
            show(line) for line in writer.lines]])

    transcript.append(["builder steps", step_total])

    json.dump(transcript, sys.stdout)


# ---------------------------------------------------------------------
# Parent side
# ---------------------------------------------------------------------

def run_tree(root: str):
    env = dict(os.environ)
    env["PYTHONPATH"] = root
    env["PYTHONDONTWRITEBYTECODE"] = "1"
    env["PYTHONHASHSEED"] = "0"

    proc = subprocess.run(
        [sys.executable, os.path.abspath(__file__), "--child", root],
        env=env, cwd="/tmp", stdin=subprocess.DEVNULL,
        stdout=subprocess.PIPE, stderr=subprocess.PIPE,
        timeout=600, check=False)

    if proc.returncode != 0:
        sys.stderr.write(proc.stderr.decode("utf-8", "replace")[-4000:])
        raise SystemExit(f"child for {root} failed ({proc.returncode})")

    return json.loads(proc.stdout.decode("utf-8"))


def main() -> int:
    transcripts = {name: run_tree(root) for name, root in TREES.items()}
    reference, refactored = transcripts["reference"], transcripts["refactored"]

    for index, (left, right) in enumerate(zip(reference, refactored)):
        if left != right:
            print(f"MISMATCH at record {index}:")
            print("  reference :", json.dumps(left)[:1500])
            print("  refactored:", json.dumps(right)[:1500])
            for back in range(max(0, index - 3), index):
                print("  context   :", json.dumps(reference[back])[:600])
            return 1

    assert len(reference) == len(refactored), (len(reference), len(refactored))
    assert reference == refactored

    outcomes = [r[1] for r in reference if isinstance(r[1], list) and r[1][:1] in (["ok"], ["raise"])]
    raised = {}
    for outcome in outcomes:
        if outcome[0] == "raise":
            raised[outcome[1]] = raised.get(outcome[1], 0) + 1

    print(f"records compared : {len(reference)}")
    print(f"calls recorded   : {len(outcomes)}")
    print(f"calls that raised: {sum(raised.values())} {sorted(raised.items())}")
    print(f"builder steps    : {reference[-1][1]}")
    print("IDENTICAL")
    return 0


if __name__ == "__main__":
    if len(sys.argv) >= 3 and sys.argv[1] == "--child":
        child(sys.argv[2])
    else:
        sys.exit(main())
