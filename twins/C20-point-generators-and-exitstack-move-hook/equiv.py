#!/usr/bin/env python
"""Differential check for the C20 refactoring (Point helpers,
GCodeCore._process_move_params / _transform_move, GCodeBuilder.move_hook).

Parent mode runs this same file as a child twice, once with
PYTHONPATH=/repo and once with PYTHONPATH=/tmp/wtW-C20, and compares
the transcripts byte for byte.
"""

import os
import subprocess
import sys

TREES = ("/repo", "/tmp/wtW-C20")
SEED = 20200420


# ---------------------------------------------------------------------
# Child
# ---------------------------------------------------------------------

def child():
    import math
    import random
    import logging

    import numpy as np

    import gscrib
    from gscrib import GCodeBuilder, GCodeCore
    from gscrib.params import ParamsDict
    from gscrib.geometry import Point
    from gscrib.hooks import extrusion_hook
    from gscrib.writers import BaseWriter

    logging.disable(logging.CRITICAL)
    assert os.path.dirname(os.path.dirname(gscrib.__file__)) == os.environ["EXPECT_TREE"]

    out = []
    emit = out.append
    rnd = random.Random(SEED)

    def show(value):
        if isinstance(value, Point):
            return "Point(%s)" % ", ".join(show(c) for c in tuple(value))
        if isinstance(value, dict):
            return "%s{%s}" % (type(value).__name__, ", ".join(
                "%r: %s" % (k, show(v)) for k, v in value.items()))
        if isinstance(value, (list, tuple)):
            return "%s[%s]" % (type(value).__name__, ", ".join(map(show, value)))
        if callable(value) and not isinstance(value, type):
            return "callable:%s" % getattr(value, "__qualname__", type(value).__name__)
        return "%s:%r" % (type(value).__name__, value)

    def attempt(label, fn, *args, **kwargs):
        try:
            result = fn(*args, **kwargs)
            emit("%s -> %s" % (label, show(result)))
            return result
        except BaseException as exc:  # noqa
            emit("%s !! %s" % (label, type(exc).__name__))
            return None

    class Recorder(BaseWriter):
        def __init__(self):
            self.lines = []
        def connect(self):
            emit("writer.connect")
            return self
        def disconnect(self, wait=True):
            emit("writer.disconnect %r" % (wait,))
        def write(self, statement):
            emit("W %r" % (statement,))
        def flush(self):
            emit("writer.flush")

    # -- Part A: Point helpers -----------------------------------------

    SCALARS = [
        None, 0, 0.0, -0.0, 1, -1, 2.5, -3.75, 1e-12, 1e300,
        float("nan"), float("inf"), float("-inf"),
        np.float64(1.5), np.float64(0.0), np.int64(3), np.float32(0.25),
        True, False,
    ]
    BAD = ["a", (1, 2), [1], object, b"x"]

    def scalar(bad=0.0):
        if rnd.random() < bad:
            return rnd.choice(BAD)
        if rnd.random() < 0.5:
            return rnd.choice(SCALARS)
        return round(rnd.uniform(-50, 50), rnd.randint(0, 6))

    def rpoint(bad=0.0):
        return Point(scalar(bad), scalar(bad), scalar(bad))

    class Duck:
        def __init__(self, **kw):
            self.__dict__.update(kw)

    for i in range(300):
        p, o, t, m = rpoint(0.05), rpoint(0.05), rpoint(0.05), rpoint(0.05)
        if rnd.random() < 0.3:
            t = o
        if rnd.random() < 0.3:
            t = Point(o.x, t.y, o.z)
        emit("A%d p=%s" % (i, show(p)))
        attempt("resolve", p.resolve)
        a, b, c = scalar(0.1), scalar(0.1), scalar(0.1)
        attempt("replace", p.replace, a, b, c)
        attempt("replace-kw", p.replace, y=b)
        attempt("replace-star", p.replace, *o)
        attempt("mask", p.mask, a, b, c)
        attempt("mask-kw", p.mask, z=c)
        attempt("combine", p.combine, o, t, m)
        params = ParamsDict()
        for key in rnd.sample(["x", "Y", "z", "X", "F", "e", "y"], rnd.randint(0, 5)):
            params[key] = scalar(0.1)
        attempt("from_params", Point.from_params, params)
        attempt("from_params-dict", Point.from_params, dict(params))
        attempt("from_vector", Point.from_vector, np.array([rnd.random() for _ in range(rnd.randint(2, 5))]))

    # invalid operands for combine / from_params / replace
    p = Point(None, 1.0, None)
    attempt("combine-tuple", p.combine, (1, 2, 3), (1, 2, 4), (5, 6, 7))
    attempt("combine-duck-ok", p.combine, Duck(x=1, y=2, z=3), Duck(x=1, y=2, z=4), Duck(x=5, y=6, z=7))
    attempt("combine-duck-partial", p.combine, Duck(x=1), Duck(x=1), Duck(x=5))
    attempt("combine-duck-partial2", p.combine, Duck(x=1), Duck(x=2), Duck(y=5))
    attempt("combine-duck-partial3", Point(1, 2, 3).combine, None, None, Duck(x=5, y=6))
    attempt("combine-none", p.combine, None, None, None)
    attempt("combine-none-all", Point(1, 2, 3).combine, None, None, None)
    attempt("from_params-none", Point.from_params, None)
    attempt("from_params-list", Point.from_params, [("X", 1)])
    attempt("replace-too-many", p.replace, 1, 2, 3, 4)
    attempt("mask-bad-kw", p.mask, w=1)
    attempt("resolve-unknown", Point.unknown().resolve)
    attempt("resolve-zero", Point.zero().resolve)

    # -- Part B: builder scenarios -------------------------------------

    def snapshot(g, tag):
        emit("S %s pos=%s spos=%s dm=%s em=%s params=%s sparams=%s F=%s" % (
            tag, show(g.position), show(g.state.position),
            g.distance_mode, g.state.extrusion_mode,
            show(dict(g._current_params)), show(dict(g.state._current_params)),
            show(g.state.feed_rate)))

    def make_recording_hook(name):
        def hook(origin, target, params, state):
            emit("H %s o=%s t=%s p=%s em=%s E=%s" % (
                name, show(origin), show(target), show(params),
                state.extrusion_mode, show(state.get_parameter("E"))))
            return params
        return hook

    def make_raising_hook(exc):
        def hook(origin, target, params, state):
            emit("H raising")
            raise exc("boom")
        return hook

    def make_replacing_hook(value):
        def hook(origin, target, params, state):
            emit("H replacing")
            return value() if callable(value) else value
        return hook

    def coord(bad=0.02):
        r = rnd.random()
        if r < bad:
            return rnd.choice(["1", None, float("nan"), float("inf")])
        if r < 0.15:
            return rnd.choice([0, 0.0, -0.0, 1, -2, np.float64(2.5), None])
        return round(rnd.uniform(-30, 30), rnd.randint(0, 5))

    def point_args():
        """Random way of naming a target."""
        r = rnd.random()
        kwargs = {}
        if rnd.random() < 0.3:
            kwargs["F"] = rnd.choice([100, 1200.5, 0, -5, "fast", None, np.float64(300)])
        if rnd.random() < 0.1:
            kwargs["comment"] = rnd.choice(["hello", "", "a;b", None])
        if rnd.random() < 0.1:
            kwargs[rnd.choice(["e", "E", "s", "A", "i"])] = coord()
        if r < 0.35:
            for axis in rnd.sample(["x", "y", "z", "X", "Y", "Z"], rnd.randint(0, 3)):
                kwargs[axis] = coord()
            return (), kwargs
        if r < 0.55:
            return (Point(coord(), coord(), coord()),), kwargs
        if r < 0.7:
            return ([coord() for _ in range(rnd.randint(0, 4))],), kwargs
        if r < 0.8:
            return ((coord(), coord()),), kwargs
        if r < 0.85:
            return (np.array([rnd.uniform(-5, 5) for _ in range(rnd.randint(1, 4))]),), kwargs
        if r < 0.9:
            kwargs["x"] = coord()
            return (Point(coord(), coord(), coord()),), kwargs
        if r < 0.95:
            return (rnd.choice(["abc", 5, None, {"x": 1}, (1, "b", 3)]),), kwargs
        return (), kwargs

    for scenario in range(60):
        emit("=== scenario %d" % scenario)
        cfg = {}
        if rnd.random() < 0.3:
            cfg["decimal_places"] = rnd.randint(0, 8)
        if rnd.random() < 0.2:
            cfg["x_axis"] = "A"
        if rnd.random() < 0.2:
            cfg["line_endings"] = rnd.choice(["\n", "\r\n", "os"])
        cls = GCodeCore if scenario % 6 == 5 else GCodeBuilder
        g = cls(cfg)
        g.add_writer(Recorder())
        is_builder = cls is GCodeBuilder
        hooks = []

        if is_builder and rnd.random() < 0.7:
            h = attempt("mk-extrusion", extrusion_hook,
                rnd.choice([0.2, 0.1, 0.35, 1.0]),
                rnd.choice([0.4, 0.8, 0.25]),
                rnd.choice([1.75, 2.85, 3.0]))
            if h is not None:
                g.add_hook(h)
                hooks.append(h)
        if is_builder and rnd.random() < 0.7:
            h = make_recording_hook("rec%d" % scenario)
            g.add_hook(h)
            hooks.append(h)

        for step in range(rnd.randint(8, 22)):
            r = rnd.random()
            label = "%d.%d" % (scenario, step)
            if r < 0.36:
                name = rnd.choice(["move", "rapid", "move_absolute", "rapid_absolute"])
                args, kwargs = point_args()
                attempt("%s %s %s %s" % (label, name, show(args), show(kwargs)),
                    getattr(g, name), *args, **kwargs)
            elif r < 0.42:
                attempt(label + " distance", g.set_distance_mode,
                    rnd.choice(["absolute", "relative", "bogus"]))
            elif r < 0.48 and is_builder:
                attempt(label + " extrusion", g.set_extrusion_mode,
                    rnd.choice(["absolute", "relative", "bogus"]))
            elif r < 0.55:
                args, kwargs = point_args()
                if rnd.random() < 0.5:
                    args, kwargs = (), {"E": rnd.choice([0, 0.0, 5.5])}
                attempt("%s set_axis %s %s" % (label, show(args), show(kwargs)),
                    g.set_axis, *args, **kwargs)
            elif r < 0.62:
                kind = rnd.choice(["translate", "rotate", "scale", "mirror", "save", "restore"])
                if kind == "translate":
                    attempt(label + " translate", g.transform.translate, coord(0), coord(0), coord(0))
                elif kind == "rotate":
                    attempt(label + " rotate", g.transform.rotate, rnd.choice([90, 45, -30, 12.5]),
                        rnd.choice(["x", "y", "z"]))
                elif kind == "scale":
                    attempt(label + " scale", g.transform.scale, rnd.choice([2, 0.5, -1, 0]))
                elif kind == "mirror":
                    attempt(label + " mirror", g.transform.mirror, rnd.choice(["xy", "yz", "zx"]))
                elif kind == "save":
                    attempt(label + " save", g.transform.save_state)
                else:
                    attempt(label + " restore", g.transform.restore_state)
            elif r < 0.72 and is_builder:
                kind = rnd.choice(["arc", "polyline", "circle", "spline", "arc_radius"])
                kwargs = {}
                if rnd.random() < 0.3:
                    kwargs["F"] = rnd.choice([600, 50.5])
                attempt(label + " resolution", g.set_resolution, rnd.choice([0.5, 1.0, 2.0, 5.0]))
                if kind == "arc":
                    c = round(rnd.uniform(1, 8), 2)
                    attempt(label + " arc", g.trace.arc, (2 * c, 0), (c, 0), **kwargs)
                elif kind == "arc_radius":
                    attempt(label + " arc_radius", g.trace.arc_radius,
                        (coord(0), coord(0)), rnd.choice([20, 40, -35, 0.1]), **kwargs)
                elif kind == "circle":
                    attempt(label + " circle", g.trace.circle, (coord(0), coord(0)), **kwargs)
                elif kind == "spline":
                    pts = [(coord(0), coord(0), coord(0)) for _ in range(rnd.randint(1, 5))]
                    attempt(label + " spline " + show(pts), g.trace.spline, pts, **kwargs)
                else:
                    pts = [[coord() for _ in range(rnd.randint(2, 3))] for _ in range(rnd.randint(0, 5))]
                    attempt(label + " polyline " + show(pts), g.trace.polyline, pts, **kwargs)
            elif r < 0.80 and is_builder:
                kind = rnd.choice(["add", "remove", "with", "with-raise", "with-bad",
                                   "raising", "replacing", "with-dup"])
                if kind == "add":
                    h = make_recording_hook("extra%s" % label)
                    hooks.append(h)
                    attempt(label + " add_hook", g.add_hook, h)
                elif kind == "remove" and hooks:
                    h = hooks.pop(rnd.randrange(len(hooks)))
                    attempt(label + " remove_hook", g.remove_hook, h)
                elif kind == "with":
                    h = make_recording_hook("tmp%s" % label)
                    def body():
                        with g.move_hook(h):
                            emit("n=%d" % len(g._hooks))
                            g.move(x=coord(0), y=coord(0))
                            with g.move_hook(h):
                                emit("n=%d" % len(g._hooks))
                            emit("n=%d" % len(g._hooks))
                            g.move(x=coord(0))
                        return len(g._hooks)
                    attempt(label + " with move_hook", body)
                elif kind == "with-raise":
                    h = make_recording_hook("tmpr%s" % label)
                    def body():
                        with g.move_hook(h):
                            g.move(x=coord(0), y=coord(0))
                            g.move(x="nope")
                    attempt(label + " with move_hook raise", body)
                    emit("n=%d" % len(g._hooks))
                elif kind == "with-bad":
                    def body():
                        with g.move_hook(rnd.choice([None, 5, "hook"])):
                            emit("unreachable?")
                    attempt(label + " with move_hook bad", body)
                    emit("n=%d" % len(g._hooks))
                elif kind == "with-dup" and hooks:
                    h = hooks[0]
                    def body():
                        with g.move_hook(h):
                            emit("n=%d" % len(g._hooks))
                            g.move(y=coord(0))
                    attempt(label + " with move_hook dup", body)
                    emit("n=%d present=%r" % (len(g._hooks), h in g._hooks))
                    if h not in g._hooks:
                        hooks.remove(h)
                elif kind == "raising":
                    h = make_raising_hook(rnd.choice([ValueError, KeyError, RuntimeError]))
                    def body():
                        with g.move_hook(h):
                            g.move(x=coord(0), y=coord(0), z=coord(0))
                    attempt(label + " raising hook", body)
                    emit("n=%d" % len(g._hooks))
                elif kind == "replacing":
                    value = rnd.choice([
                        None, {"F": 10}, lambda: ParamsDict(e=1.5, x=99),
                        lambda: ParamsDict(), 7, lambda: {"x": 1, "X": 2},
                    ])
                    h = make_replacing_hook(value)
                    def body():
                        with g.move_hook(h):
                            g.move(x=coord(0), y=coord(0))
                    attempt(label + " replacing hook", body)
                    emit("n=%d" % len(g._hooks))
            elif r < 0.85 and is_builder:
                lo = Point(-rnd.choice([5, 20, 100]), -20, -20)
                hi = Point(rnd.choice([5, 20, 100]), 20, rnd.choice([20, None]))
                attempt(label + " bounds", g.set_bounds, "axes", lo, hi)
            elif r < 0.9:
                def body():
                    with g.relative_mode() if rnd.random() < 0.5 else g.absolute_mode():
                        g.move(x=coord(0), y=coord(0))
                        g.rapid(z=coord(0))
                attempt(label + " mode-ctx", body)
            elif r < 0.94:
                attempt(label + " to_absolute", g.to_absolute, Point(coord(0), coord(), coord()))
                attempt(label + " to_distance_mode", g.to_distance_mode, (coord(0), coord(0), coord(0)))
            elif r < 0.97 and is_builder:
                attempt(label + " auto_home", g.auto_home, **rnd.choice([{}, {"x": 0}, {"y": 1, "z": 2}]))
            else:
                attempt(label + " set_feed_rate", getattr(g, "set_feed_rate", lambda v: None),
                    rnd.choice([100, 0, -1, 3000.5]))
            if is_builder:
                snapshot(g, label)
            else:
                emit("S %s pos=%s dm=%s params=%s" % (
                    label, show(g.position), g.distance_mode, show(dict(g._current_params))))
        attempt("teardown", g.teardown)

    # -- Part C: _process_move_params / _transform_move directly --------

    g = GCodeBuilder()
    g.add_writer(Recorder())
    for i in range(150):
        args, kwargs = point_args()
        pt = args[0] if args else None
        res = attempt("C%d process %s %s" % (i, show(pt), show(kwargs)),
            g._process_move_params, pt, **kwargs)
        if res is not None:
            emit("  keys=%r type=%s" % (list(res[1].keys()), type(res[1]).__name__))
            if rnd.random() < 0.3:
                attempt("  distance", g.set_distance_mode, rnd.choice(["absolute", "relative"]))
            if rnd.random() < 0.2:
                attempt("  rotate", g.transform.rotate, rnd.choice([30, 90, 180]))
            if rnd.random() < 0.2:
                attempt("  set_axis", g.set_axis, x=coord(0), z=coord(0))
            attempt("  transform_move", g._transform_move, res[0])

    # move_hook generator protocol corner cases
    g = GCodeBuilder()
    h = make_recording_hook("gen")
    cm = g.move_hook(h)
    emit("before-enter n=%d" % len(g._hooks))
    cm.__enter__()
    emit("entered n=%d" % len(g._hooks))
    emit("exit -> %r" % (cm.__exit__(None, None, None),))
    emit("exited n=%d" % len(g._hooks))
    cm = g.move_hook(h)
    cm.__enter__()
    try:
        try:
            raise KeyError("inner")
        except KeyError as exc:
            emit("exit-exc -> %r" % (cm.__exit__(KeyError, exc, exc.__traceback__),))
            emit("ctx=%r cause=%r" % (exc.__context__, exc.__cause__))
    finally:
        emit("after n=%d" % len(g._hooks))
    cm = g.move_hook(h)
    cm.__enter__()
    cm.gen.close()
    emit("closed n=%d" % len(g._hooks))

    sys.stdout.write("\n".join(out) + "\n")


# ---------------------------------------------------------------------
# Parent
# ---------------------------------------------------------------------

def run_tree(tree):
    env = dict(os.environ)
    env["PYTHONPATH"] = tree
    env["EXPECT_TREE"] = tree
    env["PYTHONHASHSEED"] = "0"
    env["PYTHONDONTWRITEBYTECODE"] = "1"
    proc = subprocess.run(
        [sys.executable, os.path.abspath(__file__), "child"],
        env=env, cwd="/tmp/twin4-C20", stdin=subprocess.DEVNULL,
        stdout=subprocess.PIPE, stderr=subprocess.PIPE, timeout=600)
    if proc.returncode != 0:
        sys.stderr.write(proc.stderr.decode(errors="replace"))
        raise SystemExit("child failed for %s" % tree)
    return proc.stdout.decode(errors="replace").splitlines()


def main():
    a, b = (run_tree(tree) for tree in TREES)
    for i, (la, lb) in enumerate(zip(a, b)):
        if la != lb:
            print("MISMATCH at line %d" % i)
            print("  repo:", la)
            print("  new :", lb)
            for ctx in a[max(0, i - 5):i]:
                print("  ctx :", ctx)
            raise SystemExit(1)
    if len(a) != len(b):
        raise SystemExit("transcript lengths differ: %d vs %d" % (len(a), len(b)))
    errors = sum(1 for line in a if " !! " in line)
    writes = sum(1 for line in a if line.startswith("W "))
    hooks = sum(1 for line in a if line.startswith("H "))
    print("IDENTICAL: %d transcript lines (%d emitted statements, %d hook calls, "
          "%d exceptions)" % (len(a), writes, hooks, errors))


if __name__ == "__main__":
    if sys.argv[1:] == ["child"]:
        child()
    else:
        main()
