#!/usr/bin/env python
"""Differential check for the C09 refactoring (twin 2).

Refactored code:
  * gscrib/formatters/default_formatter.py  DefaultFormatter.parameters
  * gscrib/gcode_core.py                    GCodeCore._process_move_params
  * gscrib/gcode_builder.py                 GCodeBuilder._get_statement

The parent process runs this very file twice as a child, once with
PYTHONPATH=/repo and once with PYTHONPATH=/tmp/wtU-C09, and compares the
JSON transcripts the children print. Exit status 0 means identical.
"""

import json
import os
import subprocess
import sys

TREES = {"base": "/repo", "twin": "/tmp/wtU-C09"}
SEED = 90902


# ---------------------------------------------------------------------------
# Child: build a transcript
# ---------------------------------------------------------------------------

def child():
    import random
    from decimal import Decimal
    from fractions import Fraction

    import numpy as np

    import gscrib
    from gscrib import GCodeBuilder, GCodeCore
    from gscrib.enums import (
        HaltMode, PositioningMode, ProbingMode, SpinMode, CoolantMode,
        LengthUnits, Plane, DistanceMode, FeedMode, QueryMode,
    )
    from gscrib.formatters import DefaultFormatter
    from gscrib.geometry import Point
    from gscrib.writers import BaseWriter

    rng = random.Random(SEED)
    out = []
    record = out.append

    class Recorder(BaseWriter):
        def __init__(self):
            self.chunks = []

        def connect(self):
            return self

        def disconnect(self, wait=True):
            pass

        def write(self, statement):
            self.chunks.append(
                statement.hex()
                if isinstance(statement, (bytes, bytearray)) else
                "NOT-BYTES:" + repr(statement)
            )

    class BadStr:
        def __str__(self):
            raise RuntimeError("no str")

        def __repr__(self):
            return "BadStr()"

    class Weird:
        def __repr__(self):
            return "Weird()"

        def __str__(self):
            return "W;\n(G1 X9)"

    def show(value):
        """Stable, detailed rendering of a value."""

        if isinstance(value, Point):
            return "Point(" + ", ".join(show(c) for c in value) + ")"
        if isinstance(value, dict):
            items = ", ".join(
                f"{show(k)}: {show(v)}" for k, v in value.items())
            return f"{type(value).__name__}{{{items}}}"
        if isinstance(value, (tuple, list)):
            inner = ", ".join(show(v) for v in value)
            return f"{type(value).__name__}[{inner}]"
        return f"{type(value).__name__}:{value!r}"

    def attempt(label, func):
        try:
            result = func()
            record([label, "ok", show(result)])
        except BaseException as exc:  # noqa - transcript wants everything
            cause = type(exc.__cause__).__name__ if exc.__cause__ else None
            record([label, "raise", type(exc).__name__, cause])

    # -- input pools --------------------------------------------------------

    texts = [
        "", " ", "\t", "plain", "  padded  ", "G1 X10 Y10", "a\nG1 X99",
        "a\r\nM3 S1000", "a\rM30", "x\x0bM2", "x\x0cM2", "x\x1cM2",
        "x\x85M2", "x M2", "x M2", "close ) G0 Z-5",
        "] } > \" ' */ ;", "(nested (parens))", "; ; ;", "*/ G1 */",
        "ünïcødé ✓ 日本語", "\x00null", "{} {0} %s", "tail\n", "\nhead",
        "\n", "\r\n\r\n", "a" * 300, "0", "False",
    ]

    styles = [
        ";", "(", "[", "{", "<", '"', "'", "/*", "#", "//", " ; ", " ( ",
        "\t/*\n", "%", ";;", "((", "", "   ",
    ]

    numbers = [
        0, 1, -1, 10, 2.5, -0.0, 0.0, 1e-9, 1e-5, 5e-6, 123456.789012345,
        1e21, -1e300, float("nan"), float("inf"), float("-inf"),
        True, False, np.float64(3.25), np.float32(0.1), np.int64(7),
        np.float64("nan"), np.int32(0), Fraction(1, 3), Decimal("1.50"),
        complex(1, 2), 2 ** 70,
    ]

    non_numbers = [
        None, "str", "", "1.5", "A B", "\nG1", [1, 2], (3,), {"a": 1},
        b"bytes", Weird(), BadStr(), object, np.array([1.0, 2.0]),
        np.array(4.0),
    ]

    keys = [
        "x", "X", "y", "Y", "z", "Z", "f", "F", "e", "E", "s", "S", "p",
        "i", "J", "k", "a", "B", "c", "xy", "Xx", "", " ", "ß", "ǆ",
        "comment", "COMMENT", "point", "x ", "é", "f1", "\n",
    ]

    odd_keys = [b"x", b"f", 1, None, (1, 2), 2.5, Weird()]

    def rand_value():
        pool = numbers if rng.random() < 0.7 else non_numbers
        return rng.choice(pool)

    def rand_params(allow_odd=True):
        params = {}
        for _ in range(rng.randint(0, 7)):
            if allow_odd and rng.random() < 0.05:
                key = rng.choice(odd_keys)
            else:
                key = rng.choice(keys)
            params[key] = rand_value()
        return params

    def rand_text():
        if rng.random() < 0.3:
            return "".join(rng.choice(texts) for _ in range(3))
        return rng.choice(texts)

    def rand_comment():
        r = rng.random()
        if r < 0.15:
            return None
        if r < 0.22:
            return rng.choice([5, 0, b"bytes", ["l"], Weird(), False, 1.5])
        return rand_text()

    def rand_point():
        r = rng.random()
        coord = lambda: rng.choice(  # noqa: E731
            [None, 0, 1, -2.5, 10.125, -0.0, 1e-7, float("nan"),
             float("inf"), np.float64(2.0), "3", True])
        if r < 0.35:
            return None
        if r < 0.55:
            return Point(coord(), coord(), coord())
        if r < 0.7:
            return [coord() for _ in range(rng.randint(0, 5))]
        if r < 0.8:
            return tuple(coord() for _ in range(3))
        if r < 0.85:
            return np.array([rng.uniform(-5, 5) for _ in range(rng.randint(1, 4))])
        return rng.choice(
            ["abc", "abcdef", 5, {"x": 1}, b"\x01\x02\x03", range(5),
             [[1, 2], [3], 4], Weird()])

    # -- A. DefaultFormatter.parameters / command --------------------------

    for i in range(400):
        fmt = DefaultFormatter()
        if rng.random() < 0.6:
            attempt(f"A{i}.symbols",
                    lambda: fmt.set_comment_symbols(rng.choice(styles)))
        if rng.random() < 0.4:
            attempt(f"A{i}.places",
                    lambda: fmt.set_decimal_places(rng.choice([0, 1, 3, 8, -1])))
        if rng.random() < 0.4:
            attempt(f"A{i}.label", lambda: fmt.set_axis_label(
                rng.choice(["x", "Y", "z", "w"]),
                rng.choice(["A", "u", " v ", "", "XY", ";", "\n"])))
        params = rand_params()
        record([f"A{i}.in", show(params)])
        attempt(f"A{i}.parameters", lambda: fmt.parameters(params))
        record([f"A{i}.after", show(params)])
        attempt(f"A{i}.command", lambda: fmt.command(
            rng.choice(["G1", "M3", "", "G0 ", "T1"]),
            rng.choice([params, None, {}, [], "X1"]),
            rand_comment()))

    # parameters on dict subclasses / non-dicts
    from gscrib.params import ParamsDict
    fmt = DefaultFormatter()
    for i in range(60):
        params = rand_params(allow_odd=False)
        attempt(f"A2.{i}.paramsdict",
                lambda: fmt.parameters(ParamsDict(params)))
    for j, bad in enumerate([None, [], "X1", 5, (("x", 1),)]):
        attempt(f"A3.{j}", lambda: fmt.parameters(bad))

    # -- B. _process_move_params directly ----------------------------------

    for i in range(300):
        g = GCodeCore() if rng.random() < 0.5 else GCodeBuilder()
        point = rand_point()
        kwargs = {
            k: v for k, v in rand_params(allow_odd=False).items()
            if k != "point"
        }
        if rng.random() < 0.6:
            kwargs["comment"] = rand_comment()
        before = show(kwargs)
        attempt(f"B{i}", lambda: g._process_move_params(point, **kwargs))
        record([f"B{i}.kwargs", before, show(kwargs)])

    # -- C. _get_statement directly ----------------------------------------

    enum_values = [
        HaltMode.PAUSE, HaltMode.END_WITH_RESET, PositioningMode.HOME,
        PositioningMode.OFFSET, ProbingMode.TOWARDS, SpinMode.CLOCKWISE,
        CoolantMode.FLOOD, LengthUnits.INCHES, Plane.XY, QueryMode.POSITION,
        "pause", "nonsense", None, 5, DistanceMode.RELATIVE, FeedMode.INVERSE_TIME,
    ]

    for i in range(300):
        g = GCodeBuilder()
        if rng.random() < 0.7:
            attempt(f"C{i}.symbols", lambda: g.format.set_comment_symbols(
                rng.choice(styles)))
        value = rng.choice(enum_values)
        params = rng.choice([None, {}, rand_params(), rand_params(False)])
        comment = rand_comment()
        record([f"C{i}.in", show(value), show(params), show(comment)])
        r = rng.random()
        if r < 0.3:
            attempt(f"C{i}", lambda: g._get_statement(value))
        elif r < 0.5:
            attempt(f"C{i}", lambda: g._get_statement(value, params))
        else:
            attempt(f"C{i}", lambda: g._get_statement(value, params, comment))

    # -- D. public entry points with a registered writer --------------------

    def snapshot(g, rec):
        snap = {
            "lines": list(rec.chunks),
            "position": show(g.position),
            "params": show(dict(g._current_params)),
            "distance": show(g.distance_mode),
        }
        state = getattr(g, "state", None)
        if state is not None:
            for name in (
                "position", "is_coolant_active", "is_tool_active",
                "tool_number", "tool_power", "feed_rate", "spin_mode",
                "power_mode", "coolant_mode", "distance_mode", "feed_mode",
                "halt_mode", "length_units", "plane",
                "target_hotend_temperature", "target_bed_temperature",
            ):
                snap["state." + name] = show(getattr(state, name))
        return snap

    def move_kwargs():
        kwargs = {}
        for _ in range(rng.randint(0, 4)):
            key = rng.choice(
                ["x", "y", "z", "X", "Z", "F", "f", "e", "E", "s", "a", "i"])
            if rng.random() < 0.85:
                kwargs[key] = rng.choice(
                    [0, 1, -3, 2.5, 10, 100.125, -0.0, 1e-7, 1500])
            else:
                kwargs[key] = rand_value()
        if rng.random() < 0.7:
            kwargs["comment"] = rand_comment()
        return kwargs

    def small_point():
        r = rng.random()
        if r < 0.5:
            return None
        if r < 0.9:
            size = rng.choice([3, 3, 3, 2, 1, 0, 4])
            return [rng.choice([None, 0, 1, -4, 2.5, 7.75])
                    for _ in range(size)]
        return rand_point()

    for i in range(120):
        cls = GCodeBuilder if rng.random() < 0.75 else GCodeCore
        config = {}
        if rng.random() < 0.8:
            config["comment_symbols"] = rng.choice(
                [s for s in styles if s.strip()])
        if rng.random() < 0.3:
            config["line_endings"] = rng.choice(["\\n", "\\r\\n", "os"])
        if rng.random() < 0.3:
            config["decimal_places"] = rng.choice([0, 2, 7])
        if rng.random() < 0.2:
            config["x_axis"] = rng.choice(["A", "u"])
        g = cls(config)
        rec = Recorder()
        g.add_writer(rec)
        if rng.random() < 0.3:
            g.add_writer(Recorder())
        is_builder = cls is GCodeBuilder

        for step in range(rng.randint(4, 14)):
            ops = [
                "move", "rapid", "move_absolute", "rapid_absolute",
                "set_axis", "comment", "annotate", "distance",
            ]
            if is_builder:
                ops += [
                    "auto_home", "probe", "halt", "emergency", "tool_on",
                    "tool_off", "coolant_on", "coolant_off", "units",
                    "feed", "pause", "query", "sleep", "fan", "bed",
                ]
            op = rng.choice(ops)
            tag = f"D{i}.{step}.{op}"

            if op in ("move", "rapid", "move_absolute", "rapid_absolute",
                      "set_axis", "auto_home"):
                point, kwargs = small_point(), move_kwargs()
                record([tag + ".in", show(point), show(kwargs)])
                attempt(tag, lambda: getattr(g, op)(point, **kwargs))
            elif op == "probe":
                mode = rng.choice(
                    ["towards", "away", ProbingMode.TOWARDS, "bogus"])
                point, kwargs = small_point(), move_kwargs()
                record([tag + ".in", show(mode), show(point), show(kwargs)])
                attempt(tag, lambda: g.probe(mode, point, **kwargs))
            elif op == "comment":
                message = rand_text()
                args = [rng.choice([1, 2.5, None, Weird(), rand_text()])
                        for _ in range(rng.choice([0, 0, 1, 3]))]
                record([tag + ".in", show(message), show(args)])
                attempt(tag, lambda: g.comment(message, *args))
            elif op == "annotate":
                key = rng.choice(["tool", "a_b", "1x", "", "k\n", "ü"])
                value = rand_text()
                record([tag + ".in", show(key), show(value)])
                attempt(tag, lambda: g.annotate(key, value))
            elif op == "distance":
                attempt(tag, lambda: g.set_distance_mode(
                    rng.choice(["absolute", "relative", "x"])))
            elif op == "halt":
                mode = rng.choice(list(HaltMode) + ["pause", "bogus"])
                kwargs = rng.choice([
                    {}, {"S": 200}, {"s": 50, "comment": rand_text()},
                    {"P": 1}, {"R": float("nan")}, {"S": "x"},
                    rand_params(allow_odd=False),
                ])
                record([tag + ".in", show(mode), show(kwargs)])
                attempt(tag, lambda: g.halt(mode, **kwargs))
            elif op == "emergency":
                message = rand_comment()
                record([tag + ".in", show(message)])
                attempt(tag, lambda: g.emergency_halt(
                    message, rng.choice([True, False])))
            elif op == "tool_on":
                attempt(tag, lambda: g.tool_on(
                    rng.choice(["cw", "ccw", "clockwise", "off"]),
                    rng.choice([1000, 0, -1, 2.5])))
            elif op == "tool_off":
                attempt(tag, g.tool_off)
            elif op == "coolant_on":
                attempt(tag, lambda: g.coolant_on(
                    rng.choice(["flood", "mist", "off", "x"])))
            elif op == "coolant_off":
                attempt(tag, g.coolant_off)
            elif op == "units":
                attempt(tag, lambda: g.set_length_units(
                    rng.choice(["in", "mm", "inches", "millimeters", "x"])))
            elif op == "feed":
                attempt(tag, lambda: g.set_feed_rate(
                    rng.choice([100, 0, -1, 2.5, float("nan")])))
            elif op == "pause":
                attempt(tag, lambda: g.pause(rng.choice([True, False])))
            elif op == "query":
                attempt(tag, lambda: g.query(
                    rng.choice(["position", "temperature", "x"])))
            elif op == "sleep":
                attempt(tag, lambda: g.sleep(
                    rng.choice([1, 0.5, 0, -1, float("inf")])))
            elif op == "fan":
                attempt(tag, lambda: g.set_fan_speed(
                    rng.choice([0, 128, 255, 300, 1.5]),
                    rng.choice([0, 1, -1])))
            elif op == "bed":
                attempt(tag, lambda: g.set_bed_temperature(
                    rng.choice([60, 0, -500, 1e9, float("nan")])))

            record([tag + ".snap", snapshot(g, rec)])

    # -- E. custom formatter returning unusual values ----------------------

    class OddFormatter(DefaultFormatter):
        def comment(self, text):
            return ["list", text]

        def command(self, command, params=None, comment=None):
            return 42 if params is None else super().command(
                command, params, comment)

    for i in range(20):
        g = GCodeBuilder()
        g.set_formatter(OddFormatter())
        rec = Recorder()
        g.add_writer(rec)
        attempt(f"E{i}.stmt", lambda: g._get_statement(
            rng.choice(enum_values), rng.choice([None, {"s": 1}]),
            rand_comment()))
        attempt(f"E{i}.home", lambda: g.auto_home(comment=rand_comment()))
        record([f"E{i}.lines", list(rec.chunks)])

    record(["version", getattr(gscrib, "__version__", "?")])
    json.dump(out, sys.stdout)


# ---------------------------------------------------------------------------
# Parent: run both trees and compare
# ---------------------------------------------------------------------------

def run_tree(name, path):
    env = dict(os.environ)
    env["PYTHONPATH"] = path
    env["PYTHONHASHSEED"] = "0"
    env["PYTHONDONTWRITEBYTECODE"] = "1"
    proc = subprocess.run(
        [sys.executable, os.path.abspath(__file__), "--child"],
        env=env, cwd="/tmp", stdin=subprocess.DEVNULL,
        stdout=subprocess.PIPE, stderr=subprocess.PIPE, timeout=600,
    )
    if proc.returncode != 0:
        sys.stderr.write(proc.stderr.decode("utf-8", "replace")[-4000:])
        raise SystemExit(f"child for {name} failed ({proc.returncode})")
    transcript = json.loads(proc.stdout.decode("utf-8"))
    where = [e for e in transcript if e[0] == "where"]
    assert where and where[0][1].startswith(path + "/"), (name, where)
    return [e for e in transcript if e[0] != "where"]


def main():
    base = run_tree("base", TREES["base"])
    twin = run_tree("twin", TREES["twin"])

    ok = sum(1 for e in base if len(e) > 1 and e[1] == "ok")
    raised = sum(1 for e in base if len(e) > 1 and e[1] == "raise")
    print(f"entries: base={len(base)} twin={len(twin)} "
          f"(calls ok={ok}, raised={raised})")

    kinds = {}
    for e in base:
        if len(e) > 2 and e[1] == "raise":
            kinds[e[2]] = kinds.get(e[2], 0) + 1
    print("exception kinds:", dict(sorted(kinds.items())))
    lines = sum(len(e[1]["lines"]) for e in base
                if e[0].endswith(".snap"))
    print("cumulative emitted lines seen in snapshots:", lines)

    for index, (a, b) in enumerate(zip(base, twin)):
        if a != b:
            print("MISMATCH at entry", index)
            print(" base:", json.dumps(a)[:2000])
            print(" twin:", json.dumps(b)[:2000])
            raise SystemExit(1)

    assert len(base) == len(twin), "transcripts differ in length"
    assert base == twin
    assert ok > 500 and raised > 100 and lines > 1000, "inputs too weak"
    print("IDENTICAL")


if __name__ == "__main__":
    if "--child" in sys.argv:
        import gscrib as _g
        _where = os.path.abspath(_g.__file__)
        _stdout = sys.stdout
        child_out = []
        # the transcript is a JSON list; prepend the import location
        import io
        buffer = io.StringIO()
        sys.stdout = buffer
        try:
            child()
        finally:
            sys.stdout = _stdout
        data = json.loads(buffer.getvalue())
        data.insert(0, ["where", _where])
        json.dump(data, sys.stdout)
    else:
        main()
