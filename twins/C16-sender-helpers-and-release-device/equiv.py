#!/usr/bin/env python
"""Differential check for the C16 refactoring.

Runs the same seeded driver in two subprocesses, one importing the
unmodified tree (/repo) and one importing the refactored tree
(/tmp/wtU-C16), and asserts that both transcripts are identical.

Everything is driven through an in-process fake of
``gscrib.printrun.device.Device`` -- no real serial port or socket.

Sections of the driver:
  A. PrintrunWriter / SerialWriter / SocketWriter end to end over the
     real vendored printcore (threads and all) and a scripted fake
     device: acknowledgement latency, unsolicited status lines, error
     replies, connection loss, rubbish replies, failed connections,
     invalid statements, reconnects, all flavours of disconnect(wait).
  B. printcore used directly: a gated print (exercises _sendnext and
     the wait-until-clear loop, send() while printing, send_now(),
     resend requests) and the sender thread blocked on `clear`.
  C. printcore.send() as a unit over all online/printing/mainqueue
     combinations.
  D. PrintrunWriter.disconnect() as a unit over stub devices (falsy
     device, raising cancelprint/disconnect, pending operations, stored
     device errors, every spelling of `wait`).
"""

import json
import os
import subprocess
import sys

TREES = {"repo": "/repo", "refactored": "/tmp/wtU-C16"}
SEED = 160216
CHILD_TIMEOUT = 420


# ---------------------------------------------------------------------
# Child: the driver
# ---------------------------------------------------------------------

def child(expected_root):
    import faulthandler
    import logging
    import queue
    import random
    import threading
    import time

    faulthandler.dump_traceback_later(CHILD_TIMEOUT - 30, exit=True)

    import gscrib
    assert os.path.realpath(gscrib.__file__).startswith(
        os.path.realpath(expected_root) + os.sep), gscrib.__file__

    from gscrib.printrun import device as device_mod
    from gscrib.printrun import printcore as printcore_mod
    from gscrib.printrun import gcoder
    from gscrib.printrun.printcore import printcore
    from gscrib.writers import printrun_writer as pw_mod
    from gscrib.writers import PrintrunWriter, SerialWriter, SocketWriter
    from gscrib.enums import DirectWrite
    from gscrib import excepts

    assert device_mod.__file__.startswith(os.path.realpath(expected_root))

    rng = random.Random(SEED)
    transcript = []

    def emit(*items):
        transcript.append(list(items))

    # ---- log capture, one ordered list per thread name --------------

    class Capture(logging.Handler):
        def __init__(self):
            super().__init__(level=logging.DEBUG)
            self.per_thread = {}
            self._lock = threading.Lock()

        def emit(self, record):
            try:
                text = record.getMessage()
            except Exception as e:  # pragma: no cover
                text = "<unformattable %s>" % type(e).__name__
            text = text.split("\n", 1)[0]
            name = record.name.rsplit(".", 1)[-1]
            with self._lock:
                self.per_thread.setdefault(record.threadName, []).append(
                    [name, record.levelname, text])

        def drain(self):
            with self._lock:
                out = {k: v for k, v in sorted(self.per_thread.items())}
                self.per_thread = {}
            return out

    capture = Capture()
    root_logger = logging.getLogger("gscrib")
    root_logger.setLevel(logging.DEBUG)
    root_logger.addHandler(capture)
    root_logger.propagate = False

    # ---- the scripted fake device -----------------------------------

    class Script:
        """What the fake device does; shared by every FakeDevice that
        is created while the script is current (reconnects)."""

        def __init__(self):
            self.events = []          # ordered, causally deterministic
            self.connect_fails = False
            self.never_online = False
            self.greeting = [(0, b"ok\n")]
            self.behaviours = []      # per statement: (replies, dies)
            self.default = ([(0, b"ok\n")], False)
            self.n_statements = 0
            self.gate_closed = False
            self.held = []
            self.lock = threading.Lock()

        def next_behaviour(self):
            i = self.n_statements
            self.n_statements += 1
            if i < len(self.behaviours):
                return self.behaviours[i]
            return self.default

    CURRENT = {"script": None}

    class FakeDevice:
        def __init__(self, *args, **kwargs):
            self.script = CURRENT["script"]
            self.rx = queue.Queue()
            self.connected = False
            self.flow = False
            self.dead = False
            self.handshake = False
            self.m110 = 0
            self.force_dtr = None
            self.script.events.append(["new"])

        def connect(self, port=None, baudrate=None):
            self.script.events.append(["connect", port, baudrate])
            if self.script.connect_fails:
                raise device_mod.DeviceError("fake: connection refused")
            self.flow = ":" in str(port)
            self.connected = True

        def disconnect(self):
            self.script.events.append(["disconnect"])
            self.connected = False

        @property
        def is_connected(self):
            return self.connected

        @property
        def has_flow_control(self):
            return self.flow

        def reset(self):
            self.script.events.append(["reset"])

        def readline(self):
            try:
                latency, data = self.rx.get(timeout=0.05)
            except queue.Empty:
                return b""
            if latency:
                time.sleep(latency)
            return data

        def _deliver(self, replies):
            script = self.script
            with script.lock:
                if script.gate_closed:
                    script.held.append((self, replies))
                    return
            for item in replies:
                self.rx.put(item)

        def write(self, data):
            text = data.decode("utf-8", "backslashreplace")
            self.script.events.append(["write", text])
            if self.dead:
                raise device_mod.DeviceError("fake: peer is gone")
            line = text.rstrip("\n")
            if line == "G4 P0" and not self.handshake:
                self.handshake = True
                if not self.script.never_online:
                    self._deliver(list(self.script.greeting))
                return
            if "M110" in line:
                # printcore resets the line numbers twice per print: in
                # startprint() and again from the print thread when the
                # print ends.  Nothing waits for the reply to the second
                # one, so (in BOTH trees) its "ok" can race with the
                # acknowledgement of the next statement.  The fake only
                # acknowledges the first M110 of each print to keep the
                # transcripts free of that pre-existing timing
                # dependence.
                self.m110 += 1
                if self.m110 % 2 == 1:
                    self._deliver([(0, b"ok\n")])
                return
            replies, dies = self.script.next_behaviour()
            if dies:
                self.dead = True
            self._deliver(list(replies))

    def release_gate(script):
        with script.lock:
            script.gate_closed = False
            held, script.held = script.held, []
        for dev, replies in held:
            for item in replies:
                dev.rx.put(item)

    device_mod.Device = FakeDevice

    # ---- generators --------------------------------------------------

    LATENCIES = [0, 0, 0, 0.001, 0.003, 0.01, 0.03]
    ACKS = [
        b"ok\n", b"ok\n", b"ok\n", b"ok\r\n", b"OK\n", b"Ok \n",
        b"ok T:200.5 /210.0 B:60.1 /60.0\n",
        b"ok X:1.5 Y:-2.25 Z:0\n",
        b"ok C: X:3 Y:4 Z:5 E:0\n",
        b"ok P15 B3\n",
        b"okay F:1200 S:0.5\n",
    ]
    ERRORS = [
        b"error:20\n", b"error: Unsupported command\n", b"ALARM:1\n",
        b"!! Printer halted. kill() called!\n", b"ERROR:9\n",
        b"alarm:hard limit X:1\n", b"!!\n", b"error\n",
    ]
    STATUS = [
        b"<Idle|MPos:1.000,2.000,3.000|FS:500,8000>\n",
        b"<Run|WPos:-1.5,0,2.25,7|FS:100,0|Pn:X>\n",
        b"<Hold|MPos:0.5,0.25|Bf:15,128|FS:bad,1>\n",
        b"echo:busy: processing\n",
        b"X:10.00 Y:20.00 Z:0.30 E:0.00 Count X:800 Y:1600 Z:120\n",
        b"[PRB:1.000,2.000,-3.500:1]\n",
        b"[PRB:9,8,7,6,5,4,3:0]\n",
        b"DEBUG_trace X:99\n",
        b" T:25.1 /0.0 B:24.9 /0.0 @:0 B@:0\n",
        b"\n", b"x\n", b"wait\n", b"FS:1,2\n",
        b"T:1.2.3 Q:--5\n",
        b"caf\xc3\xa9 Z:7\n",
    ]
    PARAMS = ["X", "Y", "Z", "A", "B", "C", "F", "S", "T", "E", "P",
              "Q", "x", "MPos", ""]

    def gen_behaviour(allow_errors=True):
        replies = []
        for _ in range(rng.choice([0, 0, 0, 1, 1, 2, 4])):
            replies.append((rng.choice(LATENCIES), rng.choice(STATUS)))
        if allow_errors and rng.random() < 0.2:
            replies.append((rng.choice(LATENCIES), rng.choice(ERRORS)))
        else:
            replies.append((rng.choice(LATENCIES), rng.choice(ACKS)))
        return (replies, False)

    def gen_loss():
        replies = []
        for _ in range(rng.choice([0, 1, 2])):
            replies.append((rng.choice(LATENCIES), rng.choice(STATUS)))
        if rng.random() < 0.5:
            replies.append((rng.choice(LATENCIES), None))      # EOF
        else:
            replies.append((rng.choice(LATENCIES), b"\xff\xfe\x80 \n"))
        return (replies, True)

    def gen_statement():
        r = rng.random()
        if r < 0.6:
            axes = rng.sample("XYZEF", rng.randint(1, 3))
            words = " ".join("%s%s" % (a, rng.choice(
                ["0", "-0.0", "1.5", "100", "-12.125", "1e3", ".5"]))
                for a in axes)
            line = "G%d %s" % (rng.choice([0, 1, 2, 3, 92]), words)
            line += rng.choice(["\n", "\n", "\r\n", "", "  \n", "\n\n"])
            return line.encode("utf-8")
        if r < 0.85:
            return rng.choice([
                b"M105\n", b"M114\n", b"?\n", b"$H\n", b"G4 P0\n",
                b"M110 N0\n", b";@pause\n", b"; only a comment\n",
                b"G1 X1 ; trailing comment\n", b"(paren) G1 X2\n",
                b"M117 caf\xc3\xa9 \xe2\x82\xac\n", b"G1 X1\nG1 Y2\n",
                b"   G28   \n", b"N5 G1 X1*99\n", b"T0\n",
                b"\tM3 S1000\t\n",
            ])
        return rng.choice([
            b"", b"\n", b"   \n", "G1 X1\n", None, 42, 1.5,
            b"\xff\xfe\n", b"G1 X\xc3\n", bytearray(b"G1 X9\n"),
            memoryview(b"G1 X8\n"), [b"G1"], ("G1",),
        ])

    def show(value):
        if isinstance(value, (bytes, bytearray)):
            return [type(value).__name__,
                    bytes(value).decode("latin-1")]
        if isinstance(value, memoryview):
            return ["memoryview", bytes(value).decode("latin-1")]
        return [type(value).__name__, repr(value)]

    def outcome(fn, *args, **kwargs):
        try:
            result = fn(*args, **kwargs)
        except BaseException as e:  # noqa
            cause = e.__cause__
            return ["raised", type(e).__name__, str(e),
                    type(cause).__name__ if cause is not None else None]
        if result is None or isinstance(result, (bool, int, float, str)):
            return ["returned", type(result).__name__, repr(result)]
        return ["returned", type(result).__name__]

    def writer_state(writer):
        inner = getattr(writer, "_writer_delegate", writer)
        dev = inner._device
        if dev is not None and dev.printer is not None:
            # connect() may return while the (empty) print thread is
            # still winding down; let it finish so that the snapshot
            # does not depend on timing.
            deadline = time.monotonic() + 5
            while (dev.print_thread is not None or dev.send_thread is None
                   or dev.printing) and time.monotonic() < deadline:
                time.sleep(0.002)
        return {
            "is_connected": repr(writer.is_connected),
            "is_printing": repr(writer.is_printing),
            "pending": repr(inner.has_pending_operations),
            "has_device": dev is not None,
            "device_error": repr(inner._device_error),
            "shutdown": inner._shutdown_requested,
            "online_event": inner._online_event.is_set(),
            "ack_event": inner._ack_event.is_set(),
            "timeout": inner._timeout,
            "params": [[k, repr(writer.get_parameter(k))]
                       for k in PARAMS],
            "core": None if dev is None else {
                "online": dev.online, "printing": dev.printing,
                "clear": repr(dev.clear), "paused": dev.paused,
                "queue_empty": dev.priqueue.empty(),
                "lineno": dev.lineno, "resendfrom": dev.resendfrom,
                "writefailures": dev.writefailures,
                "sent": list(dev.sent),
                "send_line_numbers": dev._send_line_numbers,
                "mainqueue": None if dev.mainqueue is None
                else len(dev.mainqueue),
                "threads": [dev.read_thread is not None,
                            dev.send_thread is not None,
                            dev.print_thread is not None],
            },
        }

    def settle():
        """Let the read/send threads log their last records."""
        time.sleep(0.03)

    # ---- section A: writers end to end ---------------------------------

    GREETINGS = [
        [(0, b"ok\n")],
        [(0.01, b"start\n")],
        [(0, b"ok T:21.5 /0.0 B:50.0 /0.0\n")],
        [(0, b"echo: booting X:5\n"), (0.005, b"\n"), (0, b"ok\n")],
        [(0, b"<Idle|MPos:4,5,6|FS:0,0>\n"), (0.002, b"start\n")],
        [(0.02, b" T:20.0 /0.0\n")],
    ]

    def make_writer(kind):
        if kind == "printrun-serial":
            return PrintrunWriter(DirectWrite.SERIAL, "none",
                                  "/dev/fake0", 115200)
        if kind == "printrun-socket":
            return PrintrunWriter("socket", "fakehost", "8023", 0)
        if kind == "serial":
            return SerialWriter("/dev/fake1", 250000)
        return SocketWriter("fakehost", 8888)

    def scenario_writer(index):
        script = Script()
        CURRENT["script"] = script
        kind = rng.choice(["printrun-serial", "printrun-serial",
                           "printrun-socket", "serial", "socket"])
        script.greeting = rng.choice(GREETINGS)
        n = rng.randint(6, 14)
        statements = [gen_statement() for _ in range(n)]
        script.behaviours = [gen_behaviour() for _ in range(n + 6)]
        flavour = rng.choice(["plain", "plain", "loss", "loss",
                              "refused", "mute", "reconnect", "context"])
        if flavour == "loss":
            script.behaviours[rng.randrange(0, n)] = gen_loss()
        script.connect_fails = flavour == "refused"
        script.never_online = flavour == "mute"
        wait = rng.choice([True, True, False, 1, 0, None, "yes", 1.0])

        emit("A", index, "setup", kind, flavour, repr(wait),
             [show(s) for s in statements])
        writer = make_writer(kind)
        if flavour in ("refused", "mute"):
            emit("A", index, "set_timeout",
                 outcome(writer.set_timeout, 0.25))
            statements = statements[:2]
        if rng.random() < 0.3:
            emit("A", index, "connect", outcome(writer.connect))
            emit("A", index, "connect-again", outcome(writer.connect))

        def run(statements):
            for k, statement in enumerate(statements):
                before = len(script.events)
                result = outcome(writer.write, statement)
                # What the device had received when write() returned
                seen = [e for e in script.events[before:]]
                emit("A", index, "write", k, result, seen,
                     writer_state(writer))

        if flavour == "context":
            def body():
                with writer as w:
                    emit("A", index, "enter", w is writer,
                         writer_state(writer))
                    run(statements)
                    if rng.random() < 0.3:
                        raise KeyError("boom")
            emit("A", index, "with", outcome(body))
        else:
            run(statements)
            if flavour == "reconnect":
                emit("A", index, "disconnect-mid",
                     outcome(writer.disconnect, False),
                     writer_state(writer))
                run([gen_statement() for _ in range(3)])
            emit("A", index, "disconnect",
                 outcome(writer.disconnect, wait), writer_state(writer))
            emit("A", index, "disconnect-again",
                 outcome(writer.disconnect), writer_state(writer))
        settle()
        emit("A", index, "events", list(script.events))
        emit("A", index, "logs", capture.drain())

    # ---- section B: printcore directly -----------------------------------

    def wait_for(predicate, what, limit=20.0):
        deadline = time.monotonic() + limit
        while not predicate():
            if time.monotonic() > deadline:
                raise AssertionError("timed out waiting for " + what)
            time.sleep(0.002)

    def core_state(core):
        return {
            "online": core.online, "printing": core.printing,
            "paused": core.paused, "clear": repr(core.clear),
            "queue_empty": core.priqueue.empty(),
            "queueindex": core.queueindex, "lineno": core.lineno,
            "resendfrom": core.resendfrom, "sent": list(core.sent),
            "sentlines": sorted(core.sentlines.items()),
            "writefailures": core.writefailures,
            "mainqueue": None if core.mainqueue is None
            else [l.raw for l in core.mainqueue.lines],
        }

    def scenario_print(index):
        script = Script()
        CURRENT["script"] = script
        socket_mode = rng.random() < 0.35
        n_lines = rng.randint(3, 8)
        lines = []
        for i in range(n_lines):
            lines.append(rng.choice([
                "G1 X%d Y%d" % (i, -i), "G1 Z%d ; lift" % i, "; note",
                "", "M105", "G1 X%d (c)" % i, "G92 E0",
            ]))
        lines[0] = "G28"
        script.behaviours = []
        resend_at = rng.choice([None, None, 2, 3])
        for i in range(60):
            if resend_at is not None and i == resend_at and not socket_mode:
                script.behaviours.append(
                    ([(0, rng.choice([b"Resend: 1\n", b"rs N1 bad\n",
                                      b"resend:N:1\n"]))], False))
                resend_at = None
            else:
                script.behaviours.append(
                    ([(rng.choice(LATENCIES),
                       rng.choice([b"ok\n", b"ok T:1 /2\n",
                                   b"ok\r\n"]))], False))
        callbacks = []
        lock = threading.Lock()

        def note(name):
            def cb(*args):
                with lock:
                    callbacks.append(
                        [threading.current_thread().name, name] +
                        [a.split("\n", 1)[0] if isinstance(a, str)
                         else a if isinstance(a, (int, bool))
                         else type(a).__name__ for a in args])
            return cb

        core = printcore()
        core.loud = True
        for name in ("recvcb", "sendcb", "errorcb", "startcb", "endcb",
                     "onlinecb", "tempcb", "printsendcb",
                     "layerchangecb"):
            setattr(core, name, note(name))
        emit("B", index, "setup", socket_mode, lines)
        emit("B", index, "send-offline", outcome(core.send, "M1"),
             outcome(core.send_now, "M2"))
        port = "fakehost:23" if socket_mode else "/dev/fakeB"
        emit("B", index, "connect",
             outcome(core.connect, port, 0 if socket_mode else 115200))
        wait_for(lambda: core.online, "online")
        with script.lock:
            script.gate_closed = True
        emit("B", index, "startprint",
             outcome(core.startprint, gcoder.GCode(lines)))
        emit("B", index, "startprint-again",
             outcome(core.startprint, gcoder.GCode(["G1"])))
        # The gate is closed: the print cannot advance past its first
        # line, so `printing` is deterministically True here.
        extra = [rng.choice(["M114", "G1 X99 ; late", "M400", "G4 P1"])
                 for _ in range(rng.randint(1, 3))]
        for command in extra:
            emit("B", index, "send", command, outcome(core.send, command))
        emit("B", index, "send_now", outcome(core.send_now, "M999"))
        time.sleep(0.05)
        emit("B", index, "gated", core.printing,
             [e for e in script.events if e[0] == "write"])
        release_gate(script)
        wait_for(lambda: not core.printing and core.print_thread is None
                 and core.send_thread is not None, "end of print")
        settle()
        emit("B", index, "after-print", core_state(core))
        before = len(script.events)
        emit("B", index, "send-idle", outcome(core.send, "M18"))
        wait_for(lambda: len(script.events) > before, "idle send")
        wait_for(lambda: core.priqueue.empty(), "queue drained")
        settle()
        emit("B", index, "disconnect", outcome(core.disconnect),
             core_state(core))
        emit("B", index, "events", list(script.events))
        per_thread = {}
        for item in callbacks:
            per_thread.setdefault(item[0], []).append(item[1:])
        emit("B", index, "callbacks", sorted(per_thread.items()))
        emit("B", index, "logs", capture.drain())

    def scenario_sender_blocked(index):
        """The sender thread must hold a command back while a print is
        running and the printer is not clear to send."""
        script = Script()
        CURRENT["script"] = script
        printing = rng.choice([True, True, False, 1])
        clear = rng.choice([False, False, 0, True])
        has_printer = rng.choice([True, True, True, False])
        core = printcore()
        dev = FakeDevice()
        dev.connect("/dev/fakeS", 9600)
        core.printer = dev if has_printer else None
        core.printing = printing
        core.clear = clear
        blocked = bool(has_printer and printing and not clear)
        thread = threading.Thread(target=core._sender, name="send thread")
        thread.start()
        core.priqueue.put_nowait("M%d" % index)
        time.sleep(0.3)
        writes_early = [e for e in script.events if e[0] == "write"]
        core.clear = True
        if has_printer:
            wait_for(lambda: any(e[0] == "write" for e in script.events),
                     "sender write")
        else:
            wait_for(lambda: core.priqueue.empty(), "sender consumed")
        time.sleep(0.02)
        core.stop_send_thread = True
        thread.join(5)
        emit("B2", index, repr(printing), repr(clear), has_printer,
             blocked, writes_early, list(script.events),
             thread.is_alive(), list(core.sent), capture.drain())
        assert (writes_early == []) == (blocked or not has_printer)

    # ---- section C: printcore.send() as a unit ---------------------------

    class ListQueue(list):
        pass

    def scenario_send_unit(index):
        CURRENT["script"] = Script()
        core = printcore()
        errors = []
        if rng.random() < 0.7:
            core.errorcb = errors.append
        core.online = rng.choice([True, False, 0, 1, None, "yes", ""])
        core.printing = rng.choice([True, False, 0, 1, None, "p"])
        core.mainqueue = rng.choice([None, ListQueue(), ListQueue(["a"])])
        command = rng.choice(["M105", "", None, 7, "G1 X1\n", b"G1"])
        result = outcome(core.send, command, rng.choice([0, 1, None]))
        drained = []
        while not core.priqueue.empty():
            drained.append(show(core.priqueue.get_nowait()))
        emit("C", index, repr(core.online), repr(core.printing),
             show(command), result,
             None if core.mainqueue is None
             else [show(x) for x in core.mainqueue],
             drained, errors, capture.drain())

    # ---- section D: PrintrunWriter.disconnect() as a unit ----------------

    class Boom(Exception):
        pass

    class StubQueue:
        def __init__(self, stub):
            self.stub = stub

        def empty(self):
            self.stub.calls.append("empty")
            return self.stub.queue_empty

    class StubDevice:
        def __init__(self):
            self.calls = []
            self.truthy = True
            self.online = True
            self.printing_values = [False]
            self.clear = True
            self.queue_empty = True
            self.priqueue = StubQueue(self)
            self.cancel_raises = None
            self.disconnect_raises = None

        def __bool__(self):
            self.calls.append("bool")
            return self.truthy

        @property
        def printing(self):
            self.calls.append("printing")
            if len(self.printing_values) > 1:
                return self.printing_values.pop(0)
            return self.printing_values[0]

        def cancelprint(self):
            self.calls.append("cancelprint")
            if self.cancel_raises:
                raise self.cancel_raises

        def disconnect(self):
            self.calls.append("disconnect")
            if self.disconnect_raises:
                raise self.disconnect_raises

    def scenario_disconnect_unit(index):
        CURRENT["script"] = Script()
        writer = PrintrunWriter(rng.choice(["serial", "socket"]),
                                "h", "p", 0)
        pw_mod_interval = pw_mod.POLLING_INTERVAL
        stub = StubDevice()
        stub.truthy = rng.random() < 0.85
        stub.online = rng.choice([True, True, True, False, 1, 0])
        stub.printing_values = rng.choice(
            [[False], [False], [True, False], [True, True, False], [1, 0]])
        stub.clear = rng.choice([True, True, False, 1])
        stub.queue_empty = rng.choice([True, True, False])
        if stub.clear in (False,) or not stub.queue_empty:
            # would wait forever unless an error aborts the wait
            writer._device_error = rng.choice([
                excepts.DeviceError("stored"), Boom("stored boom"),
                excepts.DeviceTimeoutError("late")])
        elif rng.random() < 0.2:
            writer._device_error = excepts.DeviceError("unused")
        if rng.random() < 0.2:
            stub.cancel_raises = rng.choice([Boom("cancel"),
                                             ValueError("cancel")])
        if rng.random() < 0.2:
            stub.disconnect_raises = rng.choice([Boom("disc"),
                                                 OSError("disc")])
        if rng.random() < 0.15:
            writer._shutdown_requested = True
        no_device = rng.random() < 0.1
        writer._device = None if no_device else stub
        if rng.random() < 0.5:
            writer._online_event.set()
        waits = [True, False, 1, 0, None, "yes", "", 1.0, 2, [], object]
        try:
            import numpy
            waits += [numpy.True_, numpy.False_, numpy.int64(1),
                      numpy.float64(1.0)]
        except ImportError:  # pragma: no cover
            pass
        wait = rng.choice(waits)
        use_default = rng.random() < 0.2
        pw_mod.POLLING_INTERVAL = 0.001
        try:
            if use_default:
                result = outcome(writer.disconnect)
            else:
                result = outcome(writer.disconnect, wait)
        finally:
            pw_mod.POLLING_INTERVAL = pw_mod_interval
        emit("D", index, "default" if use_default else
             (wait.__name__ if isinstance(wait, type) else repr(wait)),
             no_device, stub.truthy, result, list(stub.calls),
             writer._device is None, writer._device is stub,
             repr(writer._device_error),
             writer._online_event.is_set(), writer._ack_event.is_set(),
             capture.drain())
        # a second call must behave the same in both trees as well
        stub.calls.clear()
        emit("D", index, "again", outcome(writer.disconnect, False),
             list(stub.calls), writer._device is None, capture.drain())

    # ---- run ---------------------------------------------------------------

    for i in range(34):
        scenario_writer(i)
    for i in range(8):
        scenario_print(i)
    for i in range(8):
        scenario_sender_blocked(i)
    for i in range(150):
        scenario_send_unit(i)
    for i in range(200):
        scenario_disconnect_unit(i)

    faulthandler.cancel_dump_traceback_later()
    alive = sorted(t.name for t in threading.enumerate()
                   if t is not threading.current_thread())
    emit("threads-left", alive)
    sys.stdout.write(json.dumps(transcript, sort_keys=True, default=repr))
    sys.stdout.flush()
    os._exit(0)


# ---------------------------------------------------------------------
# Parent: run both trees and compare
# ---------------------------------------------------------------------

def run_tree(name, root):
    env = dict(os.environ)
    env["PYTHONPATH"] = root
    env["PYTHONHASHSEED"] = "0"
    env["PYTHONDONTWRITEBYTECODE"] = "1"
    return subprocess.Popen(
        [sys.executable, os.path.abspath(__file__), "--child", root],
        env=env, cwd="/tmp", stdin=subprocess.DEVNULL,
        stdout=subprocess.PIPE, stderr=subprocess.PIPE)


def first_difference(a, b):
    for i, (x, y) in enumerate(zip(a, b)):
        if x != y:
            return i, x, y
    return min(len(a), len(b)), None, None


def main():
    # each tree twice: the second run of a tree also shows that the
    # transcript is deterministic (no timing dependence)
    jobs = [("repo", "/repo"), ("refactored", TREES["refactored"]),
            ("repo#2", "/repo"), ("refactored#2", TREES["refactored"])]
    procs = [(name, run_tree(name, root)) for name, root in jobs]
    results = {}
    for name, proc in procs:
        try:
            out, err = proc.communicate(timeout=CHILD_TIMEOUT)
        except subprocess.TimeoutExpired:
            proc.kill()
            out, err = proc.communicate()
            print(err.decode()[-4000:])
            raise SystemExit("%s: child timed out" % name)
        if proc.returncode != 0:
            print(err.decode()[-6000:])
            raise SystemExit("%s: child failed (%s)" % (name,
                                                        proc.returncode))
        results[name] = json.loads(out.decode())

    reference = results["repo"]
    counts = {}
    for row in reference:
        counts[row[0]] = counts.get(row[0], 0) + 1
    writes = [r for r in reference if r[0] == "A" and r[2] == "write"]
    raised = [r for r in writes if r[4][0] == "raised"]
    kinds = sorted({r[4][1] for r in raised})
    print("transcript rows per section:", counts)
    print("writer statements driven: %d (raised: %d, kinds: %s)"
          % (len(writes), len(raised), kinds))
    assert len(writes) >= 200 and len(raised) >= 20
    assert "DeviceError" in kinds and "DeviceWriteError" in kinds
    assert "DeviceConnectionError" in kinds

    failed = False
    for name in ("refactored", "repo#2", "refactored#2"):
        other = results[name]
        if other != reference:
            failed = True
            i, x, y = first_difference(reference, other)
            print("MISMATCH repo vs %s at row %d" % (name, i))
            print("  repo: %s" % json.dumps(x)[:3000])
            print("  %s: %s" % (name, json.dumps(y)[:3000]))
    if failed:
        raise SystemExit(1)
    print("OK: transcripts identical (%d rows; repo x2, refactored x2)"
          % len(reference))


if __name__ == "__main__":
    if len(sys.argv) >= 3 and sys.argv[1] == "--child":
        child(sys.argv[2])
    else:
        main()
