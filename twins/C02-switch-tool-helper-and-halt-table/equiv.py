#!/usr/bin/env python
"""Differential equivalence check for the C02 refactoring.

Runs the same seeded call histories against the pristine tree (/repo)
and the refactored tree (/tmp/wtT-C02), each in its own subprocess, and
asserts that the recorded transcripts are byte for byte identical.

Refactored code under test:
  gscrib/gcode_state.py    GState._set_spin_mode / _set_power_mode /
                           _set_coolant_mode (+ new private _switch_tool)
  gscrib/gcode_builder.py  GCodeBuilder.halt
"""

import hashlib
import json
import os
import subprocess
import sys

TREES = {"orig": "/repo", "twin": "/tmp/wtT-C02"}
SEEDS = list(range(40))
STEPS = 60


# --------------------------------------------------------------------------
# Child: drive one tree and print a transcript
# --------------------------------------------------------------------------

def child() -> None:
    import math
    import random

    import numpy as np
    import gscrib
    from gscrib import GCodeBuilder
    from gscrib.writers import BaseWriter
    from gscrib.enums import (
        SpinMode, PowerMode, CoolantMode, HaltMode, ToolSwapMode,
        DistanceMode, TimeUnits,
    )
    from gscrib.gcode_state import GState

    expected_root = os.environ["EQUIV_EXPECT_ROOT"]
    assert os.path.realpath(gscrib.__file__).startswith(
        os.path.realpath(expected_root) + os.sep), gscrib.__file__

    class RecordingWriter(BaseWriter):
        """In-process fake device: records every byte it is given."""

        def __init__(self, log):
            self.log = log

        def connect(self):
            return self

        def disconnect(self, wait=True):
            self.log.append(["disconnect", bool(wait)])

        def write(self, statement):
            self.log.append(["emit", repr(statement)])

        def flush(self):
            pass

    STATE_PROPS = [
        "is_tool_active", "is_coolant_active", "tool_number", "tool_power",
        "feed_rate", "spin_mode", "power_mode", "coolant_mode",
        "tool_swap_mode", "halt_mode", "distance_mode", "time_units",
        "target_hotend_temperature", "target_bed_temperature",
        "target_chamber_temperature", "position",
    ]

    def snap(state):
        return [repr(getattr(state, name)) for name in STATE_PROPS]

    def rec(log, state, label, fn):
        try:
            out = ["ret", repr(fn())]
        except BaseException as exc:  # noqa: BLE001 - record everything
            out = ["exc", type(exc).__name__, str(exc)[:200]]
        log.append(["call", label, out, snap(state)])

    nan, inf = float("nan"), float("inf")

    LEVELS = [
        0, 0.0, -0.0, 1, 1.5, 100, 1000.0, 24000, -1, -0.5, -1e-9, 1e-9,
        nan, inf, -inf, True, False, None, "100", "", [1], (2,),
        np.float64(50.0), np.float32(2.5), np.int64(7), np.float64(-3.0),
        np.float64("nan"), 10 ** 30, 1e308, complex(1, 0),
    ]
    TEMPS = [
        0, 0.0, -0.0, 20, 60.5, 200, 250.0, 300, 1000, -5, -273.15,
        nan, inf, -inf, None, "200", True, np.float64(210.0),
        np.int64(55), [200], 1e308,
    ]
    TOOLS = [
        0, 1, 2, 3, 7, 9, 10, 16, 99, 100, 12345, -1, -7, 1.0, 2.5, True,
        False, None, "1", np.int64(4), nan, 10 ** 12,
    ]
    SPIN = list(SpinMode) + ["cw", "ccw", "off", "bogus", "", None, 3,
        PowerMode.CONSTANT, CoolantMode.FLOOD]
    POWER = list(PowerMode) + ["constant", "dynamic", "off", "bogus", None,
        SpinMode.CLOCKWISE, 0]
    COOLANT = list(CoolantMode) + ["flood", "mist", "off", "bogus", None, 1,
        SpinMode.OFF]
    HALT = list(HaltMode) + [m.value for m in HaltMode] + [
        "bogus", "", None, 0, SpinMode.OFF, CoolantMode.OFF]
    SWAP = list(ToolSwapMode) + [m.value for m in ToolSwapMode] + [
        "bogus", None, 6]
    BOUNDS = [
        ("tool-power", 0, 1000), ("tool-power", 10, 100),
        ("tool-power", -5, 5), ("tool-number", 1, 9),
        ("tool-number", 2, 100), ("bed-temperature", 0, 120),
        ("hotend-temperature", 0, 260), ("chamber-temperature", 10, 80),
        ("bed-temperature", 50, 50), ("feed-rate", 1, 5000),
        ("tool-power", 5, 1), ("bogus", 0, 1), ("tool-power", None, 3),
        ("hotend-temperature", "a", "b"),
    ]
    HALT_KEYS = ["S", "R", "s", "r", "P", "T", "x", "comment"]

    def run(seed):
        rng = random.Random(seed)
        log = []
        g = GCodeBuilder()
        for writer in list(getattr(g, "_writers", [])):
            g.remove_writer(writer)
        g.add_writer(RecordingWriter(log))
        st = g.state
        pick = rng.choice

        def halt_kwargs():
            count = rng.choice([0, 0, 1, 1, 2, 3])
            return {pick(HALT_KEYS): pick(TEMPS) for _ in range(count)}

        def op_tool_on():
            m, v = pick(SPIN), pick(LEVELS)
            return f"tool_on({m!r},{v!r})", lambda: g.tool_on(m, v)

        def op_power_on():
            m, v = pick(POWER), pick(LEVELS)
            return f"power_on({m!r},{v!r})", lambda: g.power_on(m, v)

        def op_coolant_on():
            m = pick(COOLANT)
            return f"coolant_on({m!r})", lambda: g.coolant_on(m)

        def op_tool_change():
            m, n = pick(SWAP), pick(TOOLS)
            return f"tool_change({m!r},{n!r})", lambda: g.tool_change(m, n)

        def op_halt():
            m, kw = pick(HALT), halt_kwargs()
            return f"halt({m!r},{kw!r})", lambda: g.halt(m, **kw)

        def op_halt_temp():
            m = pick([HaltMode.WAIT_FOR_BED, HaltMode.WAIT_FOR_HOTEND,
                HaltMode.WAIT_FOR_CHAMBER, "wait-for-bed"])
            kw = {pick(["S", "R", "s", "r"]): pick(TEMPS)
                for _ in range(rng.choice([1, 2, 2]))}
            return f"halt({m!r},{kw!r})", lambda: g.halt(m, **kw)

        def op_pause():
            o = pick([True, False, None, 1, 0, "yes"])
            return f"pause({o!r})", lambda: g.pause(o)

        def op_stop():
            o = pick([True, False, None, 1, 0, "yes"])
            return f"stop({o!r})", lambda: g.stop(o)

        def op_emergency():
            msg = pick(["boom", "", "a;b", None, 3])
            r = pick([True, False, 0, 1, None])
            return (f"emergency_halt({msg!r},{r!r})",
                lambda: g.emergency_halt(msg, r))

        def op_move():
            kw = {}
            for axis in "xyz":
                if rng.random() < 0.5:
                    kw[axis] = round(rng.uniform(-50, 50), 3)
            if rng.random() < 0.3:
                kw["F"] = pick([100, 1500.0, -1, 0, nan])
            rapid = rng.random() < 0.4
            fn = g.rapid if rapid else g.move
            return f"{'rapid' if rapid else 'move'}({kw!r})", lambda: fn(**kw)

        def op_mode():
            kind = rng.randrange(3)
            if kind == 0:
                m = pick(list(DistanceMode))
                return f"set_distance_mode({m!r})", (
                    lambda: g.set_distance_mode(m))
            if kind == 1:
                m = pick(list(TimeUnits))
                return f"set_time_units({m!r})", lambda: g.set_time_units(m)
            d = pick([0, 0.5, 2, -1, nan, None])
            return f"sleep({d!r})", lambda: g.sleep(d)

        def op_temp():
            which = pick(["set_bed_temperature", "set_hotend_temperature",
                "set_chamber_temperature"])
            t = pick(TEMPS)
            return f"{which}({t!r})", lambda: getattr(g, which)(t)

        def op_bounds():
            b = pick(BOUNDS)
            return f"set_bounds{b!r}", lambda: g.set_bounds(*b)

        def op_raw_write():
            s = pick(["M3 S100", "G4 P1", "; note"])
            return f"write({s!r})", lambda: g.write(s)

        def op_state_direct():
            # the private setters themselves, with raw arguments
            kind = rng.randrange(4)
            if kind == 0:
                m, v = pick(SPIN), pick(LEVELS)
                if rng.random() < 0.3:
                    return (f"st._set_spin_mode({m!r})",
                        lambda: st._set_spin_mode(m))
                return (f"st._set_spin_mode({m!r},{v!r})",
                    lambda: st._set_spin_mode(m, v))
            if kind == 1:
                m, v = pick(POWER), pick(LEVELS)
                if rng.random() < 0.3:
                    return (f"st._set_power_mode({m!r})",
                        lambda: st._set_power_mode(m))
                return (f"st._set_power_mode({m!r},{v!r})",
                    lambda: st._set_power_mode(m, v))
            if kind == 2:
                m = pick(COOLANT)
                return (f"st._set_coolant_mode({m!r})",
                    lambda: st._set_coolant_mode(m))
            m = pick(HALT)
            return f"st._set_halt_mode({m!r})", lambda: st._set_halt_mode(m)

        simple = {
            "tool_off": lambda: g.tool_off(),
            "power_off": lambda: g.power_off(),
            "coolant_off": lambda: g.coolant_off(),
            "wait": lambda: g.wait(),
        }

        weighted = (
            [op_tool_on] * 5 + [op_power_on] * 5 + [op_coolant_on] * 4 +
            [op_tool_change] * 4 + [op_halt] * 6 + [op_halt_temp] * 5 +
            [op_pause, op_stop, op_emergency, op_move, op_move, op_mode,
             op_temp, op_bounds, op_raw_write] +
            [op_state_direct] * 4 +
            ["tool_off"] * 3 + ["power_off"] * 3 + ["coolant_off"] * 3 +
            ["wait"] * 2
        )

        rec(log, st, "initial", lambda: None)

        for _ in range(STEPS):
            op = pick(weighted)
            if isinstance(op, str):
                label, fn = op + "()", simple[op]
            else:
                label, fn = op()
            rec(log, st, label, fn)

        rec(log, st, "teardown", lambda: g.teardown())
        return log

    def exhaustive():
        """Small exhaustive product from each (tool, coolant) state."""

        log = []

        def fresh(tool, coolant):
            g = GCodeBuilder()
            for writer in list(getattr(g, "_writers", [])):
                g.remove_writer(writer)
            g.add_writer(RecordingWriter(log))
            if tool == "spin":
                g.tool_on(SpinMode.CLOCKWISE, 100)
            elif tool == "power":
                g.power_on(PowerMode.CONSTANT, 50)
            if coolant:
                g.coolant_on(CoolantMode.FLOOD)
            return g

        temps = [None, 60, 500.0, -1, "x", nan]
        for tool in (None, "spin", "power"):
            for coolant in (False, True):
                for bounded in (False, True):
                    calls = []
                    for m in list(SpinMode) + ["bogus"]:
                        for v in (0, -1, 500, 5000, nan, "1", None):
                            calls.append((f"tool_on({m!r},{v!r})",
                                lambda g, m=m, v=v: g.tool_on(m, v)))
                            calls.append((f"_set_spin_mode({m!r},{v!r})",
                                lambda g, m=m, v=v:
                                    g.state._set_spin_mode(m, v)))
                    for m in list(PowerMode) + ["bogus"]:
                        for v in (0, -1, 500, 5000, nan, "1", None):
                            calls.append((f"power_on({m!r},{v!r})",
                                lambda g, m=m, v=v: g.power_on(m, v)))
                            calls.append((f"_set_power_mode({m!r},{v!r})",
                                lambda g, m=m, v=v:
                                    g.state._set_power_mode(m, v)))
                    for m in list(CoolantMode) + ["bogus"]:
                        calls.append((f"coolant_on({m!r})",
                            lambda g, m=m: g.coolant_on(m)))
                        calls.append((f"_set_coolant_mode({m!r})",
                            lambda g, m=m: g.state._set_coolant_mode(m)))
                    for m in list(HaltMode) + ["bogus"]:
                        for s in temps:
                            for r in temps:
                                kw = {}
                                if r is not None:
                                    kw["R"] = r
                                if s is not None:
                                    kw["S"] = s
                                calls.append((f"halt({m!r},{kw!r})",
                                    lambda g, m=m, kw=kw: g.halt(m, **kw)))
                    for name in ("tool_off", "power_off", "coolant_off",
                                 "wait", "pause", "stop"):
                        calls.append((name + "()",
                            lambda g, name=name: getattr(g, name)()))
                    calls.append(("emergency_halt('x')",
                        lambda g: g.emergency_halt("x")))

                    for label, fn in calls:
                        g = fresh(tool, coolant)
                        if bounded:
                            g.set_bounds("tool-power", 0, 1000)
                            g.set_bounds("bed-temperature", 0, 120)
                            g.set_bounds("hotend-temperature", 0, 260)
                            g.set_bounds("chamber-temperature", 0, 80)
                        tag = f"[{tool},{coolant},{bounded}] {label}"
                        rec(log, g.state, tag, lambda: fn(g))
        return log

    # Public surface of the touched classes must be unchanged
    surface = {
        "GState": sorted(n for n in dir(GState) if not n.startswith("_")),
        "GCodeBuilder": sorted(
            n for n in dir(GCodeBuilder) if not n.startswith("_")),
        "slots": list(GState.__slots__),
    }

    transcript = {
        "surface": surface,
        "exhaustive": exhaustive(),
        "runs": {str(seed): run(seed) for seed in SEEDS},
    }

    assert not math.isnan(0.0)
    json.dump(transcript, sys.stdout, sort_keys=True)


# --------------------------------------------------------------------------
# Parent: run both trees, compare
# --------------------------------------------------------------------------

def drive(root: str) -> str:
    env = {
        "PATH": os.environ.get("PATH", "/usr/bin:/bin"),
        "PYTHONPATH": root,
        "PYTHONHASHSEED": "0",
        "PYTHONDONTWRITEBYTECODE": "1",
        "EQUIV_EXPECT_ROOT": root,
        "EQUIV_CHILD": "1",
    }
    proc = subprocess.run(
        [sys.executable, os.path.abspath(__file__)],
        env=env, cwd="/tmp", stdin=subprocess.DEVNULL,
        capture_output=True, text=True, timeout=600,
    )
    if proc.returncode != 0:
        sys.stderr.write(proc.stderr[-4000:])
        raise SystemExit(f"child for {root} failed ({proc.returncode})")
    return proc.stdout


def main() -> int:
    outputs = {name: drive(root) for name, root in TREES.items()}
    data = {name: json.loads(text) for name, text in outputs.items()}

    a, b = data["orig"], data["twin"]
    assert a["surface"] == b["surface"], "public surface differs"

    def first_diff(x, y, what):
        assert len(x) == len(y), f"{what}: length {len(x)} != {len(y)}"
        for i, (p, q) in enumerate(zip(x, y)):
            assert p == q, f"{what}[{i}] differs:\n  orig {p}\n  twin {q}"

    first_diff(a["exhaustive"], b["exhaustive"], "exhaustive")
    for seed in a["runs"]:
        first_diff(a["runs"][seed], b["runs"][seed], f"run {seed}")

    assert outputs["orig"] == outputs["twin"], "transcripts differ"

    # Sanity: the transcript must actually exercise the interesting paths
    entries = list(a["exhaustive"])
    for seed in a["runs"]:
        entries.extend(a["runs"][seed])
    calls = [e for e in entries if e[0] == "call"]
    emits = [e for e in entries if e[0] == "emit"]
    excs = {}
    for e in calls:
        if e[2][0] == "exc":
            excs[e[2][1]] = excs.get(e[2][1], 0) + 1
    ok = sum(1 for e in calls if e[2][0] == "ret")
    for needed in ("ToolStateError", "CoolantStateError", "ValueError"):
        assert excs.get(needed, 0) > 10, (needed, excs)
    assert ok > 300 and len(emits) > 300, (ok, len(emits))

    digest = hashlib.sha256(outputs["orig"].encode()).hexdigest()[:16]
    print(f"calls={len(calls)} ok={ok} emitted_lines={len(emits)}")
    print("exceptions:", json.dumps(excs, sort_keys=True))
    print(f"transcripts identical, sha256[:16]={digest}")
    return 0


if __name__ == "__main__":
    if os.environ.get("EQUIV_CHILD") == "1":
        child()
    else:
        sys.exit(main())
