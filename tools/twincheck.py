"""Confirm a behaviour-preserving refactoring ("twin") and run every check against it.

usage: python tools/twincheck.py <dir with patch.diff and equiv.py> [--skip-tests]
The patch is applied to a scratch worktree of /repo's HEAD under /var/tmp (removed afterwards): the unedited suite must
pass, the differential script equiv.py (which compares /repo with the patched tree) must exit 0; then every registered
check runs with --repo <scratch>: exit 1 is a FALSE ALARM, exit 2 an honest "cannot decide".
"""
from __future__ import annotations

import json
import os
import pathlib
import re
import shutil
import subprocess
import sys
import tempfile
import time

VERIF = pathlib.Path(__file__).resolve().parent.parent
PY = "/venv/bin/python"


def sh(cmd, cwd=None, env=None, timeout=1800):
    p = subprocess.run(cmd, shell=True, cwd=cwd, env=env, capture_output=True, text=True, timeout=timeout)
    return p.returncode, p.stdout + p.stderr


def main():
    d = pathlib.Path(sys.argv[1]).resolve()
    skip_tests = "--skip-tests" in sys.argv
    tmp = pathlib.Path(tempfile.mkdtemp(prefix="gsv-twin-", dir="/var/tmp"))
    out = {"dir": str(d), "at": time.strftime("%Y-%m-%dT%H:%M:%SZ", time.gmtime())}
    try:
        sh(f"git -C /repo worktree add -q --detach {tmp}/wt HEAD")
        wt = tmp / "wt"
        out["base_commit"] = sh("git -C /repo rev-parse --short HEAD")[1].strip()
        rc, o = sh(f"git -C {wt} apply --whitespace=nowarn {d}/patch.diff")
        out["patch_applies"] = rc == 0
        if rc != 0:
            print(json.dumps(out, indent=1))
            return 2
        out["files_touched"] = sh(f"git -C {wt} diff --stat")[1].strip().splitlines()
        # the agent's script names its own worktree: point it at ours
        src = (d / "equiv.py").read_text()
        wt_name = re.search(r"/tmp/wt[TUVW]-C\d\d", src)
        patched = src.replace(wt_name.group(0), str(wt)) if wt_name else src
        (tmp / "equiv.py").write_text(patched)
        rc, o = sh(f"timeout 900 {PY} {tmp}/equiv.py", cwd=str(tmp), env=dict(os.environ), timeout=1000)
        out["equiv"] = {"exit": rc, "tail": o[-300:]}
        if not skip_tests:
            env = dict(os.environ, PYTHONPATH=str(wt))
            rc, o = sh(f"timeout 1500 {PY} -m pytest -q -p no:cacheprovider --timeout=900 -x --deselect tests/test_file_writer.py::test_write_to_invalid_path tests",
                       cwd=str(wt), env=env, timeout=1700)
            out["test_suite"] = {"exit": rc, "summary": [l for l in o.splitlines() if " passed" in l or " failed" in l][-1:]}
        res = {}
        props = [c["property_id"] for c in json.loads((VERIF / "MANIFEST.json").read_text())["checks"]]
        if os.environ.get("TWINCHECK_RELATED"):
            # only the checks that read a file the patch touches (table shared with tools/twinregress.py)
            sys.path.insert(0, str(VERIF / "tools"))
            from twinregress import RELATED
            touched = [l.split()[-1] for l in (d / "patch.diff").read_text().splitlines() if l.startswith("+++ b/")]
            keep = {re.search(r"C\d\d", d.name).group(0)}
            for f_ in touched:
                for pat, checks in RELATED:
                    if pat in f_:
                        keep |= set(checks)
            props = [p_ for p_ in props if p_ in keep]
            out["checks_run"] = props
        for pid in props:
            e2 = dict(os.environ, GSVERIF_EVIDENCE_DIR=str(tmp / f"ev-{pid}"), PYTHONPATH=str(VERIF), GSVERIF_JOBS=os.environ.get("GSVERIF_JOBS", "4"))
            rc, o = sh(f"timeout 1700 {PY} -m gsverif check {pid} --tier quick --repo {wt}", cwd=str(VERIF), env=e2, timeout=1800)
            if rc != 0:
                res[pid] = {"exit": rc, "lines": [l[:300] for l in o.splitlines() if l.startswith(("FINDING", "ANALYSIS-ERROR"))][:4]}
        out["checks_not_silent"] = res
        out["confirmed_equivalent"] = bool(out["equiv"]["exit"] == 0 and (skip_tests or out["test_suite"]["exit"] == 0))
        print(json.dumps(out, indent=1))
        (d / "twincheck.json").write_text(json.dumps(out, indent=1))
        return 0
    finally:
        sh(f"git -C /repo worktree remove --force {tmp}/wt")
        shutil.rmtree(tmp, ignore_errors=True)


if __name__ == "__main__":
    sys.exit(main())
