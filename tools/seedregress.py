"""Re-run the checks recorded in every seeded/<id>/meta.json against that change (regression of the machinery).

usage: python tools/seedregress.py [--jobs N] [seed id ...]
Each patch is applied to a scratch worktree of /repo's HEAD under /var/tmp (removed afterwards); the check of the
seed's own property, and every check meta.json lists, is run with --repo; each must still report a violation.
"""
from __future__ import annotations

import concurrent.futures as cf
import json
import os
import pathlib
import shutil
import subprocess
import sys
import tempfile

VERIF = pathlib.Path(__file__).resolve().parent.parent
PY = "/venv/bin/python"


def sh(cmd, **kw):
    p = subprocess.run(cmd, shell=True, capture_output=True, text=True, **kw)
    return p.returncode, p.stdout + p.stderr


def one(sd: pathlib.Path):
    meta = json.loads((sd / "meta.json").read_text())
    listed = meta.get("checks_that_report_it", {})
    if not isinstance(listed, dict) or not all(k.startswith("C") and len(k) == 3 for k in listed):
        return sd.name, "skipped (special meta)", {}
    want = sorted(set(listed) | {meta["property"]})
    if "--own-only" in sys.argv:
        want = [meta["property"]]
    tmp = pathlib.Path(tempfile.mkdtemp(prefix="gsv-reg-", dir="/var/tmp"))
    try:
        rc, o = sh(f"git -C /repo worktree add -q --detach {tmp}/wt HEAD")
        rc, o = sh(f"git -C {tmp}/wt apply --whitespace=nowarn {sd}/patch.diff")
        if rc != 0:
            rc, o = sh(f"git -C {tmp}/wt apply --3way --whitespace=nowarn {sd}/patch.diff")
            if rc != 0:
                return sd.name, "patch does not apply to HEAD", {}
        res = {}
        for pid in want:
            env = dict(os.environ, GSVERIF_EVIDENCE_DIR=str(tmp / f"ev-{pid}"), PYTHONPATH=str(VERIF), GSVERIF_JOBS=os.environ.get("GSVERIF_JOBS", "4"))
            rc, o = sh(f"timeout 1700 {PY} -m gsverif check {pid} --tier quick --repo {tmp}/wt", cwd=str(VERIF), env=env)
            res[pid] = rc
        own = res.get(meta["property"])
        undecided = set(meta.get("checks_that_cannot_decide_it", {}))
        own_ok = own == 1 or (meta["property"] in undecided and own == 2)       # never a silent pass
        status = "ok" if all(v == 1 or (k in undecided and v == 2) for k, v in res.items()) else ("own-check-ok" if own_ok else "REGRESSION")
        return sd.name, status, res
    finally:
        sh(f"git -C /repo worktree remove --force {tmp}/wt")
        shutil.rmtree(tmp, ignore_errors=True)


def main():
    args = [a for a in sys.argv[1:] if not a.startswith("--")]
    jobs = int(sys.argv[sys.argv.index("--jobs") + 1]) if "--jobs" in sys.argv else 4
    if "--jobs" in sys.argv:
        args = [a for a in args if a != sys.argv[sys.argv.index("--jobs") + 1]]
    seeds = sorted(d for d in (VERIF / "seeded").iterdir() if d.is_dir() and (not args or d.name in args))
    bad = 0
    with cf.ThreadPoolExecutor(max_workers=jobs) as ex:
        for name, status, res in ex.map(one, seeds):
            print(f"{status:28} {name}  {res}")
            if status in ("REGRESSION", "patch does not apply to HEAD"):
                bad += 1
    print(f"seedregress: {len(seeds)} seeds, {bad} regressions")
    return 1 if bad else 0


if __name__ == "__main__":
    sys.exit(main())
