"""Confirm a seeded change and run the checks against it.

usage: python tools/seedcheck.py <dir with patch.diff and demo.py> [--tier quick] [--skip-tests]

Everything happens in a scratch copy of /repo's HEAD under /var/tmp (removed
afterwards): the patch must apply, the unedited test suite must still pass
(apart from the baseline's known failure), the demonstration must fail with the
change and pass without it.  Then every registered check is run with
``--repo <scratch>``; the ones that report a violation are listed.
"""
from __future__ import annotations

import json
import os
import pathlib
import shutil
import subprocess
import sys
import tempfile
import time

VERIF = pathlib.Path(__file__).resolve().parent.parent
PY = "/venv/bin/python"


def sh(cmd, cwd=None, env=None, timeout=1800):
    p = subprocess.run(cmd, shell=True, cwd=cwd, env=env, capture_output=True, text=True, timeout=timeout)
    return p.returncode, p.stdout + p.stderr


def main():
    d = pathlib.Path(sys.argv[1]).resolve()
    tier = "quick"
    if "--tier" in sys.argv:
        tier = sys.argv[sys.argv.index("--tier") + 1]
    skip_tests = "--skip-tests" in sys.argv
    tmp = pathlib.Path(tempfile.mkdtemp(prefix="gsv-seed-", dir="/var/tmp"))
    out = {"dir": str(d), "at": time.strftime("%Y-%m-%dT%H:%M:%SZ", time.gmtime())}
    try:
        rc, o = sh(f"git -C /repo worktree add -q --detach {tmp}/wt HEAD")
        wt = tmp / "wt"
        out["base_commit"] = sh("git -C /repo rev-parse --short HEAD")[1].strip()
        env = dict(os.environ, PYTHONPATH=str(wt))
        # demo on the unchanged tree
        rc0, o0 = sh(f"timeout 600 {PY} {d}/demo.py", cwd=str(tmp), env=env, timeout=700)
        out["demo_without_change"] = {"exit": rc0, "tail": o0[-400:]}
        rc, o = sh(f"git -C {wt} apply --whitespace=nowarn {d}/patch.diff")
        out["patch_applies"] = rc == 0
        if rc != 0:
            out["error"] = o[-500:]
            print(json.dumps(out, indent=1))
            return 2
        out["files_touched"] = sh(f"git -C {wt} diff --stat")[1].strip().splitlines()
        rc1, o1 = sh(f"timeout 600 {PY} {d}/demo.py", cwd=str(tmp), env=env, timeout=700)
        out["demo_with_change"] = {"exit": rc1, "tail": o1[-600:]}
        if not skip_tests:
            rc, o = sh(f"timeout 1500 {PY} -m pytest -q -p no:cacheprovider --timeout=900 -x --deselect tests/test_file_writer.py::test_write_to_invalid_path tests",
                       cwd=str(wt), env=env, timeout=1700)
            out["test_suite"] = {"exit": rc, "summary": [l for l in o.splitlines() if " passed" in l or " failed" in l][-1:]}
        fired = {}
        props = [c["property_id"] for c in json.loads((VERIF / "MANIFEST.json").read_text())["checks"]]
        if os.environ.get("SEEDCHECK_ONLY"):
            props = [p_ for p_ in props if p_ in os.environ["SEEDCHECK_ONLY"].split(",")]
        for pid in props:
            ev = tmp / f"ev-{pid}"
            e2 = dict(os.environ, GSVERIF_EVIDENCE_DIR=str(ev), PYTHONPATH=str(VERIF), GSVERIF_JOBS=os.environ.get("GSVERIF_JOBS", "4"))
            rc, o = sh(f"timeout 1700 {PY} -m gsverif check {pid} --tier {tier} --repo {wt}", cwd=str(VERIF), env=e2, timeout=1800)
            if rc != 0:
                fired[pid] = {"exit": rc, "findings": [l[:300] for l in o.splitlines() if l.startswith(("FINDING", "ANALYSIS-ERROR"))][:5]}
        out["checks_that_report"] = fired
        out["confirmed"] = bool(out["patch_applies"] and rc0 == 0 and rc1 != 0 and (skip_tests or out["test_suite"]["exit"] == 0))
        print(json.dumps(out, indent=1))
        (d / "seedcheck.json").write_text(json.dumps(out, indent=1))
        return 0
    finally:
        sh(f"git -C /repo worktree remove --force {tmp}/wt")
        shutil.rmtree(tmp, ignore_errors=True)


if __name__ == "__main__":
    sys.exit(main())
