"""Re-run every registered check against every kept behaviour-preserving refactoring (twins/<id>/patch.diff).

usage: python tools/twinregress.py [--jobs N] [twin id ...]
Each patch is applied to a scratch worktree of /repo's HEAD under /var/tmp (removed afterwards); every check must exit 0.
"""
from __future__ import annotations

import concurrent.futures as cf
import json
import os
import pathlib
import shutil
import subprocess
import sys
import tempfile

VERIF = pathlib.Path(__file__).resolve().parent.parent
PY = "/venv/bin/python"


def sh(cmd, **kw):
    p = subprocess.run(cmd, shell=True, capture_output=True, text=True, **kw)
    return p.returncode, p.stdout + p.stderr


def one(td: pathlib.Path):
    tmp = pathlib.Path(tempfile.mkdtemp(prefix="gsv-twr-", dir="/var/tmp"))
    try:
        sh(f"git -C /repo worktree add -q --detach {tmp}/wt HEAD")
        rc, o = sh(f"git -C {tmp}/wt apply --whitespace=nowarn {td}/patch.diff")
        if rc != 0:
            return td.name, "patch does not apply to HEAD", {}
        res = {}
        props = [c["property_id"] for c in json.loads((VERIF / "MANIFEST.json").read_text())["checks"]]
        for pid in props:
            env = dict(os.environ, GSVERIF_EVIDENCE_DIR=str(tmp / f"ev-{pid}"), PYTHONPATH=str(VERIF), GSVERIF_JOBS=os.environ.get("GSVERIF_JOBS", "4"))
            rc, o = sh(f"timeout 1700 {PY} -m gsverif check {pid} --tier quick --repo {tmp}/wt", cwd=str(VERIF), env=env)
            if rc != 0:
                res[pid] = (rc, [l[:200] for l in o.splitlines() if l.startswith(("FINDING", "ANALYSIS-ERROR"))][:2])
        return td.name, ("ok" if not res else ("FALSE-ALARM" if any(v[0] == 1 for v in res.values()) else "UNDECIDED")), res
    finally:
        sh(f"git -C /repo worktree remove --force {tmp}/wt")
        shutil.rmtree(tmp, ignore_errors=True)


def main():
    args = [a for a in sys.argv[1:] if not a.startswith("--")]
    jobs = 4
    if "--jobs" in sys.argv:
        jobs = int(sys.argv[sys.argv.index("--jobs") + 1])
        args = [a for a in args if a != str(jobs)]
    twins = sorted(d for d in (VERIF / "twins").iterdir() if d.is_dir() and (not args or d.name in args))
    bad = 0
    with cf.ThreadPoolExecutor(max_workers=jobs) as ex:
        for name, status, res in ex.map(one, twins):
            print(f"{status:14} {name}  {res}")
            bad += status != "ok"
    print(f"twinregress: {len(twins)} twins, {bad} not silent")
    return 1 if bad else 0


if __name__ == "__main__":
    sys.exit(main())
