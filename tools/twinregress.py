"""Re-run every registered check against every kept behaviour-preserving refactoring (twins/<id>/patch.diff).

usage: python tools/twinregress.py [--jobs N] [twin id ...]
Each patch is applied to a scratch worktree of /repo's HEAD under /var/tmp (removed afterwards); every check must exit 0.
"""
from __future__ import annotations

import concurrent.futures as cf
import json
import os
import pathlib
import shutil
import subprocess
import sys
import tempfile

VERIF = pathlib.Path(__file__).resolve().parent.parent
PY = "/venv/bin/python"


def sh(cmd, **kw):
    p = subprocess.run(cmd, shell=True, capture_output=True, text=True, **kw)
    return p.returncode, p.stdout + p.stderr


BUILDER = ["C01", "C02", "C03", "C04", "C05", "C06", "C07", "C08", "C09", "C11", "C14", "C20"]
# which checks read which part of the package (for --related)
RELATED = [
    ("gscrib/gcode_builder.py", BUILDER), ("gscrib/gcode_core.py", BUILDER + ["C10", "C13"]), ("gscrib/gcode_state.py", BUILDER),
    ("gscrib/formatters/", BUILDER), ("gscrib/geometry/bounds.py", BUILDER), ("gscrib/geometry/point.py", BUILDER + ["C10", "C13", "C19"]),
    ("gscrib/params.py", BUILDER + ["C18"]), ("gscrib/enums/", BUILDER + ["C10"]), ("gscrib/codes/", BUILDER),
    ("gscrib/geometry/tracer.py", ["C01", "C09", "C10", "C11", "C20"]),
    ("gscrib/geometry/transform", ["C01", "C04", "C13"]),
    ("gscrib/hooks/", ["C20"]),
    ("gscrib/writers/printrun_writer.py", ["C16", "C18", "C14"]), ("gscrib/writers/", ["C14", "C16"]),
    ("gscrib/printrun/", ["C15", "C16", "C17", "C18"]),
    ("gscrib/heightmaps/", ["C19"]),
]


# --short: the own check plus the two or three checks that read the touched code most broadly
CORE3 = ["C01", "C05", "C08"]
SHORT = [
    ("gscrib/gcode_builder.py", CORE3), ("gscrib/gcode_core.py", CORE3), ("gscrib/gcode_state.py", CORE3), ("gscrib/formatters/", CORE3),
    ("gscrib/geometry/bounds.py", ["C03", "C05"]), ("gscrib/geometry/point.py", ["C01", "C04"]), ("gscrib/params.py", ["C07", "C18"]),
    ("gscrib/enums/", ["C07", "C10"]), ("gscrib/codes/", ["C07"]),
    ("gscrib/geometry/tracer.py", ["C10", "C11", "C20"]), ("gscrib/geometry/transform", ["C04", "C13"]), ("gscrib/hooks/", ["C20"]),
    ("gscrib/writers/printrun_writer.py", ["C16", "C18"]), ("gscrib/writers/", ["C14", "C16"]),
    ("gscrib/printrun/", ["C15", "C16", "C17"]), ("gscrib/heightmaps/", ["C19"]),
]


def one(td: pathlib.Path):
    tmp = pathlib.Path(tempfile.mkdtemp(prefix="gsv-twr-", dir="/var/tmp"))
    try:
        sh(f"git -C /repo worktree add -q --detach {tmp}/wt HEAD")
        rc, o = sh(f"git -C {tmp}/wt apply --whitespace=nowarn {td}/patch.diff")
        if rc != 0:
            return td.name, "patch does not apply to HEAD", {}
        res = {}
        props = [c["property_id"] for c in json.loads((VERIF / "MANIFEST.json").read_text())["checks"]]
        if "--related" in sys.argv:
            # only the checks that analyse a file the patch touches (plus the twin's own property)
            touched = [l.split()[-1] for l in (td / "patch.diff").read_text().splitlines() if l.startswith("+++ b/")]
            keep = {td.name[:3]}
            table = SHORT if "--short" in sys.argv else RELATED
            for f in touched:
                for pat, checks in table:
                    if pat in f:
                        keep |= set(checks)
            props = [p_ for p_ in props if p_ in keep]
        for pid in props:
            env = dict(os.environ, GSVERIF_EVIDENCE_DIR=str(tmp / f"ev-{pid}"), PYTHONPATH=str(VERIF), GSVERIF_JOBS=os.environ.get("GSVERIF_JOBS", "4"))
            rc, o = sh(f"timeout 1700 {PY} -m gsverif check {pid} --tier quick --repo {tmp}/wt", cwd=str(VERIF), env=env)
            if rc != 0:
                res[pid] = (rc, [l[:200] for l in o.splitlines() if l.startswith(("FINDING", "ANALYSIS-ERROR"))][:2])
        return td.name, ("ok" if not res else ("FALSE-ALARM" if any(v[0] == 1 for v in res.values()) else "UNDECIDED")), res
    finally:
        sh(f"git -C /repo worktree remove --force {tmp}/wt")
        shutil.rmtree(tmp, ignore_errors=True)


def main():
    args = [a for a in sys.argv[1:] if not a.startswith("--")]
    jobs = 4
    if "--jobs" in sys.argv:
        jobs = int(sys.argv[sys.argv.index("--jobs") + 1])
        args = [a for a in args if a != str(jobs)]
    twins = sorted(d for d in (VERIF / "twins").iterdir() if d.is_dir() and (not args or d.name in args))
    bad = 0
    with cf.ThreadPoolExecutor(max_workers=jobs) as ex:
        for name, status, res in ex.map(one, twins):
            print(f"{status:14} {name}  {res}")
            bad += status != "ok"
    print(f"twinregress: {len(twins)} twins, {bad} not silent")
    return 1 if bad else 0


if __name__ == "__main__":
    sys.exit(main())
