import json, sys
sys.path.insert(0,'/verif')
props=[json.loads(l) for l in open('/verif/properties.jsonl')]
import importlib
from gsverif.manifest_data import CHECKS, NOT_APPLICABLE
checks=[]
for pid,c in CHECKS.items():
    checks.append({
      "property_id": pid,
      "quick_cmd": f"/venv/bin/python -m gsverif check {pid} --tier quick",
      "thorough_cmd": f"/venv/bin/python -m gsverif check {pid} --tier thorough",
      "evidence_file": f"/verif/evidence/{pid}.json",
      "replay_cmd_template": "/venv/bin/python -m gsverif replay {path}",
      "engine": "gsverif",
      "level_claimed": {"category":"other","text":c["text"],"design_ref":c["design_ref"]},
      "level_note": c["note"],
      "technique": c["technique"],
    })
na=[{"property_id":p["id"],"reason":NOT_APPLICABLE.get(p["id"],"check not built yet in this session (static-analysis plan in DESIGN.md section 4)")} for p in props if p["id"] not in CHECKS]
m={
 "version":1,
 "setup_cmd":"/venv/bin/python -m compileall -q gsverif && /venv/bin/python -m gsverif.setupcheck",
 "hooks":{"guard":"GSCRIB_VERIF","enable":"not used: static analysis reads /repo's working tree and needs no instrumentation","baseline_off_cmd":"cd /repo && /venv/bin/python -m pytest -ra -q -p no:cacheprovider --timeout=900 --continue-on-collection-errors","source_commits":[],"add_only":True},
 "engines":[{"name":"gsverif","path":"/verif/gsverif","serves_properties":sorted(CHECKS),"kind_free_text":"static analysis: program model + path-sensitive abstract interpreter (no solver, no execution of gscrib) + AST/CFG shape rules"}],
 "checks":checks,
 "not_applicable":na,
 "notes":"All checks parse /repo's current working tree on every run; exit 0 = held, 1 = VIOLATION lines, 2 = ANALYSIS-ERROR (analysis broken, nothing claimed). Known/fixed findings: /verif/known_findings.json.",
}
json.dump(m,open('/verif/MANIFEST.json','w'),indent=1)
import jsonschema
jsonschema.validate(m,json.load(open('/root/.vp/MANIFEST.schema.json')))
print("manifest ok", len(checks), "checks", len(na), "n/a")
