"""Copy a confirmed seeded change into /verif/seeded/<id>/ with its meta.json.

usage: python tools/importseed.py <source dir> <seed id> <property> "<what it needs to manifest>"
The source dir must already hold patch.diff, demo.py and the seedcheck.json written by tools/seedcheck.py.
"""
import json, pathlib, shutil, sys
src, sid, prop, needs = pathlib.Path(sys.argv[1]), sys.argv[2], sys.argv[3], sys.argv[4]
dst = pathlib.Path(__file__).resolve().parent.parent / "seeded" / sid
dst.mkdir(parents=True, exist_ok=True)
for f in ("patch.diff", "demo.py"):
    shutil.copy(src / f, dst / f)
if (src / "notes.md").exists():
    shutil.copy(src / "notes.md", dst / "notes.md")
sc = json.loads((src / "seedcheck.json").read_text())
meta = {
    "seed": sid,
    "property": prop,
    "origin": "independent sub-agent given only the property text and a scratch worktree",
    "needs_to_manifest": needs,
    "base_commit": sc.get("base_commit"),
    "files_touched": sc.get("files_touched"),
    "confirmed": sc.get("confirmed"),
    "what_was_run": {
        "patch applies to a scratch worktree of /repo HEAD": sc.get("patch_applies"),
        "unedited test suite with the change": sc.get("test_suite"),
        "demo.py without the change (exit)": sc.get("demo_without_change", {}).get("exit"),
        "demo.py with the change (exit)": sc.get("demo_with_change", {}).get("exit"),
        "demo.py with the change (tail)": sc.get("demo_with_change", {}).get("tail", "")[-300:],
    },
    "checks_that_report_it": {k: v.get("findings", [])[:3] for k, v in sc.get("checks_that_report", {}).items() if v.get("exit") == 1},
    # checks that stop with exit 2 (ANALYSIS-ERROR): the change puts the code outside what they can decide, and they say so
    "checks_that_cannot_decide_it": {k: v.get("findings", [])[:1] for k, v in sc.get("checks_that_report", {}).items() if v.get("exit") == 2},
}
(dst / "meta.json").write_text(json.dumps(meta, indent=1))
print(sid, "->", sorted(meta["checks_that_report_it"]))
